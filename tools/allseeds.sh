#!/bin/bash
# allseeds.sh : runs every seeded change of /verif/seeded against the quick check of its property; prints DETECTED / silent per change.
cd /verif
for d in seeded/*/; do
  n=$(basename $d); id=$(echo $n | cut -c1-3)
  [ -f $d/patch.diff ] || continue
  out=$(LINES_MAX=100000 tools/seed_try.sh $n $id 2>&1)
  if echo "$out" | grep -aq "^VIOLATION property=$id"; then echo "$n DETECTED"; elif echo "$out" | grep -aq "ENGINE\|BUILD"; then echo "$n ERROR"; else echo "$n silent"; fi
done
