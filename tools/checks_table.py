add("C09","exploration","bounded exhaustive enumeration of (from, until, t, delta, type, key, config) against a reference window formula",
 "Every ordering and equality of (anchor-from, anchor-until, anchoring time) with the maximum operation time delta and every other numeric protocol parameter varied alone is run through the real applier and the real non-batch parser (spy time validator); verdicts are compared with the window formula of the statement. Exhaustive over the stated finite alphabet, which contains every boundary the code can distinguish.",
 "Trusts the reference formula, the harness's own JWS signer (Go crypto) and the create fixture; values outside the boundary alphabet are not explored.")
add("C05","exploration","bounded exhaustive enumeration of strings/names/orders/doubles/spellings/trees/whitespace against an independent RFC 8785 implementation",
 "Every string and member name up to the length bound over a 50-class code-point alphabet in every spelling, every member order of 2-3 member objects, ~60k boundary doubles (thorough: +33M mantissa-prefix doubles) in 6-9 spellings, all trees to depth 3 and every whitespace placement are canonicalized by the real code and compared byte for byte with an independent reference, plus idempotence, value preservation and spelling invariance.",
 "Trusts ref/jcs (encoding/json decoder + strconv shortest digits). Does not cover all 2^64 doubles or all Unicode strings; inputs outside I-JSON are left to C19.")
add("C06","exploration","all ordered pairs of ~400 JSON values x 2 algorithms + exhaustive malformed-encoding classes against a reference multihash",
 "validate(v, hash(w)) is evaluated for every ordered pair of the value set (which contains every re-serialization class) under both algorithms and must succeed exactly when the values are equal; calculation is compared with the reference for every value, every other code is refused, prefix functions agree with the reference decoder on every subset of codes, every malformed class at every position is rejected, right digests under wrong prefixes never validate.",
 "Trusts ref/mh, ref/jcs and JSON value equality on decoded values. Structurally consistent multihashes with a table-unknown code are observed, not judged, for GetMultihashCode.")
add("C04","exploration","exhaustive enumeration of derived keys x nonces x algorithms and of all operation chains up to the length bound",
 "For every derived key of every type, nonce variant and algorithm the library's reveal value, commitment and derived commitment are compared with reference formulas and all commitments are pairwise distinct; for every chain create (update|recover)^<=3 deactivate (plain and windowed, single-type and mixed-type) each operation's reveal value must map to the commitment carried by its predecessor and the parser must report the right next commitment.",
 "Trusts the reference formulas and the harness generator; keys are the small-scalar / small-seed keys, not all keys.")
add("C01","model_checking","explicit-state BFS over the real OperationApplier with a lock-step reference state machine",
 "Every symbol of an 80+ symbol alphabet of pre-built anchored operations (type x failure class x key type x window class, each with its own anchoring tuple and commitments) is applied by the real applier from every reachable state (two initial states), states deduplicated on all 15 fields, and every transition is compared with the reference Sidetree state machine (refused => error and nil; otherwise all 15 fields equal). Exhaustive for all histories up to the completed depth.",
 "Trusts ref/sidetree + ref/patch (written from the statement) and the harness generator. Histories longer than the completed depth are not covered unless the frontier is empty.")
add("C02","fault_enumeration","exhaustive enumeration of tamperings of valid signed operations judged by an independent JWS + binding predicate",
 "Every listed tampering (every signature bit, every payload/header byte, every signed field, key/reveal/delta substitution, every JOSE header, alg variants, segment surgery) of every valid update/recover/deactivate of all five key types is applied by the real applier to a fixed previous state; whenever state changes, an independent predicate computed from the tampered bytes alone must say the operation is authorized (and delta-bound where content is installed).",
 "Soundness direction only (completeness is C01/C08). Trusts ref/jws (Go crypto, dcrd), ref/mh, ref/jcs. Multi-bit tamperings outside the listed classes are not enumerated.")
add("C10","model_checking","explicit-state BFS over the real DocumentComposer with a lock-step reference fold, plus the left-fold law over all symbol pairs",
 "Every validated patch symbol (all eight actions; ids that collide with, overlap and miss existing entries; RFC 6902 operations incl. corner operations) is applied by the real composer from every reachable document (two starting points), deduplicated on the observable projection; every transition is compared with the reference per-action semantics, the unique-id invariant is checked in every state, and ApplyPatches(d,[p,q]) = ApplyPatches(ApplyPatches(d,[p]),[q]) is checked for all ordered pairs from all states up to the law depth. Departures of the pinned RFC 6902 library are listed as known findings by class.",
 "Trusts ref/patch (literal RFC 6902 evaluator, per-action fold). Exhaustive up to the completed depth for the alphabet; documents outside the alphabet's reach are not covered.")
add("C11","exploration","exhaustive enumeration of RFC 6902 patch lists over a pointer alphabet; effect oracle on the protected members",
 "Every single operation over 6 kinds x 25 path pointers x 25 from pointers x 3 values and every listed pair (thorough: all ordered pairs) is validated and applied by the real code on three documents; whenever a list validates and applies, the publicKey and service members must be deep-equal to the input's.",
 "Operations copying/moving into their own subtree are left to C19. Lists longer than two operations are not enumerated.")
add("C12","model_checking","deep input snapshots around every transition of the applier and composer graphs (explicit-state BFS), sequential execution",
 "On every transition of the C01 applier graph and of the C10 composer graph, and on patch lists failing at the k-th patch, deep snapshots of the previous state/document, the anchored operation and the patch values taken before the call are compared afterwards; an error must come with a nil result; all state objects ever produced are re-compared with their creation-time snapshots at the end.",
 "Snapshots are JSON dumps (plus nil-ness); mutation of unexported or non-JSON state would not be seen (there is none in these types). Same depth bounds as C01/C10.")
add("C13","exploration","exhaustive enumeration of valid patches and one labelled mutation per constraint against an independent constraint predicate, both directions",
 "Valid patches of every action and shape and one mutation per documented constraint (boundary lengths, every forbidden character class, duplicates adjacent and non-adjacent, every missing / extra member, the full key type x purpose-subset x material matrix, endpoint lists with a bad i-th entry) are validated by the real validator and must be accepted exactly when the independent predicate says valid; both original-document validators are checked on id / context combinations.",
 "Trusts ref/rules (written from the statement). URIs are limited to unambiguous examples; non-string list entries are not generated.")
add("C07","exploration","exhaustive enumeration of (request, configuration) pairs against an independent acceptance predicate, both directions",
 "Valid requests of all four types x five key types x eight patch kinds (plus nonce keys, SHA-512 variants, anchor-origin variants) are parsed under configurations that vary one axis at a time (each size limit exactly at and one below the request's own size, each list with/without the used value, nonce sizes, every other numeric parameter), and one labelled mutation per rule of the statement is parsed under the baseline; the real parser must accept exactly when the independent predicate does, and the returned operation must carry the request's type, suffix, id, bytes and anchor origin.",
 "Trusts ref/sidetree.Acceptable and ref/rules. Mutations are single-rule; type-confusion inputs are C19's.")
add("C15","fault_enumeration","exhaustive enumeration of single-point mutations of library-signed JWS judged by an independent verifier",
 "JWS produced by the library's own signers (constant rand.Reader; signatures with short r and short s are searched for and included) for 15 keys x 4 payloads are verified by the library under the matching key, every other key, and after every byte-mask (thorough: bit) flip of each decoded segment, every character substitution of the encoded form, segment surgery, signature length changes and unsupported key types; an independent verifier decides the expected verdict of every mutated string and content-changing flips must be rejected outright.",
 "Trusts ref/jws (Go crypto, dcrd). Keys are small-scalar keys incl. leading-zero coordinates; multi-point mutations are not enumerated.")
add("C16","exploration","exhaustive enumeration of small-scalar public keys and of single-point JWK mutations against an independent on-curve + width predicate",
 "Every public key d*G (d up to 4096 / 65536) on the four curves and every Ed25519 key from seeds up to 4096 / 16384 is converted to a JWK, read back and re-marshalled by the real code: names, fixed coordinate width, point equality, byte identity and commitment/reveal equality are checked (all leading-zero-coordinate keys in range are included and counted). On 8 keys per type every single-bit flip of each coordinate and every width change is read by the real code and must be accepted exactly when the independent predicate says the JWK is valid.",
 "Trusts ref/jws.KeyOK (crypto/elliptic, dcrd) and the harness's own fixed-width encoding. Keys outside the small-scalar range are not enumerated.")
add("C14","exploration","exhaustive enumeration of a document grammar, constructor inputs, patch texts and the action x value-key table",
 "Every document of the grammar (1-3 keys x 0-2 services x 0-2 also-known-as x every subset of five kinds of further members) is converted to patches, every patch is validated and the patches are applied to the empty document by the real code, which must reproduce the document; all eight constructors are run on valid inputs (must succeed, validate, and agree with their accessors); FromBytes(Bytes(p)) is checked for every patch text seen; FromBytes is run on all action x value-key combinations and on missing / unknown / non-string actions; documents with an id must be refused.",
 "Constructor behaviour on structurally invalid input is recorded, not judged (the statement makes no claim). Equality through the observable projection.")
add("C03","exploration","exhaustive enumeration of a create-request grammar x configurations, of re-serializations and of single-field modifications",
 "Every create request of the grammar (patch lists over all 8 actions, anchor origin and type variants, both hash algorithms) is parsed by the real parser under four multihash configurations and two namespaces: suffix = reference multihash of the canonical suffix data with the first configured algorithm, id = namespace:suffix, non-configured algorithms refused; every member order of every object, whitespace at every token boundary and escape spellings must denote the same DID; every single-field modification of suffix data or delta must change the DID or be refused.",
 "Trusts ref/mh, ref/jcs. Unknown extra members are out of scope (decoder drops them by design).")
add("C18","exploration","exhaustive enumeration of internal documents x transformer options, metadata combinations and all operation lists up to the length bound against a reference resolution result",
 "Every valid single key over 6 types x 32 purpose subsets x {JWK, base58} and several multi-key / service / also-known-as documents are transformed by the real transformer under all 16 option combinations (plus a custom key-context map) and compared with the reference document and metadata; all metadata field combinations are run through both transformers; every sequence of up to 4 (thorough 5) anchored operations over (time, number) in {0,1,2}^2 x 2 canonical references is transformed and must come out in anchoring order, published operations de-duplicated by canonical reference, fields preserved.",
 "Trusts ref/resolution (own base58, RFC 3339 via time package). Ties in (time, number) are compared as multisets.")
add("C17","exploration","bounded exhaustive enumeration of created documents, of single-character tamperings of the created DIDs, and deviation-bounded exploration of map iteration orders on an instrumented build",
 "Documents of a grammar are created and read back through the real VDR and document handler (equivalence by fragment, type, key material, relationships, services, also-known-as; id; metadata); Create is re-run under every combination of map iteration orders with at most 2 (thorough 3) non-default order choices on a build whose map ranges are instrumented (seam M) and must always return the same DID; every single-character substitution, deletion and insertion of created DIDs, re-encodings of the initial state and look-alike namespaces are resolved and judged by an independent well-formedness predicate (resolves => well-formed long form of this namespace; exact well-formed form => resolves).",
 "Trusts vinst's map-range rewrite (the repository's own tests pass on the instrumented tree), ref/jcs, ref/mh, ref/sidetree.Acceptable. Map orders beyond the deviation bound and maps with more than 4 entries beyond rotations/reversal are not explored. did-go / JSON-LD parsing is third-party and uninstrumented.")
add("C20","model_checking","stateless preemption-bounded exploration of all thread interleavings at synchronisation points on an instrumented build, with a vector-clock happens-before race detector",
 "Six 3-thread scenarios on shared instances (namespace provider, client registry incl. duplicate registration, logging handler, parser/applier/composer/transformers/version provider, document handler + VDR + concurrent handler construction) are executed under a cooperative scheduler that owns every sync operation of the instrumented repository code; all interleavings with at most 3 preemptions (thorough: all) are enumerated. Every execution is checked for deadlock, happens-before data races on instrumented accesses, unexpected panics, linearizability of the registry history against a map specification (brute force) and equality of each thread's results with the sequential run. A free-running pass of the same bodies under the Go race detector is supplementary.",
 "Trusts vinst (repository tests pass on the instrumented tree) and the lock/once/waitgroup model of engine/sched. Interleavings only at acquire-type sync operations (sound for data-race-free code; races are reported instead). Accesses in third-party code, through slices and in conditionally evaluated expressions are only seen by the supplementary -race pass. 3 threads, 1-6 calls each.")
add("C19","fault_enumeration","exhaustive enumeration of byte strings and of single-position structure-aware corruptions (re-sealed), run in crash-contained worker processes against every entry point",
 "All byte strings of length <= 5 (thorough 6) over a 14-byte JSON-structural alphabet are fed to every byte-level entry point; every JSON position of valid operations, signed payloads, protected headers, long-form DIDs, JWS, JWKs, patches and documents is replaced by each value of a type-confusion alphabet, deleted and duplicated, the result re-sealed (hashes, signature, reveal value) and fed to parse / apply / process / resolve / validate / compose / transform; an RFC 6902 grammar incl. pointers into their own source, negative and huge indices; huge values. Workers announce each input; a recovered panic, a worker death (fatal error) or an input exceeding the CPU budget is a violation attributed to the announced input and keyed by its first library frame.",
 "Absence of panics is shown for the enumerated inputs only (bounded length, single-position corruption, pairs of patch operations). Non-termination is judged by worker CPU time (60 s), never wall-clock.")
add("C08","exploration","exhaustive enumeration of builder inputs and of Sidetree-client lifecycles over option subsets, applied through the real parser and applier against the caller's intent",
 "Every combination of key type x hash algorithm x (opaque document | patch list of each action) x anchor origin x window is built with the four request builders, parsed (non-batch) and applied in order by the real code; the state after each step must equal the caller's intent (reference fold), the signed data must carry the requested window, and the builders' refusals are exercised. The Sidetree client is driven through lifecycles create -> update^<=2 -> recover -> update^<=2 -> deactivate over every option subset of size <= 2 (states deduplicated per phase), with four signer key types and the request's hash algorithm alternating against the commitment in force; each captured request must link to the state's commitment, be accepted, and yield the intended document. Every accepted request's anchored form must be the canonical bytes, keep suffix/type/origin and reach the same state.",
 "Intent compares keys and services by id (order-insensitive). Trusts ref/patch, ref/jcs. Client keys always have at least one purpose.")
# ---- extensions made after the seeded-change rounds 2 and 3 (DESIGN.md 10.5)
more("C02","Reveal values are also replaced by well-formed multihashes that carry only a prefix (0, 1, half, all but one byte) of the right digest, and by the digest with a byte appended.")
more("C03","Every string of the delta is respelled the way a normalising step might consider equal (case, scheme case, blanks, empty fragment, percent-escape case) and every number of suffix data and delta is replaced by its neighbouring doubles, +1 and whole numbers beyond 2^53 / 2^64: the DID must change or the request be refused.")
more("C04","Chains are also run with every non-constant assignment of the two hash algorithms to their operations (algorithm migration) and with keys that carry / do not carry a nonce in the patterns none, all, alternating, all parsed by one parser.")
more("C06","The value set contains every pair of 18 member names (escapes, 2-4 byte UTF-8, BMP above the surrogate range, supplementary plane) in both member orders.")
more("C07","Every (request, configuration) pair is also judged as the second call on one shared parser after each of six first calls, and every valid request after each of the 125 refused requests (also on a second parser built from the same configuration value); every parser gets its own copy of the configuration lists.")
more("C08","Builder lifecycles also run with secp256k1 and P-256 keys one of whose coordinates begins with a zero byte.")
more("C11","Operations on the protected members are also written with the member names op / path / from in five other letter-case spellings.")
more("C12","In mutation mode every successful ApplyPatches is followed at once by calls that pass the returned document straight back to the same composer (one per patch kind, and a list failing after a typed patch); the returned document must stay unchanged.")
more("C13","All 258 endpoint lists of length 1-3 over {URI, empty, unparsable, object, number, list} entries, and every code point of the BMP (thorough: planes 0-2) as an id character in three actions, are validated against the predicate.")
more("C14","Further member names that begin like a reserved name (identifier, services, publicKeys, ...) are part of the document grammar; all patches of a document are serialized first and parsed afterwards.")
more("C15","Four JWS objects and four raw signatures made with ONE library signer per key type are held and verified afterwards.")
more("C16","JWKs whose x/y boundary is moved inside the same text are included, and every mutated JWK is also judged on the verification path after the genuine JWK was used in the process, against the independent verifier.")
more("C17","A service endpoint is grown one character at a time until Create refuses the document; every DID handed out on the way must be read and resolved (two document shapes).")
more("C18","Every sequence (a,b,a) - thorough (a,b,c) - over 52 (document, DID) symbols that reuse key and service ids is transformed on ONE transformer, every step and every result handed out earlier being compared with the reference; operation lists of 13-64 (thorough -257) entries are presented in every rotation, reversed, interleaved and organ-pipe order.")
more("C19","Further inputs: array-index spellings that alias (00, +0, -0), an array-of-containers document, existing states with string / object / list anchor origins, and small inputs that multiply the document (worker with a 256 MiB heap watchdog); two known findings (document amplification by RFC 6902 copy).")
more("C20","The instrumenter also records slice-element accesses (append within capacity, s[i], range, copy), so slices sharing a backing array meet in the happens-before detector; the stateless scenario shares transformers with 2 and 4 method contexts over three key types.")
# ---- extensions made after seeded-change round 4
more("C01","The alphabet repeats every failure class of update, recover and deactivate on an operation that is also anchored after its window (late+<class>).")
more("C02","Every tampered operation is also applied before and after its window [1, 1000].")
more("C03","An anchor origin object and a patch value carry member names whose UTF-16 order differs from their code point order.")
more("C04","Chains with anchoring windows are read by a parser whose anchor time validator refuses every window (batch-mode entry points must not ask it).")
more("C05","Objects of 10-64 plain members with every ordered pair of the 17 special names after / before them in five input orders; wide documents of 9999 / 10001 (thorough also 10000 / 30000) strings, members, numbers, arrays and objects at one level.")
more("C06","Wide values (9999 / 10001 entries) are hashed and validated in three forms.")
more("C07","Create, update and recover requests whose 60 numbers are spelled 1e20 on the wire (request shorter than its canonical delta) under MaxDeltaSize = size and size-1.")
more("C08","Every operation of a builder lifecycle has its own window around its own anchoring time (1000, 2000, 3000).")
more("C09","Every case is also applied to a previous state that lists the very operation object as unpublished and as published.")
more("C10","JSON patches adding members named like the resolved-document vocabulary (verificationMethod, services, publicKeys, authentication) with key- and service-shaped content, and a list that makes the RFC 6902 library panic after an applied patch, are part of the ordinary alphabet (C10, C12, C14).")
more("C11","Pointer tokens with a line feed, carriage return, U+2028 and a blank below the protected members.")
more("C13","A good URI padded with 7 blank / control characters before, after and after the host, as string endpoint, list entry and inside replace.")
more("C15","A member (kid, typ, cty, two unknown names) with an empty, ordinary, null, numeric, boolean and structured value is added at either end of the decoded protected header.")
more("C16","All ordered pairs (thorough: triples) of 10 keys of the five types are decoded into ONE JWK value; kty/crv, the re-marshalled JWK and PublicKeyBytes are checked after every decode.")
more("C17","Segment surgery: an extra segment (word, empty, own suffix, another suffix, the state, 'ion', 'a:b:c') at every boundary, segments swapped, duplicated and dropped.")
more("C18","The document section runs with three DIDs: plain, pct-encoded (localhost%3A8080) and one made of formatting verbs.")
more("C19","The single RFC 6902 operations (quick: every third) are wrapped into fully valid create requests and into recover requests signed by the recovery key of the existing states.")
more("C20","The scheduler models the writer preference of sync.RWMutex (a Lock call that has begun and waits holds back every new RLock, also a recursive one), so recursive read locks deadlock in the model as they do in Go.")
# ---- extensions made after seeded-change round 5
more("C01","A create, an update and a recover whose canonical delta has exactly the maximum size and holds & < > U+2028, and creates that leave the service member empty, are part of the alphabet (C01, C12).")
more("C02","Payloads with two key members whose names differ only in letter case (owner's and signer's key in both assignments, both orders, three spellings), signed by the other key.")
more("C03","An anchor origin string and a patch value with U+2028, U+2029, HTML characters, DEL and control characters.")
more("C04","Chains that re-use one public key per chain under changing nonces (nonce A, bare, nonce B, ...).")
more("C07","A request whose signing key is a well-formed RSA JWK (no curve) with a matching reveal value; requests with & < > in strings under MaxDeltaSize = size and size-1.")
more("C08","A create and an update built by the client builders, with query-string endpoints, under a maximum delta size equal to the canonical size of their delta.")
more("C11","Pointers /verificationMethod, /verificationMethod/0, /services, /publicKeys, /authentication (documents without keys / without services).")
more("C14","Further members whose values hold percent signs, template braces, backslashes and quotes, HTML characters and U+2028.")
more("C17","Every create request is also processed in four other spellings of the same JSON value (member order, escaped character, indentation, surrounding blanks).")
more("C18","Documents in which a service carries the id of a key.")
more("C19","Every prefix of three texts that use every escape form, surrogate pairs, unpaired surrogates and every number form.")
more("C20","The stateless scenario uses unsorted, restricted algorithm / curve lists and every thread also parses a refused request; the instrumenter treats s[a:b] as re-evaluable and models sort.* / slices.Sort* as slice reads and writes.")
# round 6
more("C01","A second search under a protocol that lists sha2-256 and sha2-512: operations under either algorithm and mixtures, and recovers that commit again to the revealed key under the same or the other algorithm.")
more("C04","RSA public keys (members n and e) with and without a nonce.")
more("C07","Valid requests with a line break behind and blanks before and behind them under MaxOperationSize = len and len-1; a recover committing to its signing key under the other hash algorithm.")
more("C08","The recover of a builder lifecycle names the create's anchor origin, another one, or none.")
more("C10","JSON patch lists whose copy / move reads a location an earlier operation of the same list changed (replace-then-copy, add-then-move, insert-then-copy-by-index, remove-then-copy) are part of the alphabet (C10, C12, C14).")
more("C12","The applier graph is searched a second time with an applier whose protocol has genesis time 7 (the operations say version 0).")
more("C13","Lists that repeat a URI which is not in normal form (upper-case scheme and host, non-ASCII path, blank).")
more("C14","Documents in which a service has the id of a public key.")
more("C15","Library EC signers of every curve under every algorithm label: what they produce verifies under their key and under no other.")
more("C16","1..n bytes moved from the end of x to the front of y and back (the concatenation keeps its length).")
more("C17","Every exact-form DID that resolves must resolve to a document with exactly that id (incl. the ION form without the optional type).")
more("C18","Times with created == updated, updated < created, and both 1.")
more("C19","JWKs of every key type with kty / crv in upper, lower and title case; VerifySignature with ten signature lengths incl. nil and empty.")
# round 7
more("C01","A create, an update and a recover whose delta is [inapplicable JSON patch, replace, ...] (C01, C12).")
more("C03","Anchor origins that are present but empty: \"\", false, 0, [], {} - as values and as replacement values.")
more("C04","Nonce sweep: an update for every (nonce size in {8,12,16,24,32}, first nonce byte) read by a parser configured for that size.")
more("C05","Member names with supplementary characters that share their UTF-16 high surrogate, from the neighbouring blocks, and with tails behind them.")
more("C06","Every subset of the algorithm codes in every order and with repeated entries.")
more("C07","Four bytes appended behind the digest of every hash-valued field of a request (recovery / update commitment, delta hash, signed delta hash, reveal value).")
more("C08","Every builder-made request is also parsed by a parser whose time validator compares the window with a clock showing the anchoring time; half of the windowed lifecycles omit AnchorUntil.")
more("C09","Windows that begin before time 0: from in {-D-1, -D, -D+1}.")
more("C11","A fourth value: a whole document with publicKey and service members, written at every pointer including the root.")
more("C12","Lists whose JSON patch (6 kinds) points into the value an earlier add-public-keys / add-services / replace patch of the same list supplied, with and without a failing third patch (the earlier patch value must come out unchanged).")
more("C13","The same id twice over every ordered pair of four key shapes (JWK / base58 material), adjacent, non-adjacent and inside replace.")
more("C14","Keys of every allowed type and JWK form: OKP X25519 / Ed25519 / Ed448 without y, RSA, secp256k1, Bls12381G2 base58, a JWK with kid, alg, use, key_ops, ext, x5c.")
more("C15","Library-made JWS verified under the JWK that pubkey.GetPublicKeyJWK derives from the key, for ordinary keys and keys with one and two leading zero bytes in X or Y.")
more("C16","The round trip includes public keys whose X lies between the group order and the field prime, and keys with two leading zero bytes.")
more("C18","Documents whose JWK carries non-string and further members (kid, alg, use, key_ops, ext, x5c, nested, numeric), an OKP X25519 JWK and an RSA JWK.")
more("C19","Every patch under test is also followed by three typed patches in one list; every fourth wrapped create request carries a typed patch behind its JSON patch.")
# round 8
more("C01","A create, update, recover and deactivate whose anchored request is padded with white space beyond MaxOperationSize (C01, C12).")
more("C02","Signed DID suffix absent, empty, a tail and an extension of the operation's suffix; the signed data of a genuine recover replayed as a deactivate and of a genuine deactivate replayed as a recover.")
more("C03","Every other spelling of the right delta hash (each other last character, padding, one character more or less): accepted means the recorded string is the hash of the delta.")
more("C04","Every deactivate of a mixed-algorithm chain also with the key's reveal value under the other algorithm inside its signed data.")
more("C05","For every 8th boundary double (thorough: all): the exact midpoint to the next double and the midpoint +- 10^-190 as 200-digit tokens.")
more("C07","Update and recover signed by a nonce-carrying key that commit to that key (sha2-256, sha2-512), to the key without its nonce and to the key with another nonce.")
more("C08","Under sha2-512 the add-keys / add-services lifecycles start from the opaque document (a service with optional members) and re-add its ids with fewer members.")
more("C10","Every parallel worker has its own copies of the documents and of every patch value, so that code which writes into what it was handed is judged instead of killing the process.")
more("C11","Pointers with '..', '.' and empty reference tokens over a document that has members of exactly these names.")
more("C13","Both material members present with the second one of another JSON type (empty string, number, object, null, list, false).")
more("C14","Further members with empty values: [], {}, \"\", null, 0, false, [[]], an object holding an empty list.")
more("C16","The points with X = 0..7 where the curve has them (X of zero bytes only on the three NIST curves).")
more("C17","Documents whose key ids tie or swap under numeric, natural or case-insensitive orders (key1 / key01 / key001, key / key0 / key00, Key / key / KEY, 10 / 9 / 09 / -).")
more("C18","All sequences of length <= 3 over (time, number) in {0, 1, 2^63-1, 2^63, 2^63+1, 2^64-1}^2.")
more("C19","List-valued patch members with entries of other JSON types before, between and behind the well-formed ones (six actions, also inside valid creates and long-form DIDs); followers that re-add and remove the fixture ids.")
more("C20","A fourth registry scenario: lookups of the empty version string and of an unknown version before and between registrations.")
# round 9
more("C01","A third search of the first alphabet through a parser whose request-time policies (anchor origin validator, anchor time validator) refuse everything: the fold of anchored operations does not depend on them.")
more("C02","Operations 'signed' for the JWK (X, 0) - a point on no curve - with signatures made from public values (r = x(kG), s = e/k, k = 1..12), for secp256k1 and P-256.")
more("C03","Every 4th request also under namespaces that end in the delimiter, the empty namespace and ':'; docutil.CalculateID compared as well.")
more("C04","Half of the mixed-algorithm chains are read by a parser whose algorithm list is [19,18].")
more("C05","U+FFFC and U+FFFD among the code-point classes (raw and escaped, strings and names).")
more("C06","The shared value set has U+FFFD, U+FFFE and U+FEFF raw and escaped, in values and member names.")
more("C07","Deactivates whose signed data carries a reveal value of its own: the right one next to a wrong request value, another key's, the sha2-512 one, none.")
more("C08","Under sha2-512 the replace lifecycle starts from the opaque document and its update is the replace patch.")
more("C10","JSON patches with explicit null, false, 0, empty string and empty list values (add, test, replace) are part of the alphabet (C10, C12, C14).")
more("C11","Pointers in URI fragment form (#/publicKey/0, #/service/0/serviceEndpoint, #/publicKey, #, #/zz).")
more("C12","Lists with runs of adjacent patches of one action (pairs and triples of four JSON patches, alone, behind a typed patch, before a failing one; pairs of typed patches); the exploration stops at the first call that modified a shared input; C10's fold-law section is not run.")
more("C13","Duplicates of the shortest URI references: the empty one, #, ?, /, ., 0, a.")
more("C14","NewJSONPatch inputs whose pointers have escapes at every place of a token incl. the end, empty tokens, the root, non-ASCII and blank tokens.")
more("C15","Every JWS also in detached form (right payload, another payload) and nine malformed splits handed over with a detached payload; forged signatures for the keyless point (X, 0) on all four curves.")
more("C16","The six secp256k1 points with Y = 1 or P-1.")
more("C17","VDR.Read must answer as the document handler does for every tampered DID; ten strings with a fragment, query, path or blank appended.")
more("C18","A complete custom key-context map, and one that swaps the two Ed25519 suite contexts and shares one context among the other types.")
more("C19","A node whose algorithm list also names sha1, sha3-*, keccak-256 and blake2b-256; requests in which every hash in turn (outer members and signed payload, re-signed) is a well-formed multihash of such a code.")
more("C20","The instrumenter records reads and writes of package-level variables of other packages written as pkg.V (this module's or a dependency's).")
# round 10
more("C02","The 'signature' Qx||Qx (verifies wherever the digest is taken to be empty) under every allowed algorithm name, 'none', HS256 and no name.")
more("C07","Deltas with an invalid patch before valid ones and between valid ones.")
more("C08","Lifecycles whose signers announce an algorithm that is not the curve's own (P-384 as ES256, P-521 as ES256K, P-256 as ES512).")
more("C09","The second previous-state variant of every case goes through an applier whose parser carries a request-time policy refusing every window.")
more("C10","JSON patches that append to alsoKnownAs and set it to a list with repeated URIs are part of the alphabet.")
more("C11","Operations without an op member (with from, path and value), alone, behind and before every copy / move.")
more("C13","Services whose endpoint, type or id is null; endpoints of other JSON types (observed where the statement is silent).")
more("C14","Further members with nulls below their top level.")
more("C15","A zero byte inserted into the signature at the middle, next to it, after the first byte and before both halves; the digest-free signature Qx||Qx under nine algorithm names.")
more("C16","A nonce-carrying and a plain JWK value of every key type must come back unchanged from VerifySignature, VerifyJWS, GetED25519PublicKey, Validate and the commitment functions; coordinates written as field element plus field prime on all four curves.")
more("C17","Documents with also-known-as URIs that a URL library would print differently.")
more("C18","Ed25519 keys in JWK form whose base58 text begins with z, zz and 1, as 2018 and 2020 keys.")
more("C19","Signatures shaped like a DER SEQUENCE of two INTEGERs, whole and cut at every structural boundary.")
# round 11
more("C02","Every genuine operation under 12 pairs of algorithm lists (the library's v1.0 parameters, none listed, only-A, all-but-A): an algorithm that is not listed is not allowed, whatever curves are.")
more("C03","Origins, types and member names with a backslash as the only character to escape, beside the control character its two-character escape denotes.")
more("C04","Nonce sizes 1, 8, 12, 16, 24, 32, 33, 48, 64 x every first byte.")
more("C06","Go strings as models: a string is a JSON string value and never validates as the document whose text it spells.")
more("C07","Every extra protected header also with the values null, empty string, 0, false, empty list, empty object (C02 likewise, re-signed).")
more("C08","A Bls12381G2Key2020 key (EC JWK without y) in the opaque documents.")
more("C09","MaxOperationTimeDelta of 9223372036, 9223372037 and 10^10 seconds (thorough: 2^40).")
more("C10","A service added under a key's id and a key under a service's id; a key whose JWK has further members (C12: the caller's patch must keep them).")
more("C11","Paths /publicKey~10, /service~10~1serviceEndpoint and /publicKey~1 in the from/path alphabet.")
more("C13","Every ordered purpose list of up to 3 entries over the allowed purposes plus a bad and a repeated one.")
more("C14","Hostless endpoint URIs (dweb:, file:///, unix:, urn:, did:, mailto:) singly and in lists.")
more("C15","Signature halves respelled within the fixed width (s+N, s+2N, r+N, both, N-s) for a key made to measure on all four curves; keys whose x and y both begin with a zero byte.")
more("C16","Per curve a searched key whose x and y both begin with a zero byte (cmd/lzsearch).")
more("C20","The stateless scenario applies create + deactivate and hands the applier's model to the shared generic transformer as it is.")
# round 12
more("C03","Canonical deltas longer than 1100, 2300 and 5000 bytes (beyond 16 digest blocks of either algorithm).")
more("C04","MaxOperationHashLength set to exactly the multihash length (46 / 88), one more and 100, for both algorithms x create, update, recover, deactivate.")
more("C08","Key ids and service ids of exactly 50 characters in the opaque document and in the add / remove patches.")
more("C09","A window start of -9223372036854775000 without an explicit end, at anchoring times 0, 807, 808, 1000 and 2^40.")
more("C10","Corner symbols: copy and move of an array element and of an object member onto itself, copy of /a/1 to /a/0.")
more("C13","Every invalid patch of the case list at six positions of a delta (before / between / behind valid patches and a valid replace patch) through Parser.ValidateDelta.")
more("C15","Every JWS also with the signer's own public key named in the protected header (publicKeyJwk, jwk), judged under every other key of the type.")
more("C16","Every EC JWK that the predicate refuses is also read with a d member beside the same x and y.")

# round 13
more("C18","Created / updated times at the width boundaries of the seconds count: 2^31, 2^32, 9223372036 and 9223372037 (the last second whose nanosecond count fits int64 and the first that does not), 253402300799.")
# round 14
more("C14","Documents with key and service ids of 49 and 50 characters (the greatest allowed length).")
more("C16","The unchanged-value cases also with n and e members beside every EC / OKP key (members of another key type are members like any other).")
more("C04","Updates and deactivates signed with keys of every type that also carry n and / or e members (members of another key type), with and without a nonce: the reported reveal value maps to the commitment over the key as given.")
