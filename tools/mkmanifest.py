#!/usr/bin/env python3
"""Regenerates /verif/MANIFEST.json from the table below (checks that exist) and validates it."""
import json, os, sys
ROOT=os.path.dirname(os.path.dirname(os.path.abspath(__file__)))
props=[json.loads(l) for l in open(os.path.join(ROOT,'properties.jsonl'))]
# id -> (level, technique, text, note, design_ref)
CHECKS={}
def add(i,level,tech,text,note): CHECKS[i]=(level,tech,text,note)
def more(i,text,note=""):
    l,t,x,n=CHECKS[i]; CHECKS[i]=(l,t,x+" "+text,(n+" "+note).strip())
exec(open(os.path.join(ROOT,'tools','checks_table.py')).read())
baseline=json.load(open('/root/.vp/BASELINE.json'))['cmd']
m={
 "version":1,
 "setup_cmd":"./setup.sh",
 "hooks":{"guard":"verif","enable":"no hook is committed in /repo: checks that need seams (C17 map order, C20 scheduler/race detector) generate an instrumented copy of the current working tree with cmd/vinst and build it with `go build -tags verif -overlay .work/<id>/overlay.json`","baseline_off_cmd":baseline,"source_commits":[],"add_only":True},
 "engines":[
  {"name":"vcheck","path":"cmd/vcheck","serves_properties":sorted(CHECKS),"kind_free_text":"bounded exhaustive enumeration / explicit-state BFS over the real library functions with independent reference models (Go)"},
  {"name":"explore","path":"engine/explore","serves_properties":["C17","C20"],"kind_free_text":"stateless deviation-bounded DFS over choice points (map iteration orders, thread schedules) with prefix replay"},
  {"name":"sched","path":"engine/sched","serves_properties":["C20"],"kind_free_text":"cooperative scheduler over sync shims with lock/once/waitgroup model, deadlock detection and vector-clock happens-before race detector"},
  {"name":"vinst","path":"vinst","serves_properties":["C17","C20"],"kind_free_text":"go/packages + go/ast instrumenter producing a go build overlay (map-order seam, sync seam, access events); nothing is written to /repo"},
 ],
 "checks":[], "not_applicable":[],
 "notes":"All checks: ./run.sh <ID> <tier> rebuilds from /repo's working tree. Exit 0 held, 1 violation, 2 engine/build error."
}
for p in props:
    i=p['id']
    if i in CHECKS:
        level,tech,text,note=CHECKS[i]
        m["checks"].append({"property_id":i,"quick_cmd":f"./run.sh {i} quick","thorough_cmd":f"./run.sh {i} thorough","evidence_file":f"/verif/evidence/{i}.json",
          "replay_cmd_template":"./run.sh replay {path}","engine":"vcheck","level_claimed":{"category":level,"text":text,"design_ref":f"DESIGN.md section 4, {i}"},"level_note":note,"technique":tech})
    else:
        m["not_applicable"].append({"property_id":i,"reason":"check not built yet (planned in DESIGN.md section 4; bounded exhaustive exploration applies)"})
json.dump(m,open(os.path.join(ROOT,'MANIFEST.json'),'w'),indent=1)
try:
    import jsonschema
    jsonschema.validate(m,json.load(open('/root/.vp/MANIFEST.schema.json')))
    print("MANIFEST.json valid;",len(m["checks"]),"checks,",len(m["not_applicable"]),"not yet claimed")
except ImportError:
    print("jsonschema not available; written unvalidated")
