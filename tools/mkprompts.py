#!/usr/bin/env python3
"""mkprompts.py <round> : writes /tmp/prompt<round>-CXX.txt, the task text for the sub-agents of one round of seeded changes.
A sub-agent gets only this text: the property (from properties.jsonl), a scratch worktree /tmp/w<round>-CXX, and the one-line
ideas of the earlier rounds (tools/seed_rounds_ideas.json) so that it looks elsewhere. Nothing else from /verif is given."""
import json,sys
rnd=int(sys.argv[1])
ideas=json.load(open('/verif/tools/seed_rounds_ideas.json'))[:rnd-1]
for l in open('/verif/properties.jsonl'):
    p=json.loads(l); i=p['id']; wt=f'/tmp/w{rnd}-{i}'
    files=', '.join(p['anchors']['files'][:6])
    extra=""
    if i=="C20":
        extra=" For this property the demonstration may be a test that runs goroutines and is run with `go test -race` (CGO_ENABLED=1) or that deterministically shows a wrong result; say exactly how to run it."
    if i=="C19":
        extra=" For this property the demonstration is a test that shows a panic (or crash) of a public entry point on some specific untrusted input."
    tried='; '.join(f'({n+1}) "{r[i]}"' for n,r in enumerate(ideas))
    prompt=f"""You are working in a scratch git worktree of the Go library trustbloc/sidetree-go at {wt} (a Sidetree DID protocol core library: operation parser, operation applier, document composer, JCS canonicalizer, JWS/JWK handling, long-form DID VDR). Work ONLY inside {wt}. Do not read or touch /repo or /verif.

Environment: the sandbox is offline. In every shell call first run: export GOFLAGS=-mod=mod GOPROXY=off GOSUMDB=off GOTOOLCHAIN=local
The repository's test suite is: cd {wt} && go test -vet=off -count=1 ./...   (package pkg/util/json fails to BUILD its tests - that is pre-existing, ignore it.)

A property that must hold for this library (read the code it concerns, mainly: {files}):

Title: {p['title']}

Statement: {p['statement']}

Quantified over: {p['quantifier']['text']}

YOUR TASK: make a small, realistic change (under ~30 changed lines) to the library's NON-TEST source code in the worktree that BREAKS this property, such that:
 (a) the code still compiles (go build ./...);
 (b) the existing test suite still passes exactly as before your change (run it before and after and compare the package results);
 (c) the breakage needs something SPECIFIC to manifest - a particular multi-step sequence or history, an unusual but valid input, a boundary value, a particular interleaving, or two cooperating code sites that each look fine alone - NOT something that ordinary single-step use would expose at once. Think of the kind of bug a plausible refactor, optimisation or feature addition would introduce.{extra}
IMPORTANT: other engineers have already tried these {len(ideas)} ideas, so do NOT use them or close variants of them; find a different mechanism in a different place of the code if you can: {tried}. Also avoid the general families "a cache / pool / remembered result that is reused too broadly", "a slice or buffer shared between calls", "an operation that is outside its anchoring window combined with a second failure", "a format string built from data", "an alternative JSON writer or decoder whose escaping / name matching differs from the one used elsewhere", "a value that is computed with the wrong one of the two configured hash algorithms" and "letter case or white space of a value handled differently at two places" - they have been done several times across this code base. Prefer a change whose effect depends on configuration, on the order or history of calls, on an interaction between two packages, or on an unusual-but-valid value - whatever a reviewer would be least likely to notice. Also: do NOT use `git stash` (the stash is shared between worktrees and other people work in sibling worktrees); to test the demo without your change, save your change with `git diff -- . ':(exclude)*zz_seeded_demo_test.go' > {wt}-change.patch`, revert it with `git apply -R {wt}-change.patch`, and re-apply it with `git apply {wt}-change.patch`.
Then write a demonstration: a NEW Go test file named zz_seeded_demo_test.go (put it in the most suitable package directory of the worktree; you may use the library's own helpers such as the request builders in pkg/versions/1_0/client, pkg/util/ecsigner, pkg/util/edsigner, pkg/util/pubkey, pkg/commitment, pkg/patch) that FAILS with your change and PASSES without it. Verify both directions yourself. Do not modify or delete existing tests.

Report back, concisely: (1) the output of `git -C {wt} diff` for the library change (not including the demo file), (2) the path of the demo test and how to run it, (3) what the breakage needs in order to manifest, (4) the commands you ran for (a), (b) and the demo in both directions, with their results. Leave the worktree with your library change applied and the demo file present (uncommitted)."""
    open(f'/tmp/prompt{rnd}-{i}.txt','w').write(prompt)
print('written', rnd)
