#!/bin/bash
# allmutants.sh [tier] : runs every mutant of /verif/mutants against the check of its property (REVERT-<commit>: the property of the
# fixed: line in known_findings.txt; a second column of properties may be given in mutants/EXTRA.txt). CONTROL mutants must stay silent.
T=${1:-quick}
cd /verif
for p in mutants/*.patch; do
  n=$(basename $p .patch)
  case $n in
    REVERT-*) c=$(echo $n | sed 's/REVERT-\([0-9a-f]*\).*/\1/'); ids=$(grep "^fixed: property=C[0-9]* $c" known_findings.txt | sed 's/fixed: property=\(C[0-9]*\).*/\1/' | sort -u | tr '\n' ' ');;
    *) ids=$(echo $n | cut -c1-3);;
  esac
  res=""
  for id in $ids; do
    out=$(SKIP_TESTS=1 tools/mutant.sh $p $id $T 2>&1)
    if echo "$out" | grep -aq "^VIOLATION property=$id"; then res="$res $id:DETECTED"; else if echo "$out" | grep -aq "ENGINE\|does not apply\|error:"; then res="$res $id:ERROR"; else res="$res $id:silent"; fi; fi
  done
  echo "$n$res"
done
