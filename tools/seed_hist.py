#!/usr/bin/env python3
"""seed_hist.py <name> <exit-now> <history text> : record that a seeded change missed at first is detected after strengthening; regenerates INDEX.md"""
import json,sys,subprocess
name,rc,hist=sys.argv[1],int(sys.argv[2]),' '.join(sys.argv[3:])
p=f'/verif/seeded/{name}/meta.json'
m=json.load(open(p))
m['history']=hist
m['check_result']['exit']=rc; m['check_result']['detected']=(rc==1)
json.dump(m,open(p,'w'),indent=1)
subprocess.run(['python3','/verif/tools/seed_meta.py'])
