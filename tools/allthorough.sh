#!/bin/bash
# allthorough.sh : runs every thorough tier once, keeps the quick evidence files (thorough evidence goes to evidence-thorough/)
cd "$(dirname "$0")/.."; mkdir -p evidence-thorough
for i in 01 02 03 04 05 06 07 08 09 10 11 12 13 14 15 16 17 18 19 20; do
  cp evidence/C$i.json /tmp/evq-C$i.json
  /usr/bin/time -f "%es" ./run.sh C$i thorough 2>&1 | grep -E "^C[0-9]+ thorough|VIOL|ENGINE|BUILD|^[0-9.]+s$" | tr '\n' ' '; echo
  cp evidence/C$i.json evidence-thorough/C$i.json; cp /tmp/evq-C$i.json evidence/C$i.json
done
