#!/bin/bash
# seed_import.sh <ID> <agent-worktree> <name> : import a seeded property-breaking change produced by a sub-agent.
# Verifies in a fresh scratch worktree: patch applies, builds, baseline tests pass, demo fails with / passes without the change.
# Then runs the property's quick check (and optionally others) against it on /repo and restores /repo.
set -u
ID=$1; WT=$2; NAME=${3:-$ID-1}
export GOFLAGS=-mod=mod GOPROXY=off GOSUMDB=off GOTOOLCHAIN=local
D=/verif/seeded/$NAME
mkdir -p $D
DEMO=$(cd $WT && git status --porcelain | grep 'zz_seeded_demo' | awk '{print $2}' | head -1)
[ -z "$DEMO" ] && DEMO=$(cd $WT && git ls-files --others --exclude-standard | grep -i 'seeded\|demo' | head -1)
(cd $WT && git diff -- . ":(exclude)*zz_seeded_demo_test.go") > $D/patch.diff
[ -n "$DEMO" ] && cp $WT/$DEMO $D/$(basename $DEMO)
echo "patch: $(wc -l < $D/patch.diff) lines; demo: $DEMO"
S=/tmp/seedcheck-$$
git -C /repo worktree add -q --detach $S HEAD
RES="{}"
(
 cd $S
 PKG=./$(dirname "$DEMO")
 cp $D/$(basename $DEMO) $S/$DEMO
 go test -vet=off -count=1 -run 'Seeded|Demo|ZZ|Zz' $PKG > $D/demo_without.log 2>&1; W=$?
 git apply $D/patch.diff || { echo "PATCH DOES NOT APPLY"; exit 3; }
 go build ./... > $D/build.log 2>&1; B=$?
 go test -vet=off -count=1 -run 'Seeded|Demo|ZZ|Zz' $PKG > $D/demo_with.log 2>&1; F=$?
 rm -f $S/$DEMO
 /verif/tools/repotests.sh $S > $D/baseline.log 2>&1; T=$?
 echo "build=$B demo_without_change=$W(expect 0) demo_with_change=$F(expect !=0) baseline_tests=$T(expect 0)"
 echo "$B $W $F $T" > $D/verify.txt
)
git -C /repo worktree remove --force $S
# run the check against the change
cd /repo && git apply $D/patch.diff && cd /verif
cp evidence/$ID.json /tmp/ev-keep-$$.json 2>/dev/null
timeout 1500 ./run.sh $ID quick > $D/check.log 2>&1; RC=$?
git -C /repo checkout -- . ; git -C /repo clean -fdq
[ -f /tmp/ev-keep-$$.json ] && mv /tmp/ev-keep-$$.json evidence/$ID.json
grep -E "^  " $D/check.log | head -3 | cut -c1-250
echo "CHECK $ID exit=$RC"
echo $RC > $D/check_exit.txt
