#!/usr/bin/env python3
"""mkmut.py <name> <repo-relative-file> <old> <new> [<file> <old> <new> ...] : create /verif/mutants/<name>.patch by string replacement"""
import sys,subprocess
name=sys.argv[1]; args=sys.argv[2:]
assert subprocess.run(['git','-C','/repo','status','--porcelain'],capture_output=True,text=True).stdout=='', 'repo dirty'
for i in range(0,len(args),3):
    f,old,new=args[i:i+3]
    p='/repo/'+f; s=open(p).read()
    assert s.count(old)>=1, f'old text not found in {f}: {old!r}'
    open(p,'w').write(s.replace(old,new,1))
d=subprocess.run(['git','-C','/repo','diff'],capture_output=True,text=True).stdout
open(f'/verif/mutants/{name}.patch','w').write(d)
subprocess.run(['git','-C','/repo','checkout','--','.'])
print('wrote',name,len(d.splitlines()),'lines')
