#!/usr/bin/env python3
"""seed_meta.py <name> <property> <needs...> : writes seeded/<name>/meta.json from the verification logs and regenerates seeded/INDEX.md"""
import json,os,sys,glob
root='/verif/seeded'
if len(sys.argv)>=4:
    name,prop,needs=sys.argv[1],sys.argv[2],' '.join(sys.argv[3:])
    d=os.path.join(root,name)
    b,w,f,t=open(os.path.join(d,'verify.txt')).read().split()
    rc=open(os.path.join(d,'check_exit.txt')).read().strip()
    meta={"property":prop,"origin":"independent sub-agent given only the property text and a scratch worktree",
      "needs_to_manifest":needs,
      "verified":{"builds":b=="0","demo_passes_without_change":w=="0","demo_fails_with_change":f!="0","baseline_734_tests_pass_with_change":t=="0",
                  "how":"tools/seed_import.sh: fresh scratch worktree of /repo HEAD; go build ./...; go test -run <demo>; tools/repotests.sh"},
      "check_result":{"command":f"./run.sh {prop} quick (patch applied to /repo, then reverted)","exit":int(rc),"detected":rc=="1"}}
    old=os.path.join(d,'meta.json')
    if os.path.exists(old):
        o=json.load(open(old))
        for k in ('history',):
            if k in o: meta[k]=o[k]
    json.dump(meta,open(old,'w'),indent=1)
rows=[]
for m in sorted(glob.glob(os.path.join(root,'*','meta.json'))):
    j=json.load(open(m)); n=os.path.basename(os.path.dirname(m))
    v=j['verified']; ok=all([v['builds'],v['demo_passes_without_change'],v['demo_fails_with_change'],v['baseline_734_tests_pass_with_change']])
    rows.append(f"| {n} | {j['property']} | {'yes' if ok else 'NO'} | {'detected' if j['check_result']['detected'] else 'MISSED (exit %s)'%j['check_result']['exit']} | {j.get('history','')} | {j['needs_to_manifest']} |")
open(os.path.join(root,'INDEX.md'),'w').write("# Seeded property-breaking changes (written by independent sub-agents)\n\nEach directory holds patch.diff, the demonstration test, the verification logs and meta.json.\n\n| name | property | verified (builds, tests pass, demo fails with / passes without) | quick check | history | needs to manifest |\n|---|---|---|---|---|---|\n"+"\n".join(rows)+"\n")
print("\n".join(rows[-3:]))
