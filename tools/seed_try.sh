#!/bin/bash
# seed_try.sh <seed-name> <ID> [tier] : apply a seeded change to /repo, run a check, restore /repo and the evidence file.
N=$1; ID=$2; T=${3:-quick}
cp /verif/evidence/$ID.json /tmp/ev-try-$ID.json 2>/dev/null
git -C /repo apply /verif/seeded/$N/patch.diff || exit 3
cd /verif && ./run.sh $ID $T 2>&1 | grep -aE "^  |^C[0-9]+ |VIOL|ENGINE|KNOWN" | head -${LINES_MAX:-6} | cut -c1-260
git -C /repo checkout -- . ; git -C /repo clean -fdq
[ -f /tmp/ev-try-$ID.json ] && mv /tmp/ev-try-$ID.json /verif/evidence/$ID.json
