#!/bin/bash
# Runs the repository's baseline test suite on a tree (default /repo) and compares with
# /root/.vp/BASELINE.json stable_pass. Exit 0 iff every stable_pass test passed.
# usage: repotests.sh [dir] [extra go test flags...]
DIR=${1:-/repo}; shift
export GOFLAGS=-mod=mod GOPROXY=off GOSUMDB=off GOTOOLCHAIN=local
OUT=$(mktemp)
(cd "$DIR" && go test -json -vet=off -count=1 -timeout 25m "$@" ./... > "$OUT" 2>/dev/null)
python3 - "$OUT" <<'PY'
import json,sys
base=json.load(open('/root/.vp/BASELINE.json'))
want=set(base['stable_pass'])
res={}
for l in open(sys.argv[1]):
    try: e=json.loads(l)
    except Exception: continue
    if e.get('Test') and e.get('Action') in('pass','fail','skip'):
        res[e['Package']+'::'+e['Test']]=e['Action']
bad=[t for t in want if res.get(t)!='pass']
print(f"baseline tests: {len(want)} wanted, {len(want)-len(bad)} passed, {len(bad)} not passed")
for t in sorted(bad)[:40]: print("  NOT PASSED:",t,res.get(t))
sys.exit(1 if bad else 0)
PY
RC=$?
rm -f "$OUT"
exit $RC
