#!/bin/bash
# mutant.sh <patch-file> <ID> [tier]  : apply a property-breaking patch to /repo, run the repo's own
# baseline tests and the check, then restore /repo. Prints TESTS=pass|fail CHECK=exit-code.
P=$(realpath "$1"); ID=$2; TIER=${3:-quick}
cd /repo || exit 2
if [ -n "$(git status --porcelain)" ]; then echo "repo dirty, refusing"; exit 2; fi
git apply "$P" || { echo "patch does not apply"; exit 2; }
trap 'git -C /repo checkout -- . ; git -C /repo clean -fdq' EXIT
if [ -z "${SKIP_TESTS:-}" ]; then
 if /verif/tools/repotests.sh /repo >/tmp/mut-tests.$$ 2>&1; then T=pass; else T=fail; fi
 tail -3 /tmp/mut-tests.$$; rm -f /tmp/mut-tests.$$
else T=skipped; fi
cd /verif
# evidence of a mutant run must not overwrite the real evidence
cp evidence/$ID.json /tmp/ev-$ID.$$ 2>/dev/null
./run.sh $ID $TIER > /tmp/mut-out.$$ 2>&1; RC=$?
grep -aE "VIOLATION|KNOWN|ENGINE|BUILD|^C[0-9]+ " /tmp/mut-out.$$ | head -8
[ -f /tmp/ev-$ID.$$ ] && mv /tmp/ev-$ID.$$ evidence/$ID.json
rm -f /tmp/mut-out.$$
echo "RESULT patch=$(basename $P) TESTS=$T CHECK=$RC"
