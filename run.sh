#!/bin/bash
# ./run.sh <ID> <quick|thorough>      rebuild from /repo's working tree, run the check, write evidence
# ./run.sh replay <replay-file>       re-run exactly the failing case recorded in a replay file
# exit: 0 held, 1 violation (VIOLATION line printed), 2 engine/build error (never a verdict)
set -u
cd "$(dirname "$0")"
export VERIF_ROOT="$PWD"
export GOFLAGS=-mod=mod GOPROXY=off GOSUMDB=off GOTOOLCHAIN=local CGO_ENABLED=0
ID=${1:?id}; TIER=${2:-${VERIF_TIER:-quick}}
if [ "$ID" = replay ]; then
  F=$2
  ID=$(python3 -c "import json,sys;d=json.load(open(sys.argv[1]));print(d['property'])" "$F")
  TIER=$(python3 -c "import json,sys;d=json.load(open(sys.argv[1]));print(d['tier'])" "$F")
  export VERIF_ONLY=$(python3 -c "import json,sys;d=json.load(open(sys.argv[1]));print(d['input']['case'])" "$F")
fi
export VERIF_TIER=$TIER
W=.work/$ID-$TIER${VERIF_ONLY:+-replay}
mkdir -p "$W"
EXTRA=()
if [ -n "${VERIF_EXTRA_OVERLAY:-}" ]; then EXTRA=(-overlay "$VERIF_EXTRA_OVERLAY"); fi
case "$ID" in
 C17) SEAMS=M ;;
 C20) SEAMS=MSA ;;
 *) SEAMS= ;;
esac
if [ -n "$SEAMS" ]; then
  # instrument a copy of the current working tree and build against it (nothing is written to /repo)
  if [ ! -x .work/bin/vinst ] || [ vinst/main.go -nt .work/bin/vinst ]; then
    mkdir -p .work/bin; (cd vinst && go build -o ../.work/bin/vinst .) 2> "$W/build.log" || { echo "BUILD-ERROR (vinst)" >&2; cat "$W/build.log" >&2; exit 2; }
  fi
  if ! .work/bin/vinst -repo /repo -rt "$PWD/rt" -out "$PWD/$W/inst" -seams "$SEAMS" > "$W/vinst.log" 2>&1; then
    echo "BUILD-ERROR (instrumenter; not a verdict): see $W/vinst.log" >&2; tail -20 "$W/vinst.log" >&2; exit 2
  fi
  export VERIF_INST_STATS="$PWD/$W/inst/stats.json"
  EXTRA=(-tags verif -overlay "$PWD/$W/inst/overlay.json")
fi
if [ "$ID" = C20 ] && [ -z "${VERIF_ONLY:-}" ] && [ -z "${VERIF_NO_RACE:-}" ]; then
  # supplementary free-running pass: uninstrumented build under the Go race detector
  if CGO_ENABLED=1 go build -race -o "$W/vcheck-race" ./cmd/vcheck 2> "$W/build-race.log"; then
    export VERIF_RACE_BIN="$PWD/$W/vcheck-race"
  else
    echo "note: -race build unavailable (supplementary pass skipped): $(tail -1 "$W/build-race.log")" >&2
  fi
fi
if ! go build "${EXTRA[@]}" -o "$W/vcheck" ./cmd/vcheck 2> "$W/build.log"; then
  echo "BUILD-ERROR (not a verdict): see $W/build.log" >&2; tail -20 "$W/build.log" >&2; exit 2
fi
exec "$W/vcheck" run "$ID"
