// Package c16: public keys survive the JWK encoding unchanged and at fixed width.
package c16

import (
	"bytes"
	"crypto/ecdsa"
	"crypto/ed25519"
	"encoding/base64"
	"encoding/json"
	"fmt"
	"math/big"
	"strings"

	"verif/engine/core"
	"verif/gen/keys"
	"verif/gen/ops"
	rjws "verif/ref/jws"

	"github.com/trustbloc/sidetree-go/pkg/commitment"
	"github.com/trustbloc/sidetree-go/pkg/jws"
	"github.com/trustbloc/sidetree-go/pkg/jwsutil"
	"github.com/trustbloc/sidetree-go/pkg/util/pubkey"
)

var enc = base64.RawURLEncoding

func Run(r *core.Run) {
	n := core.Pick(r, 4096, 65536)
	r.Rule = fmt.Sprintf("all public keys d*G, d=1..%d on P-256, P-384, P-521, secp256k1 and Ed25519 seeds 0..%d: JWK conversion, fixed coordinate width, read-back equality, re-marshal identity, commitment/reveal equality; "+
		"rejections on 8 keys per type: every single-bit flip of x and y, width changes at either end, swapped and zero coordinates, coordinates + p, judged by an independent on-curve + width predicate; "+
		"distinct = distinct keys / distinct mutated JWKs; non-trivial = all (keys with a leading-zero coordinate are counted separately)", n, core.Pick(r, 4095, 16383))
	r.Assumptions = []string{"independent predicate ref/jws.KeyOK (crypto/elliptic IsOnCurve, dcrd ParsePubKey, widths 32/48/66/32)", "keys are the small-scalar keys (all short-coordinate cases among them are included)"}
	types := []string{"P-256", "secp256k1", "P-384", "P-521", "Ed25519"}
	for _, t := range types {
		t := t
		count := n
		if t == "Ed25519" {
			count = core.Pick(r, 4096, 16384)
		}
		w := keys.Width(t)
		// the derived keys, and for the curves: both keys with a coordinate that begins with two zero bytes and four public keys
		// whose X lies between the group order and the field prime (valid points; only public-key operations are applied to them)
		special := []*keys.Key{}
		if t != "Ed25519" {
			special = append(special, keys.WithTwoLeadingZeros(t, 0), keys.WithTwoLeadingZeros(t, 1), keys.WithBothLeadingZeros(t))
			for j := 0; j < 4; j++ {
				special = append(special, keys.PublicWithXAtLeastOrder(t, j))
			}
			// ... and the points with X = 0, 1, ... 7 where the curve has them (X of zero bytes only, or all zero bytes but the last)
			for x := int64(0); x < 8; x++ {
				if k := keys.PublicWithX(t, x); k != nil {
					special = append(special, k)
					if x == 0 {
						r.Class("x-zero-" + t)
					}
				}
			}
			if t == "secp256k1" {
				// ... and the six points with Y = 1 or P-1 (one coordinate of 31 zero bytes; x^3 + 7 = 1 only after reduction)
				special = append(special, keys.Secp256k1WithYSquaredOne()...)
			}
			r.Class("special-keys-" + t)
		}
		core.Parallel(count+len(special), func(i int) {
			var k *keys.Key
			id := fmt.Sprintf("roundtrip/%s/%d", t, i)
			if i < count {
				k = keys.New(t, i)
			} else {
				k = special[i-count]
				id = fmt.Sprintf("roundtrip/%s/special-%d", t, k.Index)
			}
			x, y := k.XY()
			if x[0] == 0 || (y != nil && y[0] == 0) {
				r.Class("leading-zero-" + t)
			}
			if t == "Ed25519" && x[31] == 0 {
				r.Class("trailing-zero-Ed25519")
			}
			r.Case(id, func() *core.Fail {
				det := map[string]any{"type": t, "index": i, "expected_jwk": k.JWKMap()}
				got, err := pubkey.GetPublicKeyJWK(k.Public())
				if err != nil {
					return &core.Fail{Key: id, What: "GetPublicKeyJWK failed: " + err.Error(), Detail: det}
				}
				want := k.JWK()
				if got.Kty != want.Kty || got.Crv != want.Crv {
					return &core.Fail{Key: id, What: fmt.Sprintf("JWK names kty=%q crv=%q, expected %q %q", got.Kty, got.Crv, want.Kty, want.Crv), Detail: det}
				}
				gx, ex := enc.DecodeString(got.X)
				gy, ey := enc.DecodeString(got.Y)
				if ex != nil || ey != nil || len(gx) != w || (t != "Ed25519" && len(gy) != w) || (t == "Ed25519" && got.Y != "") {
					return &core.Fail{Key: id, What: fmt.Sprintf("coordinates are encoded with %d and %d bytes, the curve's width is %d", len(gx), len(gy), w), Detail: merge(det, map[string]any{"observed_jwk": got})}
				}
				if got.X != want.X || got.Y != want.Y {
					return &core.Fail{Key: id, What: "JWK coordinates differ from the key's", Detail: merge(det, map[string]any{"observed_jwk": got})}
				}
				b, _ := json.Marshal(got)
				var back jwsutil.JWK
				if err := back.UnmarshalJSON(b); err != nil {
					return &core.Fail{Key: id, What: "JWK produced by the library is refused when read back: " + err.Error(), Detail: det}
				}
				if t == "Ed25519" {
					pk, err := jwsutil.GetED25519PublicKey(got)
					if err != nil || !bytes.Equal(pk, x) {
						return &core.Fail{Key: id, What: fmt.Sprintf("Ed25519 key read back as %x (%v), expected %x", []byte(pk), err, x), Detail: det}
					}
					if ek, ok := back.Key.(ed25519.PublicKey); !ok || !bytes.Equal(ek, x) {
						return &core.Fail{Key: id, What: "Ed25519 key read back through JWK.UnmarshalJSON differs", Detail: det}
					}
				} else {
					ec, ok := back.Key.(*ecdsa.PublicKey)
					if !ok || ec.X.Cmp(k.EC.X) != 0 || ec.Y.Cmp(k.EC.Y) != 0 {
						return &core.Fail{Key: id, What: "EC key read back differs from the original point", Detail: det}
					}
				}
				again, err := back.MarshalJSON()
				if err != nil {
					return &core.Fail{Key: id, What: "re-marshal failed: " + err.Error(), Detail: det}
				}
				var j2 jws.JWK
				if err := json.Unmarshal(again, &j2); err != nil || j2.X != want.X || j2.Y != want.Y || j2.Crv != want.Crv || j2.Kty != want.Kty {
					return &core.Fail{Key: id, What: fmt.Sprintf("re-marshalled JWK %s differs from the original", again), Detail: det}
				}
				for _, code := range []uint{18, 19} {
					c1, e1 := commitment.GetCommitment(got, code)
					c2, e2 := commitment.GetCommitment(&j2, code)
					rv, e3 := commitment.GetRevealValue(&j2, code)
					if e1 != nil || e2 != nil || e3 != nil || c1 != c2 || c1 != ops.Commitment(k, uint64(code)) || rv != ops.Reveal(k, uint64(code)) {
						return &core.Fail{Key: id, What: "commitment / reveal value computed from the re-read key differ from the original key's", Detail: det}
					}
				}
				return nil
			})
		})
		r.AddDistinct(int64(count + len(special)))
	}
	r.Sample(map[string]any{"type": "P-521", "index": 0, "jwk": keys.New("P-521", 0).JWKMap()})

	// ---- rejections
	type mj struct {
		id  string
		jwk map[string]any
		key *keys.Key // the genuine key the JWK was derived from
	}
	var muts []mj
	for _, t := range types {
		w := keys.Width(t)
		var ks []*keys.Key
		for i := 0; len(ks) < 8 && i < 20000; i++ {
			k := keys.New(t, i)
			x, y := k.XY()
			lead := x[0] == 0 || (y != nil && y[0] == 0) || (t == "Ed25519" && x[31] == 0)
			if len(ks) < 4 || lead {
				ks = append(ks, k)
			}
		}
		for _, k := range ks {
			x, y := k.XY()
			base := fmt.Sprintf("reject/%s/%d", t, k.Index)
			mk := func(name string, nx, ny []byte) {
				m := k.JWKMap()
				m["x"] = enc.EncodeToString(nx)
				if t != "Ed25519" {
					m["y"] = enc.EncodeToString(ny)
				}
				muts = append(muts, mj{base + "/" + name, m, k})
			}
			mk("unchanged", x, y)
			coords := [][]byte{x}
			if t != "Ed25519" {
				coords = append(coords, y)
			}
			for ci, c := range coords {
				cn := []string{"x", "y"}[ci]
				set := func(name string, nc []byte) {
					if ci == 0 {
						mk(cn+"-"+name, nc, y)
					} else {
						mk(cn+"-"+name, x, nc)
					}
				}
				if t != "Ed25519" {
					for bit := 0; bit < len(c)*8; bit++ {
						d := append([]byte{}, c...)
						d[bit/8] ^= 1 << (bit % 8)
						set(fmt.Sprintf("bit-%d", bit), d)
					}
				}
				set("leading-zero-added", append([]byte{0}, c...))
				set("first-byte-removed", c[1:])
				set("trailing-byte-added", append(append([]byte{}, c...), 0))
				set("last-byte-removed", c[:len(c)-1])
				set("empty", []byte{})
				if t != "Ed25519" {
					p := keys.Curve(t).Params().P
					plus := new(big.Int).Add(new(big.Int).SetBytes(c), p).Bytes()
					set("plus-p", plus)
					if len(plus) > w {
						set("plus-p-truncated", plus[len(plus)-w:])
					}
				}
			}
			{
				m := k.JWKMap()
				delete(m, "x")
				muts = append(muts, mj{base + "/x-member-missing", m, k})
				if t != "Ed25519" {
					m2 := k.JWKMap()
					delete(m2, "y")
					muts = append(muts, mj{base + "/y-member-missing", m2, k})
				}
				m3 := k.JWKMap()
				m3["x"] = nil
				muts = append(muts, mj{base + "/x-null", m3, k})
			}
			if t != "Ed25519" {
				// the boundary between x and y moved inside the concatenated text: the same characters, both widths wrong
				xs, ys := enc.EncodeToString(x), enc.EncodeToString(y)
				for _, n := range []int{1, 2, len(ys) - 1} {
					m := k.JWKMap()
					m["x"], m["y"] = xs+ys[:n], ys[n:]
					muts = append(muts, mj{fmt.Sprintf("%s/boundary-moved-right-%d", base, n), m, k})
					m2 := k.JWKMap()
					m2["x"], m2["y"] = xs[:len(xs)-n], xs[len(xs)-n:]+ys
					muts = append(muts, mj{fmt.Sprintf("%s/boundary-moved-left-%d", base, n), m2, k})
				}
				// the same 2w bytes split at another place: x one to three bytes short and y as much too long, and the other way round
				for _, n := range []int{1, 2, 3} {
					xy := append(append([]byte{}, x...), y...)
					mk(fmt.Sprintf("bytes-split-%d-early", n), xy[:len(x)-n], xy[len(x)-n:])
					mk(fmt.Sprintf("bytes-split-%d-late", n), xy[:len(x)+n], xy[len(x)+n:])
				}
				mk("swapped", y, x)
				mk("zero-point", make([]byte, w), make([]byte, w))
				ny := new(big.Int).Sub(keys.Curve(t).Params().P, new(big.Int).SetBytes(y)).Bytes()
				pad := make([]byte, w-len(ny))
				mk("negated-y-valid", x, append(pad, ny...))
			}
		}
	}
	// coordinates written as the field element plus the field prime, where that still fits the curve's width (always on P-521, for
	// small coordinates on the other curves): another spelling of the same residue is not a coordinate of the curve - one key
	// must not have two JWK forms, hence two commitments
	for _, t := range types {
		if t == "Ed25519" {
			continue
		}
		w, p := keys.Width(t), keys.Curve(t).Params().P
		var pts []*keys.Key
		for xv := int64(0); xv < 8; xv++ {
			if k := keys.PublicWithX(t, xv); k != nil {
				pts = append(pts, k)
			}
		}
		pts = append(pts, keys.New(t, 0), keys.New(t, 1))
		for _, k := range pts {
			for _, d := range [][2]int64{{0, 0}, {1, 0}, {0, 1}, {1, 1}} {
				nx := new(big.Int).Add(k.EC.X, new(big.Int).Mul(big.NewInt(d[0]), p))
				ny := new(big.Int).Add(k.EC.Y, new(big.Int).Mul(big.NewInt(d[1]), p))
				if nx.BitLen() > 8*w || ny.BitLen() > 8*w {
					continue
				}
				m := k.JWKMap()
				m["x"], m["y"] = enc.EncodeToString(nx.FillBytes(make([]byte, w))), enc.EncodeToString(ny.FillBytes(make([]byte, w)))
				muts = append(muts, mj{fmt.Sprintf("reject/%s/%d/plus-field-prime-%d%d", t, k.Index, d[0], d[1]), m, nil})
				if d[0]+d[1] > 0 {
					r.Class("coordinate-plus-field-prime-" + t)
				}
			}
		}
	}
	r.Extra["mutated_jwks"] = len(muts)
	core.Parallel(len(muts), func(i int) {
		m := muts[i]
		want := rjws.KeyOK(m.jwk)
		r.Case(m.id, func() *core.Fail {
			b, _ := json.Marshal(m.jwk)
			var j jwsutil.JWK
			err := j.UnmarshalJSON(b)
			if (err == nil) != want {
				return &core.Fail{Key: m.id, What: fmt.Sprintf("JWK %s: library says %v, the independent on-curve + width predicate says valid=%v", b, err, want), Detail: map[string]any{"jwk": m.jwk, "expected_valid": want}}
			}
			// the same public members with a private member beside them: a point that is not a key of the curve is not one there either
			if crv, _ := m.jwk["crv"].(string); m.jwk["kty"] == "EC" && !want && keys.Curve(crv) != nil {
				withD := map[string]any{}
				for k, v := range m.jwk {
					withD[k] = v
				}
				withD["d"] = enc.EncodeToString(big.NewInt(7).FillBytes(make([]byte, keys.Width(crv))))
				b2, _ := json.Marshal(withD)
				var j2 jwsutil.JWK
				if err := j2.UnmarshalJSON(b2); err == nil {
					return &core.Fail{Key: m.id + "/with-d", What: fmt.Sprintf("JWK %s is accepted although its public point is refused without the d member", b2), Detail: map[string]any{"jwk": withD}}
				}
			}
			// the verification path, after the genuine key has been used in this process: a JWS made by the genuine key verifies under
			// the mutated JWK only if that JWK is the genuine key (the independent verifier decides); a wrong-width or off-curve JWK never
			if m.key != nil {
				compact := m.key.SignCompact(m.key.Header(), []byte(`{"p":"`+m.id+`"}`))
				var good, mut jws.JWK
				gb, _ := json.Marshal(m.key.JWKMap())
				_ = json.Unmarshal(gb, &good)
				_ = json.Unmarshal(b, &mut)
				if _, err := jwsutil.VerifyJWS(compact, &good); err != nil {
					return &core.Fail{Key: m.id, What: "JWS by the genuine key does not verify under the genuine JWK: " + err.Error(), Detail: map[string]any{"jws": compact}}
				}
				_, wantV := rjws.Verify(compact, m.jwk)
				_, err := jwsutil.VerifyJWS(compact, &mut)
				if (err == nil) != wantV {
					return &core.Fail{Key: m.id, What: fmt.Sprintf("after the genuine JWK was used, VerifyJWS under the mutated JWK %s says %v, the independent verifier says verifies=%v", b, err, wantV), Detail: map[string]any{"jwk": m.jwk, "jws": compact}}
				}
			}
			if m.jwk["kty"] == "OKP" {
				var lj jws.JWK
				_ = json.Unmarshal(b, &lj)
				_, err := jwsutil.GetED25519PublicKey(&lj)
				if (err == nil) != want {
					return &core.Fail{Key: m.id, What: fmt.Sprintf("GetED25519PublicKey on %s: %v, predicate says valid=%v", b, err, want), Detail: map[string]any{"jwk": m.jwk}}
				}
			}
			return nil
		})
		r.Observe(m.id, core.J(m.jwk))
		if want {
			r.Class("mutated-valid")
		} else {
			r.Class("mutated-invalid")
		}
	})
	// a JWK value handed to the reading and verifying functions is the caller's: it comes back as it went in (with its nonce), so
	// that a commitment or reveal value computed from it afterwards is the one computed before
	for _, t := range types {
		for ni, nonce := range []string{"", "AQIDBAUGBwgJCgsMDQ4PEA"} {
			// extra: the value also carries the members of another key type (n, e beside an EC / OKP key) - members like any other
			for _, extra := range []bool{false, true} {
				t, nonce, extra := t, nonce, extra
				k := keys.New(t, 5).WithNonce(nonce)
				id := fmt.Sprintf("jwk-value-unchanged-by-reading/%s/nonce%d/extra-%v", t, ni, extra)
				r.Case(id, func() *core.Fail {
					j := k.JWK()
					if extra {
						j.N, j.E = "sXchDaQebHnPiGvyDOAT4saGEUetSyo9MKLOoWFsueri23bOdgWp4Dy1WlUzewbgBHod5pcM9H95GQRV3JDXboIRROSBigeC5yjU1hGzHHyXss8UDprecbAYxknTcQkhslANGRUZmdTOQ5qTRsLAt6BTYuyvVRdhS8exSZEy_c4gs_7svlJJQ4H9_NxsiIoLwAEk7-Q3UXERGYw_75IDrGA84-lJ_-Cdk", "AQAB"
					}
					before, _ := json.Marshal(j)
					c0, _ := commitment.GetCommitment(j, 18)
					msg := []byte("header.payload")
					compact := k.SignCompact(k.Header(), []byte(`{"p":1}`))
					sig, _ := enc.DecodeString(strings.Split(compact, ".")[2])
					_ = jwsutil.VerifySignature(j, sig, msg)
					_, _ = jwsutil.VerifyJWS(compact, j)
					_, _ = jwsutil.GetED25519PublicKey(j)
					_ = j.Validate()
					_, _ = commitment.GetRevealValue(j, 19)
					after, _ := json.Marshal(j)
					c1, _ := commitment.GetCommitment(j, 18)
					if string(before) != string(after) || c0 != c1 || (!extra && c0 != ops.Commitment(k, 18)) {
						return &core.Fail{Key: "jwk-value-changed-by-reading/" + t, What: fmt.Sprintf("a JWK value was changed by reading / verifying with it: %s became %s (commitment %s -> %s)", before, after, c0, c1), Detail: map[string]any{"before": string(before), "after": string(after)}}
					}
					return nil
				})
				r.Observe(id)
				r.Class("jwk-value-unchanged")
			}
		}
	}
	// one JWK value used for several decodes (a variable declared outside a loop over keys): after every decode the value must be
	// the key just read, whatever was read into it before - all ordered pairs and triples of key types
	{
		var ks []*keys.Key
		for _, t := range types {
			ks = append(ks, keys.New(t, 3), keys.WithLeadingZero(func() string {
				if t == "Ed25519" {
					return "P-256"
				}
				return t
			}(), 0))
		}
		check := func(id string, seq []*keys.Key) {
			r.Case(id, func() (f *core.Fail) {
				var j jwsutil.JWK
				for step, k := range seq {
					b, _ := json.Marshal(k.JWKMap())
					det := map[string]any{"sequence": fmt.Sprint(seq), "step": step}
					if err := j.UnmarshalJSON(b); err != nil {
						return &core.Fail{Key: id, What: fmt.Sprintf("step %d: decoding %s into a JWK value used before fails: %v", step, k, err), Detail: det}
					}
					want := k.JWKMap()
					if j.Kty != want["kty"] || j.Crv != want["crv"] {
						return &core.Fail{Key: id, What: fmt.Sprintf("step %d: after decoding %s the value says kty %q crv %q", step, k, j.Kty, j.Crv), Detail: det}
					}
					out, err := j.MarshalJSON()
					if err != nil {
						return &core.Fail{Key: id, What: fmt.Sprintf("step %d: MarshalJSON after decoding %s: %v", step, k, err), Detail: det}
					}
					var got map[string]any
					_ = json.Unmarshal(out, &got)
					for _, m := range []string{"kty", "crv", "x", "y"} {
						w, has := want[m]
						if g := got[m]; (has && w != "" && g != w) || (!has && g != nil) {
							return &core.Fail{Key: id, What: fmt.Sprintf("step %d: %s read into a JWK value used before is written back with %s = %v (expected %v)", step, k, m, g, w), Detail: det}
						}
					}
					if _, err := j.PublicKeyBytes(); err != nil {
						return &core.Fail{Key: id, What: fmt.Sprintf("step %d: PublicKeyBytes after decoding %s: %v", step, k, err), Detail: det}
					}
				}
				return nil
			})
			r.Observe(id)
		}
		for a := range ks {
			for b := range ks {
				check(fmt.Sprintf("reused-jwk-value/%d-%d", a, b), []*keys.Key{ks[a], ks[b]})
				if r.Thorough() {
					for c := range ks {
						check(fmt.Sprintf("reused-jwk-value/%d-%d-%d", a, b, c), []*keys.Key{ks[a], ks[b], ks[c]})
					}
				}
			}
		}
	}
	r.Sample(map[string]any{"mutation": muts[10].id, "jwk": muts[10].jwk})
	for _, t := range []string{"P-256", "secp256k1", "P-384", "P-521"} {
		r.Require("leading-zero-"+t, 5)
	}
	r.Require("trailing-zero-Ed25519", 1)
	r.Require("mutated-valid", 20)
	r.Require("mutated-invalid", 1000)
}

func merge(a, b map[string]any) map[string]any {
	for k, v := range b {
		a[k] = v
	}
	return a
}
