// Package c08: client-built requests are accepted and yield the requested document.
package c08

import (
	"bytes"
	"crypto/ecdsa"
	"crypto/ed25519"
	"encoding/base64"
	"encoding/json"
	"fmt"
	"sort"
	"strings"

	"verif/engine/core"
	"verif/gen/keys"
	"verif/gen/ops"
	"verif/ref/jcs"
	rpatch "verif/ref/patch"

	"github.com/trustbloc/did-go/doc/did"
	"github.com/trustbloc/did-go/doc/did/endpoint"
	"github.com/trustbloc/kms-go/doc/jose/jwk/jwksupport"
	"github.com/trustbloc/sidetree-go/pkg/api/operation"
	"github.com/trustbloc/sidetree-go/pkg/api/protocol"
	"github.com/trustbloc/sidetree-go/pkg/commitment"
	"github.com/trustbloc/sidetree-go/pkg/jws"
	"github.com/trustbloc/sidetree-go/pkg/patch"
	"github.com/trustbloc/sidetree-go/pkg/util/ecsigner"
	"github.com/trustbloc/sidetree-go/pkg/util/edsigner"
	"github.com/trustbloc/sidetree-go/pkg/util/pubkey"
	"github.com/trustbloc/sidetree-go/pkg/vdr/sidetreelongform/sidetree"
	sdoc "github.com/trustbloc/sidetree-go/pkg/vdr/sidetreelongform/sidetree/doc"
	"github.com/trustbloc/sidetree-go/pkg/vdr/sidetreelongform/sidetree/option/create"
	"github.com/trustbloc/sidetree-go/pkg/vdr/sidetreelongform/sidetree/option/deactivate"
	"github.com/trustbloc/sidetree-go/pkg/vdr/sidetreelongform/sidetree/option/recovery"
	"github.com/trustbloc/sidetree-go/pkg/vdr/sidetreelongform/sidetree/option/update"
	"github.com/trustbloc/sidetree-go/pkg/versions/1_0/client"
	"github.com/trustbloc/sidetree-go/pkg/versions/1_0/doccomposer"
	"github.com/trustbloc/sidetree-go/pkg/versions/1_0/model"
	"github.com/trustbloc/sidetree-go/pkg/versions/1_0/operationapplier"
	"github.com/trustbloc/sidetree-go/pkg/versions/1_0/operationparser"
)

type M = map[string]any

type hsigner struct {
	k     *keys.Key
	inner interface {
		Sign([]byte) ([]byte, error)
		Headers() jws.Headers
	}
}

func newSigner(k *keys.Key) *hsigner {
	if k.Ed != nil {
		return &hsigner{k, edsigner.New(k.Ed, k.Alg(), "")}
	}
	return &hsigner{k, ecsigner.New(k.EC, k.Alg(), "")}
}

func (s *hsigner) Sign(d []byte) ([]byte, error) { return s.inner.Sign(d) }
func (s *hsigner) Headers() jws.Headers          { return s.inner.Headers() }
func (s *hsigner) PublicKeyJWK() *jws.JWK {
	j, err := pubkey.GetPublicKeyJWK(pub(s.k))
	if err != nil {
		panic(err)
	}
	return j
}

func pub(k *keys.Key) any {
	if k.Ed != nil {
		return k.Ed.Public().(ed25519.PublicKey)
	}
	return &ecdsa.PublicKey{Curve: k.EC.Curve, X: k.EC.X, Y: k.EC.Y}
}

func gen(v any) any {
	b, _ := json.Marshal(v)
	p, _ := jcs.Parse(b)
	return p
}

type world struct {
	p       protocol.Protocol
	parser  *operationparser.Parser
	applier *operationapplier.Applier
}

func newWorld(algs []uint) *world {
	p := ops.Proto()
	p.MultihashAlgorithms = algs
	w := &world{p: p, parser: operationparser.New(p)}
	w.applier = operationapplier.New(p, w.parser, doccomposer.New())
	return w
}

// accept parses the request outside batch mode and applies it at time t; returns the new state.
func (w *world) accept(req []byte, typ operation.Type, prev *protocol.ResolutionModel, t uint64) (*protocol.ResolutionModel, string) {
	op, err := w.parser.Parse("did:sidetree", req)
	if err != nil {
		return nil, "parser refused the request: " + err.Error()
	}
	// a node whose parser checks anchoring windows against its clock (which shows the anchoring time t) accepts the request too
	if _, err := operationparser.New(w.p, operationparser.WithAnchorTimeValidator(clockAt(t))).Parse("did:sidetree", req); err != nil {
		return nil, fmt.Sprintf("a parser of the same protocol whose time validator compares the window with the clock (time %d) refused the request: %v", t, err)
	}
	if op.Type != typ {
		return nil, fmt.Sprintf("parsed type %s, expected %s", op.Type, typ)
	}
	rm, err := w.applier.Apply(&operation.AnchoredOperation{Type: typ, UniqueSuffix: op.UniqueSuffix, OperationRequest: req, TransactionTime: t, TransactionNumber: t}, prev)
	if err != nil {
		return nil, "applier refused the request: " + err.Error()
	}
	// anchored form
	mop, err := w.parser.ParseOperation("did:sidetree", req, false)
	if err != nil {
		return nil, "ParseOperation failed: " + err.Error()
	}
	an, err := model.GetAnchoredOperation(mop)
	if err != nil {
		return nil, "GetAnchoredOperation failed: " + err.Error()
	}
	var reqV any
	_ = json.Unmarshal(req, &reqV)
	if !bytes.Equal(an.OperationRequest, jcs.MustCanonGo(reqV)) {
		return nil, fmt.Sprintf("anchored bytes %s are not the canonical encoding of the request", an.OperationRequest)
	}
	if an.Type != typ || an.UniqueSuffix != op.UniqueSuffix || !jcs.Equal(gen(an.AnchorOrigin), gen(op.AnchorOrigin)) {
		return nil, "anchored operation does not keep type / suffix / anchor origin"
	}
	an.TransactionTime, an.TransactionNumber = t, t
	rm2, err := w.applier.Apply(an, prev)
	if err != nil || snapshot(rm2) != snapshot(rm) {
		return nil, fmt.Sprintf("applying the anchored form gives a different state (%v)", err)
	}
	return rm, ""
}

func snapshot(rm *protocol.ResolutionModel) string {
	if rm == nil {
		return "nil"
	}
	b, _ := json.Marshal(rm)
	return string(b)
}

// docView: order-insensitive view of a document: keys by id, services by id, also-known-as set, other members.
func docView(d map[string]any) string {
	v := M{}
	for k, val := range d {
		switch k {
		case "publicKey", "service":
			m := M{}
			l, _ := val.([]any)
			for _, e := range l {
				em, _ := e.(map[string]any)
				id, _ := em["id"].(string)
				m[id] = e
			}
			if len(m) > 0 {
				v[k] = m
			}
		case "alsoKnownAs":
			l, _ := val.([]any)
			var s []string
			for _, e := range l {
				s = append(s, fmt.Sprint(e))
			}
			sort.Strings(s)
			if len(s) > 0 {
				v[k] = s
			}
		default:
			v[k] = val
		}
	}
	return string(jcs.MustCanonGo(v))
}

func implDoc(rm *protocol.ResolutionModel) map[string]any {
	m, _ := gen(rm.Doc).(map[string]any)
	if m == nil {
		m = M{}
	}
	return m
}

func Run(r *core.Run) {
	r.Rule = "request builders: 5 key types x 2 hash algorithms x (opaque document | patch list of each of the 8 actions) x anchor origin x anchoring window for create / update / recover / deactivate, applied in order; builder refusals; " +
		"Sidetree client: lifecycles create -> update^<=2 -> recover -> update^<=2 -> deactivate over every option subset of size <= 2 (thorough 3) of {add/replace/remove key, add/remove service, add/remove also-known-as}, 4 signer key types, commitment algorithm 18/19, states deduplicated per phase; " +
		"every accepted request: anchored form = canonical bytes, same suffix/type/origin, same state; distinct = distinct requests; non-trivial = all"
	r.Assumptions = []string{"intent = reference fold (ref/patch) of what the caller asked for; key and service lists compared by id (order-insensitive), also-known-as as a set",
		"client keys always carry at least one purpose (the client's key type cannot express a purpose-less key: observed, not judged)"}

	// ------------------------------------------------------------- A. request builders
	// (the second key is a BBS+ key the way key libraries write it as a JWK: kty EC, a curve name of its own, x only)
	// (ids of exactly the longest length the rules allow, 50 characters, stand beside the short ones)
	id50k, id50s := "k"+strings.Repeat("0123456789", 5)[:49], "s"+strings.Repeat("abcdefghi_", 5)[:49]
	opaque := `{"publicKey":[` + ops.PubKeyJSON("k1", keys.New("P-256", 600), `["authentication"]`) + `,` + ops.PubKeyJSON(id50k, keys.New("P-256", 602), `["authentication"]`) + `,{"id":"bls1","type":"Bls12381G2Key2020","purposes":["assertionMethod"],"publicKeyJwk":{"kty":"EC","crv":"BLS12381_G2","x":"` + strings.Repeat("QUJD", 32) + `"}}],"service":[{"id":"s1","type":"T","serviceEndpoint":"https://s1.example/","priority":1,"routingKeys":["rk1","rk2"],"description":"as created"},{"id":"` + id50s + `","type":"T","serviceEndpoint":"https://longest-id.example/"}],"alsoKnownAs":["https://aka.example/"],"other":{"n":1},"list":[1,2]}`
	patchTexts := map[string]string{
		"replace": `{"action":"replace","document":{"publicKeys":[` + ops.PubKeyJSON("k2", keys.New("Ed25519", 600), `["assertionMethod"]`) + `],"services":[{"id":"s2","type":"T","serviceEndpoint":"https://s2.example/"}]}}`,
		// (the add patches also name an id that the created document has: the stored entry is replaced by the new one, whole)
		"add-public-keys":      `{"action":"add-public-keys","publicKeys":[` + ops.PubKeyJSON("k3", keys.New("secp256k1", 600), `["keyAgreement"]`) + `,` + ops.PubKeyJSON(id50k[:49]+"X", keys.New("P-256", 603), `["authentication"]`) + `,` + ops.PubKeyJSON("k1", keys.New("Ed25519", 601), ``) + `]}`,
		"remove-public-keys":   `{"action":"remove-public-keys","ids":["k1","zz","` + id50k + `"]}`,
		"add-services":         `{"action":"add-services","services":[{"id":"s3","type":"T","serviceEndpoint":["https://a.example/","https://b.example/"]},{"id":"` + id50s[:49] + `X","type":"T","serviceEndpoint":"https://another-longest-id.example/"},{"id":"s1","type":"T2","serviceEndpoint":"https://s1-again.example/"}]}`,
		"remove-services":      `{"action":"remove-services","ids":["s1","` + id50s + `"]}`,
		"ietf-json-patch":      `{"action":"ietf-json-patch","patches":[{"op":"add","path":"/extra","value":{"e":true}}]}`,
		"add-also-known-as":    `{"action":"add-also-known-as","uris":["did:example:also"]}`,
		"remove-also-known-as": `{"action":"remove-also-known-as","uris":["https://aka.example/"]}`,
	}
	actions := []string{"replace", "add-public-keys", "remove-public-keys", "add-services", "remove-services", "ietf-json-patch", "add-also-known-as", "remove-also-known-as"}
	mkPatch := func(a string) patch.Patch {
		p, err := patch.FromBytes([]byte(patchTexts[a]))
		if err != nil {
			core.Engine("c08 patch %s: %v", a, err)
		}
		return p
	}
	type builderCase struct {
		kt     string
		code   uint
		action string // "" = opaque document
		origin any
		window bool
	}
	var bcs []builderCase
	// (".../alg-X": the signer of a key of that curve announces the algorithm X - the protocol lists algorithm names and curves
	// independently, and the digest of an ECDSA signature follows the curve of the key)
	for _, kt := range append(append([]string{}, keys.Types...), "secp256k1/leading-zero", "P-256/leading-zero", "P-384/alg-ES256", "P-521/alg-ES256K", "P-256/alg-ES512") {
		for _, code := range []uint{18, 19} {
			for _, a := range append([]string{""}, actions...) {
				for oi, o := range []any{nil, "origin.example"} {
					bcs = append(bcs, builderCase{kt, code, a, o, oi == 1})
				}
			}
		}
	}
	core.Parallel(len(bcs), func(i int) {
		bc := bcs[i]
		id := fmt.Sprintf("builders/%s/%d/%s/origin=%v", bc.kt, bc.code, bc.action, bc.origin != nil)
		r.Case(id, func() *core.Fail {
			w := newWorld([]uint{bc.code})
			mk := func(i int) *keys.Key {
				if t, lz := strings.CutSuffix(bc.kt, "/leading-zero"); lz {
					return keys.WithLeadingZero(t, i-610) // keys one of whose coordinates begins with a zero byte
				}
				if t, _, labelled := strings.Cut(bc.kt, "/alg-"); labelled {
					return keys.New(t, i)
				}
				return keys.New(bc.kt, i)
			}
			newSigner := func(k *keys.Key) *hsigner {
				if _, label, labelled := strings.Cut(bc.kt, "/alg-"); labelled && k.EC != nil {
					return &hsigner{k, ecsigner.New(k.EC, label, "")}
				}
				return newSigner(k)
			}
			rec, upd, upd2, rec2, upd3 := mk(610), mk(611), mk(612), mk(613), mk(614)
			jwkOf := func(k *keys.Key) *jws.JWK { return newSigner(k).PublicKeyJWK() }
			cm := func(k *keys.Key) string { c, _ := commitment.GetCommitment(jwkOf(k), bc.code); return c }
			rv := func(k *keys.Key) string { c, _ := commitment.GetRevealValue(jwkOf(k), bc.code); return c }
			det := M{"case": id}
			fail := func(step, what string, req []byte) *core.Fail {
				det["request"] = string(req)
				return &core.Fail{Key: "builders/" + step + "/" + bc.action, What: step + ": " + what, Detail: det}
			}
			// create: always from the opaque document (so later patches have something to act on) or from the patch list when it is self-contained
			ci := &client.CreateRequestInfo{OpaqueDocument: opaque, RecoveryCommitment: cm(rec), UpdateCommitment: cm(upd), MultihashCode: bc.code, AnchorOrigin: bc.origin}
			var intent map[string]any
			_ = json.Unmarshal([]byte(opaque), &intent)
			// (under sha2-512 the add-keys / add-services lifecycles start from the opaque document instead, so that their update re-adds
			// ids of entries that were created with more members than the update gives them)
			fromOpaque := bc.code == 19 && (bc.action == "add-public-keys" || bc.action == "add-services" || bc.action == "replace")
			if !fromOpaque && (bc.action == "replace" || bc.action == "add-public-keys" || bc.action == "add-services" || bc.action == "add-also-known-as" || bc.action == "ietf-json-patch") {
				ci.OpaqueDocument = ""
				ci.Patches = []patch.Patch{mkPatch(bc.action)}
				intent, _ = rpatch.Apply(M{}, []any{ops.ParseJSON(patchTexts[bc.action])})
			}
			creq, err := client.NewCreateRequest(ci)
			if err != nil {
				return fail("create", "builder refused valid input: "+err.Error(), nil)
			}
			st, msg := w.accept(creq, operation.TypeCreate, &protocol.ResolutionModel{}, 10)
			if msg != "" {
				return fail("create", msg, creq)
			}
			if docView(implDoc(st)) != docView(intent) || st.UpdateCommitment != cm(upd) || st.RecoveryCommitment != cm(rec) || !jcs.Equal(gen(st.AnchorOrigin), gen(bc.origin)) {
				return fail("create", fmt.Sprintf("state %s differs from the intent %s / commitments / origin", docView(implDoc(st)), docView(intent)), creq)
			}
			suffix := ""
			if op, err := w.parser.Parse("did:sidetree", creq); err == nil {
				suffix = op.UniqueSuffix
			}
			// update with the action's patch (or a default one)
			ua := bc.action
			if ua == "" || (ua == "replace" && !fromOpaque) {
				ua = "add-also-known-as"
			}
			// (under sha2-512 the replace lifecycle starts from the opaque document and its update is the replace patch: what the
			// caller asked for is a document of that patch's keys and services and nothing else)
			// every operation gets its own window around its own anchoring time (1000, 2000, 3000): the operation before it was
			// anchored outside that window, so a window compared with anything but the operation's own anchoring time shows
			var from, until int64
			window := func(t int64) {
				from, until = 0, 0
				if bc.window {
					from, until = t-5, t+5
					if bc.code == 19 {
						until = 0 // no expiry given: the window ends the maximum operation time delta after its beginning
					}
				}
			}
			window(1000)
			ureq, err := client.NewUpdateRequest(&client.UpdateRequestInfo{DidSuffix: suffix, Patches: []patch.Patch{mkPatch(ua)}, UpdateCommitment: cm(upd2), UpdateKey: jwkOf(upd),
				MultihashCode: bc.code, Signer: newSigner(upd), RevealValue: rv(upd), AnchorFrom: from, AnchorUntil: until})
			if err != nil {
				return fail("update", "builder refused valid input: "+err.Error(), nil)
			}
			if msg := signedWindow(ureq, from, until); msg != "" {
				return fail("update", msg, ureq)
			}
			want, werr := rpatch.Apply(implDoc(st), []any{ops.ParseJSON(patchTexts[ua])})
			st2, msg := w.accept(ureq, operation.TypeUpdate, st, 1000)
			if msg != "" {
				return fail("update", msg, ureq)
			}
			if werr == nil && docView(implDoc(st2)) != docView(want) || st2.UpdateCommitment != cm(upd2) || st2.RecoveryCommitment != cm(rec) {
				return fail("update", fmt.Sprintf("state %s differs from the intent %s", docView(implDoc(st2)), docView(want)), ureq)
			}
			// recover
			window(2000)
			// the recover names the create's anchor origin again, another one, or (when the create had one) none at all
			recoverOrigin := bc.origin
			if bc.origin != nil && bc.code == 19 {
				recoverOrigin = nil
			} else if bc.origin != nil && strings.HasPrefix(bc.action, "add-") {
				recoverOrigin = "another-origin.example"
			}
			ri := &client.RecoverRequestInfo{DidSuffix: suffix, RecoveryKey: jwkOf(rec), OpaqueDocument: opaque, RecoveryCommitment: cm(rec2), UpdateCommitment: cm(upd3), AnchorOrigin: recoverOrigin,
				AnchorFrom: from, AnchorUntil: until, MultihashCode: bc.code, Signer: newSigner(rec), RevealValue: rv(rec)}
			var rintent map[string]any
			_ = json.Unmarshal([]byte(opaque), &rintent)
			if bc.action == "replace" || bc.action == "add-public-keys" {
				ri.OpaqueDocument = ""
				ri.Patches = []patch.Patch{mkPatch(bc.action)}
				rintent, _ = rpatch.Apply(M{}, []any{ops.ParseJSON(patchTexts[bc.action])})
			}
			rreq, err := client.NewRecoverRequest(ri)
			if err != nil {
				return fail("recover", "builder refused valid input: "+err.Error(), nil)
			}
			if msg := signedWindow(rreq, from, until); msg != "" {
				return fail("recover", msg, rreq)
			}
			st3, msg := w.accept(rreq, operation.TypeRecover, st2, 2000)
			if msg != "" {
				return fail("recover", msg, rreq)
			}
			if docView(implDoc(st3)) != docView(rintent) || st3.UpdateCommitment != cm(upd3) || st3.RecoveryCommitment != cm(rec2) || !jcs.Equal(gen(st3.AnchorOrigin), gen(recoverOrigin)) {
				return fail("recover", fmt.Sprintf("state %s differs from the intent %s", docView(implDoc(st3)), docView(rintent)), rreq)
			}
			// deactivate
			window(3000)
			dreq, err := client.NewDeactivateRequest(&client.DeactivateRequestInfo{DidSuffix: suffix, RecoveryKey: jwkOf(rec2), Signer: newSigner(rec2), RevealValue: rv(rec2), AnchorFrom: from, AnchorUntil: until})
			if err != nil {
				return fail("deactivate", "builder refused valid input: "+err.Error(), nil)
			}
			if msg := signedWindow(dreq, from, until); msg != "" {
				return fail("deactivate", msg, dreq)
			}
			st4, msg := w.accept(dreq, operation.TypeDeactivate, st3, 3000)
			if msg != "" {
				return fail("deactivate", msg, dreq)
			}
			if !st4.Deactivated || st4.UpdateCommitment != "" || st4.RecoveryCommitment != "" || len(implDoc(st4)) != 0 {
				return fail("deactivate", "state after deactivate is not the deactivated state", dreq)
			}
			return nil
		})
		r.Observe(id)
		r.Class("builder-lifecycles")
	})
	// ---- requests whose delta is exactly as large as the protocol allows: a create and an update built by the client builders, with
	// service endpoints that carry a query string (& < > U+2028); the configured maximum delta size is the canonical size of the delta
	for _, typ := range []string{"create", "update"} {
		typ := typ
		id := "builders/delta-exactly-at-the-size-limit/" + typ
		r.Case(id, func() *core.Fail {
			rec, upd, upd2 := keys.New("P-256", 650), keys.New("P-256", 651), keys.New("P-256", 652)
			jwkOf := func(k *keys.Key) *jws.JWK { return newSigner(k).PublicKeyJWK() }
			cm := func(k *keys.Key) string { c, _ := commitment.GetCommitment(jwkOf(k), 18); return c }
			rv := func(k *keys.Key) string { c, _ := commitment.GetRevealValue(jwkOf(k), 18); return c }
			svc, _ := patch.NewAddServiceEndpointsPatch(`[{"id":"q1","type":"T","serviceEndpoint":"https://s.example/find?a=1&b=2&c=<3>&d=\u2028e"}]`)
			creq, err := client.NewCreateRequest(&client.CreateRequestInfo{Patches: []patch.Patch{svc}, RecoveryCommitment: cm(rec), UpdateCommitment: cm(upd), MultihashCode: 18})
			if err != nil {
				return &core.Fail{Key: id, What: "create builder refused valid input: " + err.Error()}
			}
			req := creq
			if typ == "update" {
				suffix := ""
				if op, err := newWorld([]uint{18}).parser.Parse("did:sidetree", creq); err == nil {
					suffix = op.UniqueSuffix
				}
				req, err = client.NewUpdateRequest(&client.UpdateRequestInfo{DidSuffix: suffix, Patches: []patch.Patch{svc}, UpdateCommitment: cm(upd2), UpdateKey: jwkOf(upd), MultihashCode: 18, Signer: newSigner(upd), RevealValue: rv(upd)})
				if err != nil {
					return &core.Fail{Key: id, What: "update builder refused valid input: " + err.Error()}
				}
			}
			var m map[string]any
			_ = json.Unmarshal(req, &m)
			size := len(jcs.MustCanonGo(m["delta"]))
			w := newWorld([]uint{18})
			w.p.MaxDeltaSize = uint(size)
			w.parser = operationparser.New(w.p)
			w.applier = operationapplier.New(w.p, w.parser, doccomposer.New())
			det := M{"request": string(req), "canonical_delta_size": size}
			prev := &protocol.ResolutionModel{}
			if typ == "update" {
				st, msg := w.accept(creq, operation.TypeCreate, prev, 10)
				if msg != "" {
					return &core.Fail{Key: id, What: "create before the update: " + msg, Detail: det}
				}
				prev = st
			}
			st, msg := w.accept(req, operation.Type(typ), prev, 20)
			if msg != "" {
				return &core.Fail{Key: id, What: fmt.Sprintf("%s request whose canonical delta has exactly the maximum delta size (%d): %s", typ, size, msg), Detail: det}
			}
			if !strings.Contains(docView(implDoc(st)), "find?a=1&b=2") {
				return &core.Fail{Key: id, What: "the service of the request is not in the resulting document: " + docView(implDoc(st)), Detail: det}
			}
			return nil
		})
		r.Observe(id)
	}
	// ---- builder refusals
	{
		k1, k2 := keys.New("P-256", 620), keys.New("P-256", 621)
		j := func(k *keys.Key) *jws.JWK { return newSigner(k).PublicKeyJWK() }
		c := func(k *keys.Key, code uint) string { v, _ := commitment.GetCommitment(j(k), code); return v }
		rvv, _ := commitment.GetRevealValue(j(k1), 18)
		p := []patch.Patch{mkPatch("add-also-known-as")}
		refusals := map[string]func() error{
			"create/equal-commitments": func() error {
				_, err := client.NewCreateRequest(&client.CreateRequestInfo{OpaqueDocument: opaque, RecoveryCommitment: c(k1, 18), UpdateCommitment: c(k1, 18), MultihashCode: 18})
				return err
			},
			"create/recovery-commitment-other-algorithm": func() error {
				_, err := client.NewCreateRequest(&client.CreateRequestInfo{OpaqueDocument: opaque, RecoveryCommitment: c(k1, 19), UpdateCommitment: c(k2, 18), MultihashCode: 18})
				return err
			},
			"create/update-commitment-other-algorithm": func() error {
				_, err := client.NewCreateRequest(&client.CreateRequestInfo{OpaqueDocument: opaque, RecoveryCommitment: c(k1, 18), UpdateCommitment: c(k2, 19), MultihashCode: 18})
				return err
			},
			"create/unsupported-code": func() error {
				_, err := client.NewCreateRequest(&client.CreateRequestInfo{OpaqueDocument: opaque, RecoveryCommitment: c(k1, 18), UpdateCommitment: c(k2, 18), MultihashCode: 55})
				return err
			},
			"create/both-document-and-patches": func() error {
				_, err := client.NewCreateRequest(&client.CreateRequestInfo{OpaqueDocument: opaque, Patches: p, RecoveryCommitment: c(k1, 18), UpdateCommitment: c(k2, 18), MultihashCode: 18})
				return err
			},
			"create/neither-document-nor-patches": func() error {
				_, err := client.NewCreateRequest(&client.CreateRequestInfo{RecoveryCommitment: c(k1, 18), UpdateCommitment: c(k2, 18), MultihashCode: 18})
				return err
			},
			"update/next-commitment-of-signing-key": func() error {
				_, err := client.NewUpdateRequest(&client.UpdateRequestInfo{DidSuffix: "s", Patches: p, UpdateCommitment: c(k1, 18), UpdateKey: j(k1), MultihashCode: 18, Signer: newSigner(k1), RevealValue: rvv})
				return err
			},
			"update/missing-suffix": func() error {
				_, err := client.NewUpdateRequest(&client.UpdateRequestInfo{Patches: p, UpdateCommitment: c(k2, 18), UpdateKey: j(k1), MultihashCode: 18, Signer: newSigner(k1), RevealValue: rvv})
				return err
			},
			"update/missing-reveal": func() error {
				_, err := client.NewUpdateRequest(&client.UpdateRequestInfo{DidSuffix: "s", Patches: p, UpdateCommitment: c(k2, 18), UpdateKey: j(k1), MultihashCode: 18, Signer: newSigner(k1)})
				return err
			},
			"update/missing-patches": func() error {
				_, err := client.NewUpdateRequest(&client.UpdateRequestInfo{DidSuffix: "s", UpdateCommitment: c(k2, 18), UpdateKey: j(k1), MultihashCode: 18, Signer: newSigner(k1), RevealValue: rvv})
				return err
			},
			"update/missing-key": func() error {
				_, err := client.NewUpdateRequest(&client.UpdateRequestInfo{DidSuffix: "s", Patches: p, UpdateCommitment: c(k2, 18), MultihashCode: 18, Signer: newSigner(k1), RevealValue: rvv})
				return err
			},
			"update/missing-signer": func() error {
				_, err := client.NewUpdateRequest(&client.UpdateRequestInfo{DidSuffix: "s", Patches: p, UpdateCommitment: c(k2, 18), UpdateKey: j(k1), MultihashCode: 18, RevealValue: rvv})
				return err
			},
			"recover/next-recovery-commitment-of-signing-key": func() error {
				_, err := client.NewRecoverRequest(&client.RecoverRequestInfo{DidSuffix: "s", RecoveryKey: j(k1), OpaqueDocument: opaque, RecoveryCommitment: c(k1, 18), UpdateCommitment: c(k2, 18), MultihashCode: 18, Signer: newSigner(k1), RevealValue: rvv})
				return err
			},
			"recover/both-document-and-patches": func() error {
				_, err := client.NewRecoverRequest(&client.RecoverRequestInfo{DidSuffix: "s", RecoveryKey: j(k1), OpaqueDocument: opaque, Patches: p, RecoveryCommitment: c(k2, 18), UpdateCommitment: c(k2, 18), MultihashCode: 18, Signer: newSigner(k1), RevealValue: rvv})
				return err
			},
			"recover/missing-key": func() error {
				_, err := client.NewRecoverRequest(&client.RecoverRequestInfo{DidSuffix: "s", OpaqueDocument: opaque, RecoveryCommitment: c(k2, 18), UpdateCommitment: c(k2, 18), MultihashCode: 18, Signer: newSigner(k1), RevealValue: rvv})
				return err
			},
			"deactivate/missing-suffix": func() error {
				_, err := client.NewDeactivateRequest(&client.DeactivateRequestInfo{RecoveryKey: j(k1), Signer: newSigner(k1), RevealValue: rvv})
				return err
			},
			"deactivate/missing-reveal": func() error {
				_, err := client.NewDeactivateRequest(&client.DeactivateRequestInfo{DidSuffix: "s", RecoveryKey: j(k1), Signer: newSigner(k1)})
				return err
			},
			"deactivate/missing-signer": func() error {
				_, err := client.NewDeactivateRequest(&client.DeactivateRequestInfo{DidSuffix: "s", RecoveryKey: j(k1), RevealValue: rvv})
				return err
			},
		}
		names := make([]string, 0, len(refusals))
		for n := range refusals {
			names = append(names, n)
		}
		sort.Strings(names)
		for _, n := range names {
			n := n
			r.Case("refusal/"+n, func() *core.Fail {
				if refusals[n]() == nil {
					return &core.Fail{Key: "refusal/" + n, What: "builder produced a request from input that must be refused: " + n, Detail: M{"case": n}}
				}
				return nil
			})
			r.Class("builder-refusals")
		}
	}

	// ------------------------------------------------------------- B. Sidetree client lifecycles
	lifecycles(r)
	r.Require("builder-lifecycles", 100)
	r.Require("builder-refusals", 10)
	r.Require("client-steps", 200)
}

// signedWindow checks that the signed data of a built request carries exactly the requested anchoring window.
func signedWindow(req []byte, from, until int64) string {
	var m M
	_ = json.Unmarshal(req, &m)
	sd, _ := m["signedData"].(string)
	parts := strings.Split(sd, ".")
	if len(parts) != 3 {
		return "signed data is not a compact JWS"
	}
	pb, err := base64.RawURLEncoding.DecodeString(parts[1])
	if err != nil {
		return "signed payload is not base64url"
	}
	var p M
	if json.Unmarshal(pb, &p) != nil {
		return "signed payload is not JSON"
	}
	num := func(k string) int64 { f, _ := p[k].(float64); return int64(f) }
	if num("anchorFrom") != from || num("anchorUntil") != until {
		return fmt.Sprintf("signed data carries window (%d,%d), the caller asked for (%d,%d)", num("anchorFrom"), num("anchorUntil"), from, until)
	}
	return ""
}

// linked checks that the reveal value of a request maps to the commitment the state carries for that chain.
func linked(w *world, req []byte, want string) string {
	rv, err := w.parser.GetRevealValue(req)
	if err != nil {
		return "GetRevealValue failed: " + err.Error()
	}
	c, err := commitment.GetCommitmentFromRevealValue(rv)
	if err != nil || c != want {
		return fmt.Sprintf("reveal value maps to commitment %q (%v), the state carries %q", c, err, want)
	}
	return ""
}

// -------- client lifecycle exploration

type cstate struct {
	rm       *protocol.ResolutionModel
	upd, rec *keys.Key
	intent   map[string]any
	path     []string
}

type optAtom struct {
	name  string
	apply func(o *[]update.Option, intent map[string]any)
}

func vmKey(id string, k *keys.Key, purposes []string) *sdoc.PublicKey {
	j, err := jwksupport.JWKFromKey(pub(k))
	if err != nil {
		panic(err)
	}
	return &sdoc.PublicKey{ID: id, Type: "JsonWebKey2020", Purposes: purposes, JWK: *j}
}

func keyIntent(id string, k *keys.Key, purposes []string) M {
	x, y := k.JWK().X, k.JWK().Y
	j := M{"kty": k.JWK().Kty, "crv": k.JWK().Crv, "x": x}
	if y != "" {
		j["y"] = y
	}
	p := []any{}
	for _, s := range purposes {
		p = append(p, s)
	}
	return M{"id": id, "type": "JsonWebKey2020", "purposes": p, "publicKeyJwk": j}
}

func svcOf(id, uri string) *did.Service {
	return &did.Service{ID: id, Type: "Type-" + id, ServiceEndpoint: endpoint.NewDIDCommV1Endpoint(uri)}
}

func svcIntent(id, uri string) M { return M{"id": id, "type": "Type-" + id, "serviceEndpoint": uri} }

func removeByID(doc map[string]any, member, id string) {
	l, _ := doc[member].([]any)
	var out []any
	for _, e := range l {
		if em, _ := e.(map[string]any); em["id"] != id {
			out = append(out, e)
		}
	}
	doc[member] = out
}

func upsertByID(doc map[string]any, member string, v M) {
	removeByID(doc, member, v["id"].(string))
	l, _ := doc[member].([]any)
	doc[member] = append(l, v)
}

func lifecycles(r *core.Run) {
	w := newWorld([]uint{18, 19})
	var captured []byte
	cl := sidetree.New(sidetree.WithSidetreeOperationRequestFnc(func(req []byte, _ sidetree.GetEndpointsFunc) ([]byte, error) {
		captured = append([]byte{}, req...)
		return []byte(`{"didDocument":{"id":"did:sidetree:captured","@context":["https://www.w3.org/ns/did/v1"]}}`), nil
	}))
	kA, kB, kA2 := keys.New("P-256", 700), keys.New("Ed25519", 700), keys.New("secp256k1", 700)
	atoms := []optAtom{
		{"add-key-k2", func(o *[]update.Option, in map[string]any) {
			*o = append(*o, update.WithAddPublicKey(vmKey("k2", kB, []string{"assertionMethod"})))
			upsertByID(in, "publicKey", keyIntent("k2", kB, []string{"assertionMethod"}))
		}},
		{"replace-key-k1", func(o *[]update.Option, in map[string]any) {
			*o = append(*o, update.WithAddPublicKey(vmKey("k1", kA2, []string{"authentication", "keyAgreement"})))
			upsertByID(in, "publicKey", keyIntent("k1", kA2, []string{"authentication", "keyAgreement"}))
		}},
		{"remove-key-k1", func(o *[]update.Option, in map[string]any) {
			*o = append(*o, update.WithRemovePublicKey("k1"))
			removeByID(in, "publicKey", "k1")
		}},
		{"add-service-s2", func(o *[]update.Option, in map[string]any) {
			*o = append(*o, update.WithAddService(svcOf("s2", "https://s2.example/")))
			upsertByID(in, "service", svcIntent("s2", "https://s2.example/"))
		}},
		{"remove-service-s1", func(o *[]update.Option, in map[string]any) {
			*o = append(*o, update.WithRemoveService("s1"))
			removeByID(in, "service", "s1")
		}},
		{"add-aka-u2", func(o *[]update.Option, in map[string]any) {
			*o = append(*o, update.WithAddAlsoKnownAs("https://u2.example/"))
			l, _ := in["alsoKnownAs"].([]any)
			has := false
			for _, e := range l {
				if e == "https://u2.example/" {
					has = true
				}
			}
			if !has {
				in["alsoKnownAs"] = append(l, "https://u2.example/")
			}
		}},
		{"remove-aka-u1", func(o *[]update.Option, in map[string]any) {
			*o = append(*o, update.WithRemoveAlsoKnownAs("https://u1.example/"))
			l, _ := in["alsoKnownAs"].([]any)
			var out []any
			for _, e := range l {
				if e != "https://u1.example/" {
					out = append(out, e)
				}
			}
			in["alsoKnownAs"] = out
		}},
	}
	// option subsets of size 1 and 2; for a pair touching the same id, removal is meant to happen before the addition
	var subsets [][]int
	for i := range atoms {
		subsets = append(subsets, []int{i})
		for j := i + 1; j < len(atoms); j++ {
			subsets = append(subsets, []int{i, j})
			if r.Thorough() {
				for k := j + 1; k < len(atoms); k++ {
					subsets = append(subsets, []int{i, j, k})
				}
			}
		}
	}
	signerTypes := []string{"Ed25519", "P-256", "P-384", "secp256k1"}
	clone := func(m map[string]any) map[string]any { return rpatch.Clone(m).(map[string]any) }
	n := 0
	fresh := func(step int) *keys.Key { n++; return keys.New(signerTypes[(step+n)%len(signerTypes)], 720+n) }
	report := func(st *cstate, step, what string) {
		path := strings.Join(append(append([]string{}, st.path...), step), " -> ")
		r.Report(path, core.Fail{Key: "client/" + step, What: "client lifecycle " + path + ": " + what, Detail: M{"lifecycle": path, "request": string(captured)}})
	}
	// create
	upd0, rec0 := fresh(0), fresh(0)
	err := func() error {
		_, err := cl.CreateDID(create.WithPublicKey(vmKey("k1", kA, []string{"authentication"})), create.WithService(svcOf("s1", "https://s1.example/")), create.WithAlsoKnownAs("https://u1.example/"),
			create.WithUpdatePublicKey(pub(upd0)), create.WithRecoveryPublicKey(pub(rec0)), create.WithAnchorOrigin("origin.example"), create.WithMultiHashAlgorithm(18))
		return err
	}()
	root := &cstate{upd: upd0, rec: rec0, path: []string{"create"}, intent: M{"publicKey": []any{keyIntent("k1", kA, []string{"authentication"})}, "service": []any{svcIntent("s1", "https://s1.example/")}, "alsoKnownAs": []any{"https://u1.example/"}}}
	if err != nil {
		report(root, "create", "CreateDID failed: "+err.Error())
		return
	}
	rm, msg := w.accept(captured, operation.TypeCreate, &protocol.ResolutionModel{}, 10)
	if msg != "" {
		report(root, "create", msg)
		return
	}
	root.rm = rm
	var suffix string
	if op, err := w.parser.Parse("did:sidetree", captured); err == nil {
		suffix = op.UniqueSuffix
	}
	didStr := "did:sidetree:" + suffix
	r.Eval(1)
	r.Class("client-steps")
	check := func(st *cstate, step string) bool {
		if docView(implDoc(st.rm)) != docView(st.intent) {
			report(st, step, fmt.Sprintf("document %s differs from what the caller asked for %s", docView(implDoc(st.rm)), docView(st.intent)))
			return false
		}
		return true
	}
	if !check(root, "create") {
		return
	}
	doUpdates := func(in []*cstate, phase string, t uint64) []*cstate {
		seen := map[string]bool{}
		var out []*cstate
		for _, st := range in {
			for si, sub := range subsets {
				code := uint(18 + (si+len(st.path))%2)
				var opts []update.Option
				intent := clone(st.intent)
				var names []string
				// removals first in the intent (that is what "remove and re-add" means), then additions
				for pass := 0; pass < 2; pass++ {
					for _, ai := range sub {
						isRemove := strings.HasPrefix(atoms[ai].name, "remove")
						if (pass == 0) == isRemove {
							var dummy []update.Option
							atoms[ai].apply(&dummy, intent)
						}
					}
				}
				for _, ai := range sub {
					scratch := M{}
					atoms[ai].apply(&opts, scratch)
					names = append(names, atoms[ai].name)
				}
				next := fresh(len(st.path))
				signer := newSigner(st.upd)
				opc := st.rm.UpdateCommitment // what a caller holds: the commitment in force, made with the previous request's algorithm
				opts = append(opts, update.WithSigner(signer), update.WithNextUpdatePublicKey(pub(next)), update.WithOperationCommitment(opc), update.WithMultiHashAlgorithm(code))
				step := fmt.Sprintf("%s[%s|%s|mh%d]", phase, strings.Join(names, "+"), st.upd.Type, code)
				r.Eval(1)
				r.Class("client-steps")
				if err := cl.UpdateDID(didStr, opts...); err != nil {
					report(st, step, "UpdateDID failed: "+err.Error())
					continue
				}
				r.Observe(string(captured))
				if msg := linked(w, captured, st.rm.UpdateCommitment); msg != "" {
					report(st, step, msg)
					continue
				}
				nrm, msg := w.accept(captured, operation.TypeUpdate, st.rm, t)
				ns := &cstate{rm: nrm, upd: next, rec: st.rec, intent: intent, path: append(append([]string{}, st.path...), step)}
				if msg != "" {
					report(st, step, msg)
					continue
				}
				nj, _ := pubkey.GetPublicKeyJWK(pub(next))
				wantUC, _ := commitment.GetCommitment(nj, code)
				if nrm.UpdateCommitment != wantUC {
					report(st, step, "update commitment is not the commitment of the next update key")
					continue
				}
				if !check(ns, step) {
					continue
				}
				k := docView(ns.intent)
				if !seen[k] {
					seen[k] = true
					out = append(out, ns)
				}
			}
		}
		return out
	}
	lvl1 := doUpdates([]*cstate{root}, "update1", 20)
	lvl2 := doUpdates(lvl1, "update2", 30)
	r.Extra["client_states_after_update1"] = len(lvl1)
	r.Extra["client_states_after_update2"] = len(lvl2)
	// recover from every distinct state (and from the created state)
	var recovered []*cstate
	for i, st := range append([]*cstate{root}, lvl2...) {
		code := uint(18 + i%2)
		nr, nu := fresh(i), fresh(i+1)
		signer := newSigner(st.rec)
		opc := st.rm.RecoveryCommitment
		step := fmt.Sprintf("recover[%s|mh%d]", st.rec.Type, code)
		r.Eval(1)
		r.Class("client-steps")
		err := cl.RecoverDID(didStr, recovery.WithPublicKey(vmKey("k1", kA, []string{"authentication"})), recovery.WithPublicKey(vmKey("k9", kB, []string{"capabilityInvocation"})),
			recovery.WithService(svcOf("s1", "https://s1.example/")), recovery.WithAlsoKnownAs("https://u1.example/"), recovery.WithSigner(signer), recovery.WithNextRecoveryPublicKey(pub(nr)),
			recovery.WithNextUpdatePublicKey(pub(nu)), recovery.WithOperationCommitment(opc), recovery.WithMultiHashAlgorithm(code), recovery.WithAnchorOrigin("recovered.example"))
		if err != nil {
			report(st, step, "RecoverDID failed: "+err.Error())
			continue
		}
		if msg := linked(w, captured, st.rm.RecoveryCommitment); msg != "" {
			report(st, step, msg)
			continue
		}
		nrm, msg := w.accept(captured, operation.TypeRecover, st.rm, 40)
		if msg != "" {
			report(st, step, msg)
			continue
		}
		ns := &cstate{rm: nrm, upd: nu, rec: nr, path: append(append([]string{}, st.path...), step),
			intent: M{"publicKey": []any{keyIntent("k1", kA, []string{"authentication"}), keyIntent("k9", kB, []string{"capabilityInvocation"})}, "service": []any{svcIntent("s1", "https://s1.example/")}, "alsoKnownAs": []any{"https://u1.example/"}}}
		if nrm.AnchorOrigin != "recovered.example" {
			report(st, step, "anchor origin not installed by recover")
			continue
		}
		if check(ns, step) && i < 3 {
			recovered = append(recovered, ns)
		}
	}
	lvl3 := doUpdates(recovered, "update3", 50)
	lvl4 := doUpdates(lvl3[:min(len(lvl3), 6)], "update4", 60)
	for i, st := range append(append([]*cstate{}, recovered...), lvl4...) {
		signer := newSigner(st.rec)
		code := uint(18 + i%2)
		opc := st.rm.RecoveryCommitment
		_ = code
		step := fmt.Sprintf("deactivate[%s]", st.rec.Type)
		r.Eval(1)
		r.Class("client-steps")
		if err := cl.DeactivateDID(didStr, deactivate.WithSigner(signer), deactivate.WithOperationCommitment(opc)); err != nil {
			report(st, step, "DeactivateDID failed: "+err.Error())
			continue
		}
		if msg := linked(w, captured, st.rm.RecoveryCommitment); msg != "" {
			report(st, step, msg)
			continue
		}
		nrm, msg := w.accept(captured, operation.TypeDeactivate, st.rm, 70)
		if msg != "" {
			report(st, step, msg)
			continue
		}
		if !nrm.Deactivated || len(implDoc(nrm)) != 0 {
			report(st, step, "state after deactivate is not deactivated / empty")
		}
	}
	if len(lvl2) > 0 {
		r.Sample(M{"lifecycle": lvl2[len(lvl2)/2].path, "document": docView(lvl2[len(lvl2)/2].intent)})
	}
}

func min(a, b int) int {
	if a < b {
		return a
	}
	return b
}

// clockAt is an anchor time validator of a node whose clock shows now: a window that does not contain now is refused.
type clockAt uint64

func (c clockAt) Validate(from, until int64) error {
	if from == 0 && until == 0 {
		return nil
	}
	if int64(c) < from || int64(c) > until {
		return fmt.Errorf("the window [%d, %d] does not contain the time %d", from, until, uint64(c))
	}
	return nil
}
