// Package c18: resolution results expose every key, service and metadata item correctly.
package c18

import (
	"encoding/json"
	"fmt"
	"github.com/btcsuite/btcutil/base58"
	"sort"
	"strings"
	"sync/atomic"

	"verif/engine/core"
	"verif/gen/keys"
	"verif/ref/jcs"
	"verif/ref/resolution"
	"verif/ref/rules"

	"github.com/trustbloc/sidetree-go/pkg/api/operation"
	"github.com/trustbloc/sidetree-go/pkg/api/protocol"
	"github.com/trustbloc/sidetree-go/pkg/document"
	"github.com/trustbloc/sidetree-go/pkg/versions/1_0/doctransformer/didtransformer"
	"github.com/trustbloc/sidetree-go/pkg/versions/1_0/doctransformer/doctransformer"
)

type M = map[string]any

var keyTypes = []string{"JsonWebKey2020", "EcdsaSecp256k1VerificationKey2019", "Ed25519VerificationKey2018", "Ed25519VerificationKey2020", "Bls12381G2Key2020", "X25519KeyAgreementKey2019"}
var purposes = []string{"authentication", "assertionMethod", "keyAgreement", "capabilityDelegation", "capabilityInvocation"}

func jwkFor(typ string, i int) M {
	switch typ {
	case "Ed25519VerificationKey2018", "Ed25519VerificationKey2020":
		j := keys.New("Ed25519", 90+i).JWKMap()
		return M{"kty": j["kty"], "crv": j["crv"], "x": j["x"]}
	case "EcdsaSecp256k1VerificationKey2019":
		j := keys.New("secp256k1", 90+i).JWKMap()
		return M{"kty": j["kty"], "crv": j["crv"], "x": j["x"], "y": j["y"]}
	}
	j := keys.New("P-256", 90+i).JWKMap()
	return M{"kty": j["kty"], "crv": j["crv"], "x": j["x"], "y": j["y"]}
}

func mkKey(id, typ, material string, purp []any, i int) M {
	k := M{"id": id, "type": typ}
	if material == "jwk" {
		k["publicKeyJwk"] = jwkFor(typ, i)
	} else {
		k["publicKeyBase58"] = "GY4GunSXBPBfhLCzDL7iGmP5dR3sBDCJZkkaGK8VgYQf"
	}
	if purp != nil {
		k["purposes"] = purp
	}
	return k
}

func gen(v any) any {
	b, _ := json.Marshal(v)
	p, _ := jcs.Parse(b)
	return p
}

func toDoc(m M) document.Document {
	b, _ := json.Marshal(m)
	d, _ := document.FromBytes(b)
	return d
}

func Run(r *core.Run) {
	listLen := core.Pick(r, 4, 5)
	r.Rule = fmt.Sprintf("documents: single keys over 6 types x all 32 purpose subsets x {JWK, base58} (valid combinations per the constraint predicate) + 2-3 key combinations, 0-2 services with extra members, 0-2 also-known-as; "+
		"x 16 option combinations (+ custom / incomplete key-context map) x both transformers; histories on one shared transformer: all sequences (a,b,a) (thorough: all (a,b,c)) over documents that reuse the key id / service id with other material, types and DIDs; metadata: commitments {empty,set} x anchor origin {nil,string,object} x deactivated x created/updated/version {0,set} x published x canonical/equivalent ids; "+
		"operation lists: all sequences of length <= %d over (time, number) in {0,1,2}^2 x 2 canonical references, all sequences of length <= 3 over (time, number) in {0,1,2^63-1,2^63,2^63+1,2^64-1}^2, and lists of 13-64 (thorough: -257) operations in every rotation, reversed, interleaved and organ-pipe order with time blocks of 1, 2, 3, n/2, n; distinct = distinct (document, options) / model / list cases; non-trivial = all", listLen)
	r.Assumptions = []string{"reference result ref/resolution written from the statement (DID core vocabulary)", "operations with equal (time, number) may come in any order (compared as multisets)",
		"'updated time without version id' and 'created time while unpublished' are observed, not judged"}
	const did = "did:sidetree:EiSuffix"
	// ---------- documents
	var subsets [][]any
	for m := 0; m < 32; m++ {
		var s []any
		for b := 0; b < 5; b++ {
			if m&(1<<b) != 0 {
				s = append(s, purposes[b])
			}
		}
		subsets = append(subsets, s)
	}
	var singleKeys []M
	for ti, t := range keyTypes {
		for _, mat := range []string{"jwk", "b58"} {
			for si, s := range subsets {
				var purp []any
				if si > 0 {
					purp = s
				}
				k := mkKey(fmt.Sprintf("key-%d-%d", ti, si), t, mat, purp, ti)
				if rules.ValidKey(k) {
					singleKeys = append(singleKeys, k)
				}
			}
		}
	}
	r.Extra["valid_single_keys"] = len(singleKeys)
	svcA := M{"id": "svc-a", "type": "A", "serviceEndpoint": "https://a.example/", "priority": 1.0, "routingKeys": []any{"k1", "k2"}}
	svcB := M{"id": "svc-b", "type": "B", "serviceEndpoint": []any{"https://b1.example/", M{"uri": "x"}}, "recipientKeys": M{"nested": true}}
	var docs []M
	for _, k := range singleKeys {
		docs = append(docs, M{"publicKey": []any{k}})
	}
	// multi-key documents: same type twice (context once), different types (first-use order), with services / aka
	pick := func(t, mat string, purp []any, id string, i int) M { k := mkKey(id, t, mat, purp, i); return k }
	multi := [][]M{
		{pick("JsonWebKey2020", "jwk", []any{"authentication"}, "a", 1), pick("JsonWebKey2020", "jwk", []any{"authentication", "keyAgreement"}, "b", 2)},
		{pick("Ed25519VerificationKey2018", "jwk", []any{"assertionMethod"}, "a", 1), pick("JsonWebKey2020", "jwk", nil, "b", 2), pick("Ed25519VerificationKey2018", "b58", []any{"authentication", "assertionMethod"}, "c", 3)},
		{pick("X25519KeyAgreementKey2019", "b58", []any{"keyAgreement"}, "z", 1), pick("Ed25519VerificationKey2020", "jwk", []any{"capabilityInvocation", "capabilityDelegation"}, "y", 2), pick("EcdsaSecp256k1VerificationKey2019", "jwk", []any{"authentication"}, "x", 3)},
		{pick("Bls12381G2Key2020", "b58", []any{"assertionMethod"}, "k1", 1), pick("JsonWebKey2020", "jwk", []any{"assertionMethod"}, "k2", 2)},
	}
	for _, ks := range multi {
		var l []any
		for _, k := range ks {
			if !rules.ValidKey(k) {
				core.Engine("c18: multi-key fixture invalid: %v", k)
			}
			l = append(l, k)
		}
		for ns := 0; ns <= 2; ns++ {
			for na := 0; na <= 2; na++ {
				d := M{"publicKey": l}
				if ns > 0 {
					d["service"] = []any{svcA, svcB}[:ns]
				}
				if na > 0 {
					d["alsoKnownAs"] = []any{"https://aka1.example/", "did:example:aka2"}[:na]
				}
				docs = append(docs, d)
			}
		}
	}
	docs = append(docs, M{"service": []any{svcB, svcA}}, M{"alsoKnownAs": []any{"https://only.example/"}}, M{})
	// keys and services have separate id spaces: a service may carry the id of a key (and two services those of two keys)
	docs = append(docs,
		M{"publicKey": []any{mkKey("hub", "JsonWebKey2020", "jwk", []any{"authentication"}, 1)}, "service": []any{M{"id": "hub", "type": "A", "serviceEndpoint": "https://hub.example/"}}},
		M{"publicKey": []any{mkKey("a", "JsonWebKey2020", "jwk", []any{"authentication"}, 1), mkKey("b", "Ed25519VerificationKey2018", "jwk", []any{"assertionMethod"}, 2)},
			"service": []any{M{"id": "b", "type": "B", "serviceEndpoint": "https://b.example/"}, M{"id": "c", "type": "C", "serviceEndpoint": "https://c.example/"}, M{"id": "a", "type": "A", "serviceEndpoint": []any{"https://a.example/"}}}})
	// JWKs are exposed as they are: further members of any JSON type (RFC 7517 kid, alg, use, key_ops, ext, x5c), OKP keys without y, RSA keys
	{
		rich := mkKey("rich", "JsonWebKey2020", "jwk", []any{"authentication", "assertionMethod"}, 4)
		for n, v := range (M{"kid": "key-1", "alg": "ES256", "use": "sig", "key_ops": []any{"verify"}, "ext": true, "x5c": []any{"MIIB", "MIIC"}, "x5t#S256": "abc", "nested": M{"a": []any{1.0, nil}}, "num": 1.5}) {
			rich["publicKeyJwk"].(M)[n] = v
		}
		okp := M{"id": "okp", "type": "X25519KeyAgreementKey2019", "purposes": []any{"keyAgreement"}, "publicKeyJwk": M{"kty": "OKP", "crv": "X25519", "x": "hSDwCYkwp1R0i33ctD73Wg2_Og0mOBr066SpjqqbTmo"}}
		rsa := M{"id": "rsa", "type": "JsonWebKey2020", "purposes": []any{"authentication"}, "publicKeyJwk": M{"kty": "RSA", "n": "sXchDaQebHnPiGvyDOAT4saGEUetSyo9MKLOoWFsueri23bOdgWp4Dy1WlUzewbgBHod5pcM9H95GQRV3JDXboIRROSBigeC5yjU1hGzHHyXss8UDprecbAYxknTcQkhslANGRUZmdTOQ5qTRsLAt6BTYuyvVRdhS8exSZEy_c4gs_7svlJJQ4H9_NxsiIoLwAEk7-Q3UXERGYw_75IDrGA84-lA_-Ct4eTlXHBIY2EaV7t7LjJaynVJCpkv4LKjTTAumiGUIuQhrNhZLuF_RJLqHpM2kgWFLU7-VTdL1VbC2tejvcI2BlMkEpk1BzBZI0KQB0GaDWFLN-aEAw3vRw", "e": "AQAB", "kid": "r"}}
		for _, k := range []M{rich, okp, rsa} {
			if !rules.ValidKey(k) {
				core.Engine("c18: JWK-form fixture invalid: %v", k)
			}
		}
		docs = append(docs, M{"publicKey": []any{rich}}, M{"publicKey": []any{okp}}, M{"publicKey": []any{rsa}}, M{"publicKey": []any{rich, okp, rsa}, "service": []any{svcA}})
	}
	// Ed25519 keys in JWK form whose base58 text has an unusual head: a leading 'z' (the multibase prefix of base58-btc, about one key
	// in a thousand), 'zz', and a leading '1' (a zero byte); converted to base58 (2018) and multibase (2020) they are these very bytes
	{
		found := map[string]bool{}
		for i := 0; i < 400000 && len(found) < 3; i++ {
			k := keys.New("Ed25519", i)
			x, _ := k.XY()
			b58 := base58.Encode(x)
			head := ""
			switch {
			case strings.HasPrefix(b58, "zz"):
				head = "zz"
			case strings.HasPrefix(b58, "z"):
				head = "z"
			case strings.HasPrefix(b58, "1"):
				head = "1"
			}
			if head == "" || found[head] {
				continue
			}
			found[head] = true
			j := k.JWKMap()
			jwk := M{"kty": j["kty"], "crv": j["crv"], "x": j["x"]}
			docs = append(docs,
				M{"publicKey": []any{M{"id": "b58-" + head, "type": "Ed25519VerificationKey2018", "purposes": []any{"authentication"}, "publicKeyJwk": jwk}}},
				M{"publicKey": []any{M{"id": "mb-" + head, "type": "Ed25519VerificationKey2020", "purposes": []any{"assertionMethod"}, "publicKeyJwk": jwk}}})
			r.Class("ed25519-base58-head-" + head)
		}
		r.Extra["ed25519_base58_heads_found"] = len(found)
	}
	r.Extra["documents"] = len(docs)
	type optCase struct {
		name string
		o    resolution.Options
		mk   func() []didtransformer.Option
	}
	var optCases []optCase
	for m := 0; m < 16; m++ {
		o := resolution.Options{Base: m&1 != 0, Published: m&4 != 0, Unpublished: m&8 != 0}
		if m&2 != 0 {
			o.MethodContext = []string{"https://method.example/ctx/v1", "https://method.example/ctx/v2"}
		}
		oo := o
		optCases = append(optCases, optCase{fmt.Sprintf("opts%02d", m), o, func() []didtransformer.Option {
			return []didtransformer.Option{didtransformer.WithBase(oo.Base), didtransformer.WithMethodContext(oo.MethodContext),
				didtransformer.WithIncludePublishedOperations(oo.Published), didtransformer.WithIncludeUnpublishedOperations(oo.Unpublished)}
		}})
	}
	custom := map[string]string{"JsonWebKey2020": "https://custom.example/jwk"}
	optCases = append(optCases, optCase{"custom-key-context", resolution.Options{KeyContexts: custom}, func() []didtransformer.Option {
		return []didtransformer.Option{didtransformer.WithKeyContext(custom)}
	}})
	// every key type mapped to a context of the deployment's own (the representation of a key follows its type, not its context)
	customAll := map[string]string{}
	for _, t := range keyTypes {
		customAll[t] = "https://custom.example/contexts/" + t
	}
	optCases = append(optCases, optCase{"custom-key-context-all-types", resolution.Options{KeyContexts: customAll}, func() []didtransformer.Option {
		return []didtransformer.Option{didtransformer.WithKeyContext(customAll)}
	}})
	// ... and two types sharing one context, the Ed25519 types swapped to each other's default context
	swapped := map[string]string{}
	for _, t := range keyTypes {
		swapped[t] = "https://custom.example/contexts/shared"
	}
	swapped["Ed25519VerificationKey2018"] = "https://w3id.org/security/suites/ed25519-2020/v1"
	swapped["Ed25519VerificationKey2020"] = "https://w3id.org/security/suites/ed25519-2018/v1"
	optCases = append(optCases, optCase{"custom-key-context-swapped", resolution.Options{KeyContexts: swapped}, func() []didtransformer.Option {
		return []didtransformer.Option{didtransformer.WithKeyContext(swapped)}
	}})
	baseState := resolution.State{UpdateCommitment: "uc", RecoveryCommitment: "rc", VersionID: "v1", CreatedTime: 1600000000, UpdatedTime: 1600000100}
	info := protocol.TransformationInfo{"id": did, "published": true, "canonicalId": "did:sidetree:cid", "equivalentId": []string{"did:sidetree:e1", "did:sidetree:e2"}}
	// the DID itself is data: a pct-encoded method-specific id (domain hint with a port) and one that looks like formatting verbs
	theDIDs := []string{did, "did:sidetree:https:localhost%3A8080:EiPct", "did:sidetree:EiA%sB%dC%%D%v"}
	core.Parallel(len(docs)*len(theDIDs), func(job int) {
		di, did := job/len(theDIDs), theDIDs[job%len(theDIDs)]
		info := protocol.TransformationInfo{"id": did, "published": true, "canonicalId": info["canonicalId"], "equivalentId": info["equivalentId"]}
		d := docs[di]
		for _, oc := range optCases {
			oc := oc
			id := fmt.Sprintf("document/%d/%s/did%d", di, oc.name, job%len(theDIDs))
			r.Case(id, func() *core.Fail {
				rm := &protocol.ResolutionModel{Doc: toDoc(d), UpdateCommitment: "uc", RecoveryCommitment: "rc", VersionID: "v1", CreatedTime: 1600000000, UpdatedTime: 1600000100}
				res, err := didtransformer.New(oc.mk()...).TransformDocument(rm, info)
				want, ok := resolution.Document(gen(d).(M), did, oc.o)
				det := M{"internal_document": d, "options": oc.name, "did": did}
				if !ok {
					if err == nil {
						return &core.Fail{Key: id, What: "key type without a context in the configured map transformed without error", Detail: det}
					}
					return nil
				}
				if err != nil {
					return &core.Fail{Key: id, What: "transformation failed: " + err.Error(), Detail: det}
				}
				got := gen(res.Document)
				if !jcs.Equal(got, gen(want)) {
					return &core.Fail{Key: id, What: fmt.Sprintf("document %s differs from the expected %s", core.J(got), core.J(gen(want))), Detail: det}
				}
				if res.Context != resolution.ResContext {
					return &core.Fail{Key: id, What: "resolution context missing", Detail: det}
				}
				wantMD := resolution.Metadata(baseState, true, "did:sidetree:cid", []any{"did:sidetree:e1", "did:sidetree:e2"})
				if !jcs.Equal(gen(res.DocumentMetadata), gen(wantMD)) {
					return &core.Fail{Key: id, What: fmt.Sprintf("metadata %s differs from the expected %s", core.J(res.DocumentMetadata), core.J(wantMD)), Detail: det}
				}
				return nil
			})
			r.Observe(id)
		}
	})
	r.Sample(M{"internal_document": docs[len(singleKeys)+10], "options": "all 16 combinations + custom key context"})

	// ---------- histories on one shared transformer: a transformer is a long-lived component, so every result must be the
	// function of its own input whatever was transformed before (the same DID re-resolved after a key rotation keeps its key ids)
	{
		var hist []M
		b58s := []string{"GY4GunSXBPBfhLCzDL7iGmP5dR3sBDCJZkkaGK8VgYQf", "3M1jkCcMSCJhBYBCV2bFbBB6jNzpJ1sKTGf1VbxsQFHt"}
		for _, t := range keyTypes {
			purp := []any{"authentication"}
			switch t {
			case "X25519KeyAgreementKey2019":
				purp = []any{"keyAgreement"}
			case "Bls12381G2Key2020":
				purp = []any{"assertionMethod"}
			}
			for i := 1; i <= 2; i++ {
				if k := mkKey("k", t, "jwk", purp, i); rules.ValidKey(k) {
					hist = append(hist, M{"publicKey": []any{k}})
				}
				k := mkKey("k", t, "b58", purp, i)
				k["publicKeyBase58"] = b58s[i-1]
				if rules.ValidKey(k) {
					hist = append(hist, M{"publicKey": []any{k}})
				}
			}
		}
		hist = append(hist, M{"publicKey": []any{mkKey("k", "JsonWebKey2020", "jwk", []any{"authentication"}, 1)}, "service": []any{M{"id": "s", "type": "A", "serviceEndpoint": "https://a.example/"}}, "alsoKnownAs": []any{"https://one.example/"}},
			M{"publicKey": []any{mkKey("k", "JsonWebKey2020", "jwk", []any{"assertionMethod"}, 1)}, "service": []any{M{"id": "s", "type": "B", "serviceEndpoint": []any{"https://b.example/"}, "extra": 1.0}}, "alsoKnownAs": []any{"https://two.example/"}},
			M{"service": []any{M{"id": "s", "type": "A", "serviceEndpoint": "https://a.example/"}}}, M{})
		dids := []string{did, "did:sidetree:EiOtherSuffix"}
		type sym struct {
			d   M
			did string
		}
		var syms []sym
		for _, d := range hist {
			for _, x := range dids {
				syms = append(syms, sym{d, x})
			}
		}
		r.Extra["history_symbols"] = len(syms)
		depth3 := r.Thorough()
		hOpts := optCases
		if !r.Thorough() {
			hOpts = []optCase{optCases[0], optCases[1], optCases[2], optCases[3], optCases[15], optCases[16]}
		}
		var seqs int64
		core.Parallel(len(syms)*len(hOpts), func(job int) {
			oc, a := hOpts[job/len(syms)], job%len(syms)
			var n int64
			for b := range syms {
				thirds := []int{a}
				if depth3 {
					thirds = thirds[:0]
					for c := range syms {
						thirds = append(thirds, c)
					}
				}
				for _, c := range thirds {
					seq := []int{a, b, c}
					id := fmt.Sprintf("history/%s/%d-%d-%d", oc.name, a, b, c)
					n++
					r.Case(id, func() *core.Fail {
						tr := didtransformer.New(oc.mk()...)
						var held []*document.ResolutionResult
						var wants []any
						for step, si := range seq {
							sy := syms[si]
							inf := protocol.TransformationInfo{"id": sy.did, "published": true}
							res, err := tr.TransformDocument(&protocol.ResolutionModel{Doc: toDoc(sy.d)}, inf)
							want, ok := resolution.Document(gen(sy.d).(M), sy.did, oc.o)
							det := M{"options": oc.name, "sequence_of_documents": []any{syms[seq[0]].d, syms[seq[1]].d, syms[seq[2]].d}, "sequence_of_dids": []any{syms[seq[0]].did, syms[seq[1]].did, syms[seq[2]].did}, "failing_step": step}
							if !ok {
								if err == nil {
									return &core.Fail{Key: id, What: "key type without a context in the configured map transformed without error", Detail: det}
								}
								continue
							}
							if err != nil {
								return &core.Fail{Key: id, What: fmt.Sprintf("step %d on a shared transformer failed: %v", step, err), Detail: det}
							}
							if got := gen(res.Document); !jcs.Equal(got, gen(want)) {
								return &core.Fail{Key: id, What: fmt.Sprintf("step %d of a sequence on one shared transformer: document %s differs from the expected %s (the result depends on what was transformed before)", step, core.J(got), core.J(gen(want))), Detail: det}
							}
							held, wants = append(held, res), append(wants, gen(want))
							// results handed out earlier stay what they were
							for hi, h := range held {
								if got := gen(h.Document); !jcs.Equal(got, wants[hi]) {
									det["failing_step"] = hi
									return &core.Fail{Key: id, What: fmt.Sprintf("the result of step %d was changed by the transformation of step %d on the same transformer: now %s, was %s", hi, step, core.J(got), core.J(wants[hi])), Detail: det}
								}
							}
						}
						return nil
					})
				}
			}
			atomic.AddInt64(&seqs, n)
		})
		r.Extra["history_sequences"] = seqs
		r.AddDistinct(seqs)
	}

	// ---------- metadata combinations (both transformers)
	type mdCase struct {
		s         resolution.State
		published bool
		cid, eid  any
	}
	var mds []mdCase
	for _, uc := range []string{"", "EiUC"} {
		for _, rc := range []string{"", "EiRC"} {
			for _, ao := range []any{nil, "origin.example", M{"o": []any{1.0}}} {
				for _, de := range []bool{false, true} {
					// (created, updated, has version): never updated; updated later; updated at the very anchoring time of the creation
					// (two transactions of one block) and, as data, before it
					for _, times := range [][3]uint64{{0, 0, 0}, {1600000000, 0, 1}, {1600000000, 1600000100, 1}, {1600000000, 1600000000, 1}, {1600000000, 1599999999, 1}, {1, 1, 1},
						// width boundaries of the seconds count: 2^31, 2^32, and the last second / first second whose nanosecond count fits / no longer fits int64
						// (a formatter that goes through time.Duration wraps there), up to the last second of year 9999
						{2147483647, 2147483648, 1}, {4294967295, 4294967296, 1}, {9223372036, 9223372037, 1}, {9223372037, 253402300799, 1}, {253402300799, 9223372036, 1}} {
						for _, pub := range []bool{true, false} {
							for _, ids := range [][2]any{{nil, nil}, {"did:x:c", []any{"did:x:c", "did:x:e"}}} {
								s := resolution.State{UpdateCommitment: uc, RecoveryCommitment: rc, AnchorOrigin: ao, Deactivated: de, CreatedTime: times[0], UpdatedTime: times[1]}
								if times[2] == 1 {
									s.VersionID = "version-1"
								}
								if !pub && times[0] != 0 && false {
									continue
								}
								mds = append(mds, mdCase{s, pub, ids[0], ids[1]})
							}
						}
					}
				}
			}
		}
	}
	for mi, mc := range mds {
		mc := mc
		id := fmt.Sprintf("metadata/%d", mi)
		r.Case(id, func() *core.Fail {
			inf := protocol.TransformationInfo{"id": did, "published": mc.published}
			if mc.cid != nil {
				inf["canonicalId"] = mc.cid
				inf["equivalentId"] = mc.eid
			}
			mk := func() *protocol.ResolutionModel {
				return &protocol.ResolutionModel{Doc: toDoc(M{"alsoKnownAs": []any{"https://x.example/"}}), UpdateCommitment: mc.s.UpdateCommitment, RecoveryCommitment: mc.s.RecoveryCommitment,
					AnchorOrigin: mc.s.AnchorOrigin, Deactivated: mc.s.Deactivated, CreatedTime: mc.s.CreatedTime, UpdatedTime: mc.s.UpdatedTime, VersionID: mc.s.VersionID}
			}
			want := gen(resolution.Metadata(mc.s, mc.published, mc.cid, mc.eid))
			r1, e1 := didtransformer.New().TransformDocument(mk(), inf)
			r2, e2 := doctransformer.New().TransformDocument(mk(), inf)
			det := M{"state": mc.s, "published": mc.published}
			if e1 != nil || e2 != nil {
				return &core.Fail{Key: id, What: fmt.Sprintf("transformation failed: %v %v", e1, e2), Detail: det}
			}
			for ti, res := range []*document.ResolutionResult{r1, r2} {
				if !jcs.Equal(gen(res.DocumentMetadata), want) {
					return &core.Fail{Key: id, What: fmt.Sprintf("transformer %d: metadata %s differs from the expected %s", ti, core.J(res.DocumentMetadata), core.J(want)), Detail: det}
				}
			}
			if r2.Document.ID() != did {
				return &core.Fail{Key: id, What: "generic transformer did not set the document id", Detail: det}
			}
			return nil
		})
		r.Observe(id)
	}
	r.Extra["metadata_cases"] = len(mds)

	// ---------- operation lists
	type sym struct {
		t, n uint64
		ref  string
	}
	var syms []sym
	for t := uint64(0); t < 3; t++ {
		for n := uint64(0); n < 3; n++ {
			for _, ref := range []string{"refA", "refB"} {
				syms = append(syms, sym{t, n, ref})
			}
		}
	}
	var total int64
	var rec func(prefix []int)
	var lists [][]int
	rec = func(prefix []int) {
		if len(prefix) > 0 {
			lists = append(lists, append([]int{}, prefix...))
		}
		if len(prefix) == listLen {
			return
		}
		for i := range syms {
			rec(append(prefix, i))
		}
	}
	// enumerate by first symbol in parallel to bound memory
	core.Parallel(len(syms), func(first int) {
		var local [][]int
		var rec2 func(prefix []int)
		rec2 = func(prefix []int) {
			local = append(local, append([]int{}, prefix...))
			if len(prefix) == listLen {
				return
			}
			for i := range syms {
				rec2(append(prefix, i))
			}
		}
		rec2([]int{first})
		tr := didtransformer.New(didtransformer.WithIncludePublishedOperations(true), didtransformer.WithIncludeUnpublishedOperations(true))
		inf := protocol.TransformationInfo{"id": did, "published": true}
		for _, l := range local {
			if f := judgeList(tr, inf, syms2ops(l, func(i int) (uint64, uint64, string) { return syms[l[i]].t, syms[l[i]].n, syms[l[i]].ref })); f != nil {
				id := "oplist/" + fmt.Sprint(l)
				l := l
				r.Case(id, func() *core.Fail {
					g := judgeList(tr, inf, syms2ops(l, func(i int) (uint64, uint64, string) { return syms[l[i]].t, syms[l[i]].n, syms[l[i]].ref }))
					if g != nil {
						g.Key = classifyList(l, func(i int) (uint64, uint64) { return syms[l[i]].t, syms[l[i]].n })
					}
					return g
				})
			}
		}
		r.Eval(int64(len(local)))
		r.AddDistinct(int64(len(local)))
		_ = total
	})
	_ = rec
	_ = lists
	// values from the whole 64-bit range: all sequences of length <= 3 over (time, number) in {0, 1, 2^63-1, 2^63, 2^63+1, 2^64-1}^2
	// (an order decided by subtraction or by a signed comparison goes wrong when two values are more than 2^63 apart)
	{
		wide := []uint64{0, 1, 1<<63 - 1, 1 << 63, 1<<63 + 1, 1<<64 - 1}
		var ws []sym
		for _, t := range wide {
			for _, n := range wide {
				ws = append(ws, sym{t, n, []string{"refA", "refB"}[len(ws)%2]})
			}
		}
		tr := didtransformer.New(didtransformer.WithIncludePublishedOperations(true), didtransformer.WithIncludeUnpublishedOperations(true))
		inf := protocol.TransformationInfo{"id": did, "published": true}
		core.Parallel(len(ws), func(first int) {
			var local [][]int
			var rec2 func(prefix []int)
			rec2 = func(prefix []int) {
				local = append(local, append([]int{}, prefix...))
				if len(prefix) == 3 {
					return
				}
				for i := range ws {
					rec2(append(prefix, i))
				}
			}
			rec2([]int{first})
			for _, l := range local {
				l := l
				at := func(i int) (uint64, uint64, string) { return ws[l[i]].t, ws[l[i]].n, ws[l[i]].ref }
				if f := judgeList(tr, inf, syms2ops(l, at)); f != nil {
					id := "oplist-wide/" + fmt.Sprint(l)
					r.Case(id, func() *core.Fail {
						g := judgeList(tr, inf, syms2ops(l, at))
						if g != nil {
							g.Key = "oplist-wide/" + classifyList(l, func(i int) (uint64, uint64) { return ws[l[i]].t, ws[l[i]].n })
						}
						return g
					})
				}
			}
			r.Eval(int64(len(local)))
			r.AddDistinct(int64(len(local)))
		})
		r.Class("wide-operation-lists")
	}
	// long lists: library sorts change their algorithm with the length (Go's sort.Slice: insertion sort up to 12 elements, pdqsort
	// above; the latter is not stable), so lists of 13-100 operations are presented in every rotation of the anchoring order, reversed,
	// interleaved and organ-pipe, with blocks of 1, 2, 3, n/2 and n operations that share a transaction time
	{
		type longCase struct {
			n, block int
			order    string
			perm     []int
		}
		var longs []longCase
		lengths := []int{13, 14, 16, 20, 33, 64}
		if r.Thorough() {
			lengths = append(lengths, 15, 17, 25, 32, 50, 100, 257)
		}
		for _, n := range lengths {
			for _, block := range []int{1, 2, 3, n / 2, n} {
				id := make([]int, n)
				for i := range id {
					id[i] = i
				}
				add := func(order string, perm []int) {
					longs = append(longs, longCase{n, block, order, append([]int{}, perm...)})
				}
				for k := 0; k < n; k++ {
					add(fmt.Sprintf("rotated-%d", k), append(append([]int{}, id[k:]...), id[:k]...))
				}
				rev := make([]int, n)
				for i := range rev {
					rev[i] = n - 1 - i
				}
				add("reversed", rev)
				var inter, pipe []int
				for i := 0; i < n; i += 2 {
					inter = append(inter, i)
				}
				for i := 1; i < n; i += 2 {
					inter = append(inter, i)
				}
				add("evens-then-odds", inter)
				for i := 0; i < n; i += 2 {
					pipe = append(pipe, i)
				}
				for i := n - 1 - n%2; i >= 1; i -= 2 {
					pipe = append(pipe, i)
				}
				add("organ-pipe", pipe)
			}
		}
		tr := didtransformer.New(didtransformer.WithIncludePublishedOperations(true), didtransformer.WithIncludeUnpublishedOperations(true))
		inf := protocol.TransformationInfo{"id": did, "published": true}
		core.Parallel(len(longs), func(li int) {
			lc := longs[li]
			at := func(i int) (uint64, uint64, string) {
				k := lc.perm[i] // position in anchoring order
				return uint64(100 + k/lc.block), uint64(k % lc.block), fmt.Sprintf("ref-%d", k)
			}
			id := fmt.Sprintf("oplist-long/n=%d/block=%d/%s", lc.n, lc.block, lc.order)
			r.Case(id, func() *core.Fail {
				g := judgeList(tr, inf, syms2ops(lc.perm, at))
				if g != nil {
					g.Key = fmt.Sprintf("oplist-long/n=%d/block=%d", lc.n, lc.block)
				}
				return g
			})
		})
		r.Eval(int64(len(longs)))
		r.AddDistinct(int64(len(longs)))
		r.Extra["long_operation_lists"] = len(longs)
	}
	r.Sample(M{"operation_list": []M{{"time": 1, "number": 2, "ref": "refA"}, {"time": 2, "number": 0, "ref": "refB"}, {"time": 1, "number": 2, "ref": "refB"}}})
}

func syms2ops(l []int, at func(i int) (uint64, uint64, string)) []*operation.AnchoredOperation {
	out := make([]*operation.AnchoredOperation, len(l))
	for i := range l {
		t, n, ref := at(i)
		out[i] = &operation.AnchoredOperation{Type: operation.TypeUpdate, OperationRequest: []byte(fmt.Sprintf("op-%d", i)), TransactionTime: t, TransactionNumber: n,
			ProtocolVersion: uint64(i), CanonicalReference: ref, AnchorOrigin: fmt.Sprintf("o%d", i)}
	}
	return out
}

// classifyList keys a failing list by the order relation of its first out-of-order adjacent pair (in input order).
func classifyList(l []int, at func(i int) (uint64, uint64)) string {
	return fmt.Sprintf("oplist/len=%d/first-two=%v", len(l), func() string {
		if len(l) < 2 {
			return "single"
		}
		t0, n0 := at(0)
		t1, n1 := at(1)
		return fmt.Sprintf("(%d,%d),(%d,%d)", t0, n0, t1, n1)
	}())
}

type outOp struct {
	Operation          []byte `json:"operation"`
	TransactionTime    uint64 `json:"transactionTime"`
	TransactionNumber  uint64 `json:"transactionNumber"`
	ProtocolVersion    uint64 `json:"protocolVersion"`
	CanonicalReference string `json:"canonicalReference"`
	AnchorOrigin       any    `json:"anchorOrigin"`
	Type               string `json:"type"`
}

func judgeList(tr *didtransformer.Transformer, inf protocol.TransformationInfo, opsIn []*operation.AnchoredOperation) *core.Fail {
	pub := append([]*operation.AnchoredOperation{}, opsIn...)
	unpub := make([]*operation.AnchoredOperation, len(opsIn))
	for i, o := range opsIn {
		c := *o
		unpub[i] = &c
	}
	byReq := map[string]*operation.AnchoredOperation{}
	for _, o := range opsIn {
		byReq[string(o.OperationRequest)] = o
	}
	rm := &protocol.ResolutionModel{Doc: document.Document{}, PublishedOperations: pub, UnpublishedOperations: unpub}
	res, err := tr.TransformDocument(rm, inf)
	desc := func() string {
		var s []string
		for _, o := range opsIn {
			s = append(s, fmt.Sprintf("(t%d,n%d,%s)", o.TransactionTime, o.TransactionNumber, o.CanonicalReference))
		}
		return strings.Join(s, " ")
	}
	if err != nil {
		return &core.Fail{Key: "x", What: "transformation failed: " + err.Error(), Detail: M{"list": desc()}}
	}
	method, _ := gen(res.DocumentMetadata).(M)["method"].(M)
	decode := func(v any) []outOp {
		b, _ := json.Marshal(v)
		var l []outOp
		_ = json.Unmarshal(b, &l)
		return l
	}
	check := func(name string, out []outOp, dedupe bool) *core.Fail {
		var order []string
		seenRef := map[string]bool{}
		for i, o := range out {
			in, ok := byReq[string(o.Operation)]
			if !ok {
				return &core.Fail{Key: "x", What: name + ": unknown operation in output", Detail: M{"list": desc()}}
			}
			if o.TransactionTime != in.TransactionTime || o.ProtocolVersion != in.ProtocolVersion || !jcs.Equal(gen(o.AnchorOrigin), gen(in.AnchorOrigin)) || o.Type != string(in.Type) {
				return &core.Fail{Key: "x", What: name + ": operation fields not preserved", Detail: M{"list": desc()}}
			}
			if dedupe && (o.TransactionNumber != in.TransactionNumber || o.CanonicalReference != in.CanonicalReference) {
				return &core.Fail{Key: "x", What: name + ": operation fields not preserved", Detail: M{"list": desc()}}
			}
			order = append(order, fmt.Sprintf("(t%d,n%d)", in.TransactionTime, in.TransactionNumber))
			if i > 0 {
				prev := byReq[string(out[i-1].Operation)]
				if prev.TransactionTime > in.TransactionTime || (prev.TransactionTime == in.TransactionTime && prev.TransactionNumber > in.TransactionNumber) {
					return &core.Fail{Key: "x", What: fmt.Sprintf("%s operations are not in anchoring order (time, then number): input %s, output order %v...", name, desc(), order), Detail: M{"list": desc(), "output_order": order}}
				}
			}
			if dedupe {
				if seenRef[in.CanonicalReference] {
					return &core.Fail{Key: "x", What: name + ": duplicate canonical reference in output", Detail: M{"list": desc()}}
				}
				seenRef[in.CanonicalReference] = true
			}
		}
		if dedupe {
			refs := map[string]bool{}
			for _, o := range opsIn {
				refs[o.CanonicalReference] = true
			}
			if len(refs) != len(out) {
				return &core.Fail{Key: "x", What: fmt.Sprintf("%s: %d operations for %d distinct canonical references", name, len(out), len(refs)), Detail: M{"list": desc()}}
			}
		} else if len(out) != len(opsIn) {
			return &core.Fail{Key: "x", What: fmt.Sprintf("%s: %d operations in, %d out", name, len(opsIn), len(out)), Detail: M{"list": desc()}}
		}
		return nil
	}
	if f := check("published", decode(method["publishedOperations"]), true); f != nil {
		return f
	}
	return check("unpublished", decode(method["unpublishedOperations"]), false)
}

var _ = sort.Strings
