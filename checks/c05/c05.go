// Package c05: canonicalization is RFC 8785. Exhaustive over bounded alphabets of strings,
// member names, boundary doubles, spellings, small trees and whitespace placements.
package c05

import (
	"bytes"
	"fmt"
	"math"
	"math/big"
	"strconv"
	"strings"
	"sync/atomic"

	"verif/engine/core"
	"verif/ref/jcs"

	"github.com/trustbloc/sidetree-go/pkg/canonicalizer"
)

var alphabet []rune

func init() {
	for c := rune(0); c < 0x20; c++ {
		alphabet = append(alphabet, c)
	}
	alphabet = append(alphabet, '"', '\\', '/', 0x7f, 0x80, 0x7ff, 0x800, 0xd7ff, 0xe000, 0xfffc, 0xfffd, 0xffff, 0x10000, 0x10ffff, 'a', 'A', '<', '>', '&', 0x2028)
}

// spellings of one code point inside a JSON string literal.
func spellings(c rune) []string {
	var out []string
	add := func(s string) {
		for _, o := range out {
			if o == s {
				return
			}
		}
		out = append(out, s)
	}
	if c >= 0x20 && c != '"' && c != '\\' {
		add(string(c))
	}
	switch c {
	case '\b':
		add(`\b`)
	case '\t':
		add(`\t`)
	case '\n':
		add(`\n`)
	case '\f':
		add(`\f`)
	case '\r':
		add(`\r`)
	case '"':
		add(`\"`)
	case '\\':
		add(`\\`)
	case '/':
		add(`\/`)
	}
	if c < 0x10000 {
		add(fmt.Sprintf(`\u%04x`, c))
		add(fmt.Sprintf(`\u%04X`, c))
	} else {
		c2 := c - 0x10000
		hi, lo := 0xd800+(c2>>10), 0xdc00+(c2&0x3ff)
		add(fmt.Sprintf(`\u%04x\u%04x`, hi, lo))
		add(fmt.Sprintf(`\u%04X\u%04X`, hi, lo))
	}
	return out
}

type ctx struct {
	r     *core.Run
	evals int64
	fails int64
}

// one checks oracles (a) reference bytes, (b) idempotence, (c) value preservation on one input.
func (c *ctx) one(kind string, input []byte) []byte {
	atomic.AddInt64(&c.evals, 1)
	f := judge(input)
	if f == nil {
		out, _ := canonicalizer.MarshalCanonical(input)
		return out
	}
	atomic.AddInt64(&c.fails, 1)
	id := kind + ":" + short(input)
	if atomic.LoadInt64(&c.fails) <= 200 {
		c.r.Case(id, func() *core.Fail {
			g := judge(input)
			if g != nil {
				g.Key = id
			}
			return g
		})
	}
	return nil
}

// short abbreviates an input of more than 300 bytes to its head, tail and length (wide documents).
func short(b []byte) string {
	if len(b) <= 300 {
		return string(b)
	}
	return fmt.Sprintf("%s ... %s (%d bytes)", b[:120], b[len(b)-60:], len(b))
}

func judge(input []byte) *core.Fail {
	det := map[string]any{"input": short(input)}
	if len(input) <= 300 {
		det["input_hex"] = fmt.Sprintf("%x", input)
	}
	v, err := jcs.Parse(input)
	if err != nil {
		core.Engine("c05: generator produced JSON the reference parser refuses: %q: %v", input, err)
	}
	want, err := jcs.Canon(v)
	if err != nil {
		core.Engine("c05: reference cannot canonicalize %q: %v", input, err)
	}
	got, err := canonicalizer.MarshalCanonical(input)
	det["expected"] = short(want)
	if err != nil {
		det["error"] = err.Error()
		return &core.Fail{Key: "x", What: "valid I-JSON input refused: " + err.Error(), Detail: det}
	}
	det["observed"] = short(got)
	if !bytes.Equal(got, want) {
		return &core.Fail{Key: "x", What: fmt.Sprintf("output %q differs from RFC 8785 form %q", short(got), short(want)), Detail: det}
	}
	again, err := canonicalizer.MarshalCanonical(got)
	if err != nil || !bytes.Equal(again, got) {
		return &core.Fail{Key: "x", What: fmt.Sprintf("output is not a fixed point: %q -> %q (%v)", short(got), short(again), err), Detail: det}
	}
	back, err := jcs.Parse(got)
	if err != nil || !jcs.Equal(back, v) {
		return &core.Fail{Key: "x", What: fmt.Sprintf("output %q does not denote the input value (%v)", short(got), err), Detail: det}
	}
	return nil
}

// group checks (d): all inputs of one value give identical bytes.
func (c *ctx) group(kind string, inputs [][]byte) {
	var first []byte
	for i, in := range inputs {
		out := c.one(kind, in)
		if out == nil {
			continue
		}
		if i == 0 || first == nil {
			first = out
			continue
		}
		if !bytes.Equal(out, first) {
			id := kind + ":invariance:" + short(inputs[0]) + " vs " + short(in)
			a, b := inputs[0], in
			c.r.Case(id, func() *core.Fail {
				x, _ := canonicalizer.MarshalCanonical(a)
				y, _ := canonicalizer.MarshalCanonical(b)
				if bytes.Equal(x, y) {
					return nil
				}
				return &core.Fail{Key: id, What: fmt.Sprintf("two spellings of one value canonicalize differently: %q vs %q", x, y),
					Detail: map[string]any{"a": string(a), "b": string(b)}}
			})
		}
	}
}

func Run(r *core.Run) {
	c := &ctx{r: r}
	maxLen := core.Pick(r, 2, 3)
	r.Rule = fmt.Sprintf("strings and member names of length <= %d over %d code-point classes x every spelling combination; objects of 2-3 members over the name alphabet in every input order; "+
		"boundary doubles (10^e +-20ulp, 2^e +-3ulp, k*10^j, thorough: 12-bit mantissa prefixes x all exponents) x 6-9 spellings, and for every 8th of them (thorough: all) the exact midpoint to the next double and the midpoint +- 10^-190 as 200-digit tokens; trees depth<=3 width<=2; 4 whitespace bytes at every token boundary (<=2 insertions); "+
		"Go-value path; distinct = distinct JSON values (groups), non-trivial = every group (each differs from its canonical form in at least one spelling or order)", maxLen, len(alphabet))
	r.Assumptions = []string{"reference JCS built on encoding/json decoding and strconv shortest round-trip digits", "inputs restricted to I-JSON (no lone surrogates, duplicate names, non-finite numbers)"}
	var groups int64

	// ---- 1. strings / names
	var strs [][]rune
	var gen func(prefix []rune, n int)
	gen = func(prefix []rune, n int) {
		if len(prefix) > 0 {
			strs = append(strs, append([]rune{}, prefix...))
		}
		if n == 0 {
			return
		}
		for _, a := range alphabet {
			gen(append(prefix, a), n-1)
		}
	}
	gen(nil, maxLen)
	strs = append(strs, []rune{}) // empty string
	core.Parallel(len(strs), func(i int) {
		s := strs[i]
		sp := [][]string{}
		for _, cp := range s {
			sp = append(sp, spellings(cp))
		}
		var lits []string
		var rec func(k int, acc string)
		rec = func(k int, acc string) {
			if k == len(sp) {
				lits = append(lits, acc)
				return
			}
			for _, x := range sp[k] {
				rec(k+1, acc+x)
			}
		}
		rec(0, "")
		var asValue, asName [][]byte
		for _, l := range lits {
			asValue = append(asValue, []byte(`["`+l+`"]`))
			asName = append(asName, []byte(`{"`+l+`":0}`))
		}
		c.group("string", asValue)
		c.group("name", asName)
		atomic.AddInt64(&groups, 2)
		// Go value path (json.Marshal then canonicalize)
		goVal := map[string]any{string(s): []any{string(s)}}
		want := jcs.MustCanonGo(goVal)
		got, err := canonicalizer.MarshalCanonical(goVal)
		atomic.AddInt64(&c.evals, 1)
		if err != nil || !bytes.Equal(got, want) {
			id := fmt.Sprintf("govalue:%q", string(s))
			r.Case(id, func() *core.Fail {
				got, err := canonicalizer.MarshalCanonical(goVal)
				if err == nil && bytes.Equal(got, want) {
					return nil
				}
				return &core.Fail{Key: id, What: fmt.Sprintf("Go value canonicalized to %q (%v), expected %q", got, err, want), Detail: map[string]any{"string_runes": fmt.Sprint(s)}}
			})
		}
	})
	r.Class("strings")
	r.Sample(map[string]any{"kind": "string spellings of U+000A U+10000", "inputs": []string{`["\n𐀀"]`, `["\u000a𐀀"]`, `["\u000A𐀀"]`}})

	// ---- 2. member order
	names := []string{}
	for _, a := range alphabet {
		if a >= 0x20 && a != '"' && a != '\\' {
			names = append(names, string(a))
		} else {
			names = append(names, spellings(a)[len(spellings(a))-1])
		}
	}
	multi := []string{"", "a", "aa", "ab", "a\\u0000", "b", "\\ud83d\\ude00", "\\ufb33", "\\ufb33a", "\\ud83d\\ude00a", "€", "é", "1", "10", "2", "A", "Aa",
		// supplementary characters that share their high surrogate (the low one decides), the neighbouring blocks, and tails behind them
		"\\ud83d\\ude01", "\\ud83d\\ude01a", "\\ud83d\\ude00b", "\\ud83d\\udc00", "\\ud83c\\udfff", "\\ud83e\\udc00"}
	objs := func(ns []string, k int) [][]string {
		var out [][]string
		var rec func(start int, cur []string)
		rec = func(start int, cur []string) {
			if len(cur) == k {
				out = append(out, append([]string{}, cur...))
				return
			}
			for i := start; i < len(ns); i++ {
				rec(i+1, append(cur, ns[i]))
			}
		}
		rec(0, nil)
		return out
	}
	var sets [][]string
	sets = append(sets, objs(names, 2)...)
	sets = append(sets, objs(multi, 2)...)
	sets = append(sets, objs(multi, 3)...)
	if r.Thorough() {
		sets = append(sets, objs(names, 3)...)
	} else {
		sets = append(sets, objs(names[28:], 3)...)
	}
	core.Parallel(len(sets), func(i int) {
		set := sets[i]
		var inputs [][]byte
		permute(len(set), func(p []int) {
			var sb strings.Builder
			sb.WriteByte('{')
			for j, idx := range p {
				if j > 0 {
					sb.WriteByte(',')
				}
				fmt.Fprintf(&sb, `"%s":%d`, set[idx], idx)
			}
			sb.WriteByte('}')
			inputs = append(inputs, []byte(sb.String()))
		})
		c.group("order", inputs)
		atomic.AddInt64(&groups, 1)
	})
	// ---- 2b. long objects: n members with plain sorted names, and every ordered pair of the special names put after them, before
	// them and after them in reverse (an insertion that looks at the tail, the head or the length of the list first must still sort)
	{
		type longCase struct {
			n    int
			x, y string
		}
		var longs []longCase
		for _, n := range []int{10, 11, 12, 13, 20, 64} {
			for _, x := range multi {
				for _, y := range multi {
					if x != y {
						longs = append(longs, longCase{n, x, y})
					}
				}
			}
		}
		core.Parallel(len(longs), func(i int) {
			lc := longs[i]
			var filler, rev []string
			for k := 0; k < lc.n; k++ {
				filler = append(filler, fmt.Sprintf(`"k%02d":%d`, k, k))
			}
			for k := lc.n - 1; k >= 0; k-- {
				rev = append(rev, filler[k])
			}
			mx, my := fmt.Sprintf(`"%s":"x"`, lc.x), fmt.Sprintf(`"%s":"y"`, lc.y)
			f, rv := strings.Join(filler, ","), strings.Join(rev, ",")
			c.group("long-object", [][]byte{[]byte("{" + f + "," + mx + "," + my + "}"), []byte("{" + f + "," + my + "," + mx + "}"),
				[]byte("{" + mx + "," + my + "," + f + "}"), []byte("{" + rv + "," + my + "," + mx + "}"), []byte("{" + mx + "," + rv + "," + my + "}")})
			atomic.AddInt64(&groups, 1)
		})
		r.Class("long-objects")
	}
	// ---- 2c. wide documents: many values at one level (counters that are kept per document, such as a nesting depth, see a wide
	// document as well as a deep one); 9999 / 10001 (thorough: also 10000 / 30000) strings, members, numbers, empty arrays and objects
	{
		var wides [][][]byte
		wideSizes := []int{9999, 10001}
		if r.Thorough() {
			wideSizes = []int{9999, 10000, 10001, 30000}
		}
		for _, n := range wideSizes {
			var strsA, strsB, mem, memRev, nums, arrs, objs3 []string
			for k := 0; k < n; k++ {
				strsA = append(strsA, fmt.Sprintf(`"s%d"`, k))
				strsB = append(strsB, fmt.Sprintf(` "s%d"`, k))
				mem = append(mem, fmt.Sprintf(`"m%06d":"v%d"`, k, k))
				nums = append(nums, strconv.Itoa(k))
				arrs = append(arrs, "[]")
				objs3 = append(objs3, `{"a":["x"]}`)
			}
			for k := n - 1; k >= 0; k-- {
				memRev = append(memRev, mem[k])
			}
			wides = append(wides, [][]byte{[]byte("[" + strings.Join(strsA, ",") + "]"), []byte("[" + strings.Join(strsB, ",") + " ]")},
				[][]byte{[]byte("{" + strings.Join(mem, ",") + "}"), []byte("{" + strings.Join(memRev, ",") + "}")},
				[][]byte{[]byte("[" + strings.Join(nums, ",") + "]")}, [][]byte{[]byte("[" + strings.Join(arrs, ",") + "]")}, [][]byte{[]byte("[" + strings.Join(objs3, ",") + "]")},
				[][]byte{[]byte(`{"ids":[` + strings.Join(strsA, ",") + `],"n":1}`)})
		}
		core.Parallel(len(wides), func(i int) {
			c.group("wide", wides[i])
			atomic.AddInt64(&groups, 1)
		})
		r.Class("wide-documents")
	}
	r.Class("orders")
	r.Sample(map[string]any{"kind": "member order (UTF-16 vs code point)", "inputs": []string{`{"😀":0,"דּ":1}`, `{"דּ":1,"😀":0}`}})

	// ---- 3. numbers
	var vals []float64
	addUlps := func(f float64, n int) {
		if math.IsInf(f, 0) || math.IsNaN(f) {
			return
		}
		b := math.Float64bits(f)
		for d := -n; d <= n; d++ {
			nb := int64(b) + int64(d)
			if nb < 0 {
				continue
			}
			g := math.Float64frombits(uint64(nb))
			if math.IsInf(g, 0) || math.IsNaN(g) {
				continue
			}
			vals = append(vals, g)
		}
	}
	for e := -330; e <= 310; e++ {
		f, err := strconv.ParseFloat(fmt.Sprintf("1e%d", e), 64)
		if err == nil {
			addUlps(f, 20)
		}
	}
	for e := -1074; e <= 1023; e++ {
		addUlps(math.Ldexp(1, e), 3)
	}
	for k := 1; k <= 999; k++ {
		for j := 9; j <= 21; j++ {
			f, _ := strconv.ParseFloat(fmt.Sprintf("%de%d", k, j), 64)
			addUlps(f, 1)
		}
	}
	for _, s := range []string{"0", "5e-324", "1.7976931348623157e308", "9007199254740992", "9007199254740993", "4.5", "0.002", "0.000001", "0.0000001", "1e21", "999999999999999900000", "1e23", "123456789012345680000", "295147905179352830000", "5.9e20",
		"9999999999999999", "9007199254740995", "18014398509481985", "99999999999999999", "1000000000000001", "4503599627370497", "999999999999999", "1234567890123456", "72057594037927937"} {
		f, _ := strconv.ParseFloat(s, 64)
		addUlps(f, 4)
	}
	nBase := len(vals)
	r.Extra["boundary_doubles"] = nBase * 2
	numGroup := func(f float64) {
		var ins [][]byte
		add := func(s string) { ins = append(ins, []byte("["+s+"]")) }
		sh := strconv.FormatFloat(f, 'g', -1, 64)
		add(sh)
		e17 := strconv.FormatFloat(f, 'e', 17, 64)
		add(e17)
		add(strings.ToUpper(e17))
		m, ex, _ := strings.Cut(strconv.FormatFloat(f, 'e', -1, 64), "e")
		add(m + "e" + ex[:1] + "00" + ex[1:])
		if ex[0] == '+' {
			add(m + "E" + ex[1:])
		}
		if fs := strconv.FormatFloat(f, 'f', -1, 64); len(fs) < 420 {
			add(fs)
			if !strings.Contains(fs, ".") {
				add(fs + ".0")
				add(fs + ".000e0")
			}
		}
		// integers: the exact decimal expansion and the neighbouring integers that still round to the same double
		// (spellings a sender may legitimately use for a value above 2^53)
		if a := math.Abs(f); a >= 1e15 && a < 1e22 && f == math.Trunc(f) {
			exact := strconv.FormatFloat(f, 'f', 0, 64)
			add(exact)
			if bi, ok := new(big.Int).SetString(exact, 10); ok {
				for d := int64(-3); d <= 3; d++ {
					c := new(big.Int).Add(bi, big.NewInt(d)).String()
					if g, err := strconv.ParseFloat(c, 64); err == nil && g == f && c != exact {
						add(c)
					}
				}
			}
		}
		if f == 0 {
			add("-0")
			add("-0.0")
			add("0.0")
			add("0e0")
			add("-0E+5")
		}
		c.group("number", ins)
	}
	// long decimal tokens next to a rounding boundary: the exact midpoint between a double and its upper neighbour (a tie, about
	// 50-190 significant digits), and the midpoint plus / minus 10^-190 - tokens whose value is decided by a digit far behind the 17th
	halfway := func(f float64) {
		g := math.Nextafter(f, math.Inf(1))
		if a := math.Abs(f); f == 0 || g == 0 || math.IsInf(g, 0) || a < 1e-25 || a > 1e25 {
			return
		}
		bf := func(x float64) *big.Float { return new(big.Float).SetPrec(4000).SetFloat64(x) }
		mid := new(big.Float).SetPrec(4000).Add(bf(f), bf(g))
		mid.Quo(mid, bf(2))
		tiny := new(big.Float).SetPrec(4000).Quo(bf(1), new(big.Float).SetPrec(4000).SetInt(new(big.Int).Exp(big.NewInt(10), big.NewInt(190), nil)))
		sh := func(x float64) string { return strconv.FormatFloat(x, 'g', -1, 64) }
		tie := strings.TrimRight(mid.Text('f', 200), "0")
		if strings.HasSuffix(tie, ".") {
			tie += "0"
		}
		if t, err := strconv.ParseFloat(tie, 64); err == nil {
			c.group("number", [][]byte{[]byte("[" + sh(t) + "]"), []byte("[" + tie + "]")})
		}
		up := new(big.Float).SetPrec(4000).Add(mid, tiny).Text('f', 195)
		down := new(big.Float).SetPrec(4000).Sub(mid, tiny).Text('f', 195)
		c.group("number", [][]byte{[]byte("[" + sh(g) + "]"), []byte("[" + up + "]")})
		c.group("number", [][]byte{[]byte("[" + sh(f) + "]"), []byte("[" + down + "]")})
	}
	core.Parallel(nBase, func(i int) {
		numGroup(vals[i])
		if vals[i] != 0 {
			numGroup(-vals[i])
		}
		if r.Thorough() || i%8 == 0 {
			halfway(vals[i])
			halfway(-vals[i])
		}
	})
	r.Class("long-tokens-at-rounding-boundaries")
	atomic.AddInt64(&groups, int64(2*nBase))
	r.Class("numbers")
	r.Sample(map[string]any{"kind": "number spellings of 1e21 - 1ulp", "inputs": []string{"[999999999999999900000]", "[9.99999999999999868928e+20]", "[9.999999999999999E20]"}})
	if r.Thorough() {
		// every exponent x 12-bit mantissa prefix x {0...0, 1...1}; shortest spelling only (+ 17 digit)
		var done int64
		core.Parallel(2047, func(e int) {
			if r.Expired() {
				r.Cap("deadline during thorough number sweep")
				return
			}
			for p := uint64(0); p < 4096; p++ {
				for _, tail := range []uint64{0, (1 << 40) - 1} {
					bits := uint64(e)<<52 | p<<40 | tail
					f := math.Float64frombits(bits)
					if f == 0 {
						continue
					}
					for _, g := range []float64{f, -f} {
						in := []byte("[" + strconv.FormatFloat(g, 'e', 17, 64) + "]")
						c.one("number", in)
					}
					atomic.AddInt64(&done, 2)
				}
			}
		})
		atomic.AddInt64(&groups, done)
		r.Extra["mantissa_prefix_doubles"] = done
	}

	// ---- 4. structure
	leaves := []string{`"s"`, `1`, `true`, `false`, `null`, `{}`, `[]`}
	depth := 3
	level := append([]string{}, leaves...)
	for d := 2; d <= depth; d++ {
		next := append([]string{}, leaves...)
		for _, a := range level {
			next = append(next, "["+a+"]", `{"b":`+a+`}`)
		}
		if d < depth || r.Thorough() {
			for _, a := range level {
				for _, b := range level {
					next = append(next, "["+a+","+b+"]", `{"b":`+a+`,"a":`+b+`}`)
				}
			}
		} else {
			// quick: pairs over the previous level restricted to a 40-element stride
			for i, a := range level {
				for j, b := range level {
					if (i+j)%3 == 0 {
						next = append(next, "["+a+","+b+"]", `{"b":`+a+`,"a":`+b+`}`)
					}
				}
			}
		}
		level = next
	}
	var trees []string
	for _, t := range level {
		if t[0] == '[' || t[0] == '{' {
			trees = append(trees, t)
		}
	}
	r.Extra["trees"] = len(trees)
	core.Parallel(len(trees), func(i int) { c.one("tree", []byte(trees[i])) })
	atomic.AddInt64(&groups, int64(len(trees)))
	r.Class("trees")

	// ---- 5. whitespace at token boundaries
	docs := []string{`{"b":[1,"x y",true],"a":{"c":null,"":-0.5e1}}`, `[[],{},[{"k":[false]}]]`, `{" ":" ","n":1E3}`}
	ws := []string{" ", "\n", "\r", "\t"}
	for _, d := range docs {
		bounds := boundaries(d)
		base, _ := canonicalizer.MarshalCanonical([]byte(d))
		var inputs []string
		for i, p := range bounds {
			for _, w := range ws {
				inputs = append(inputs, d[:p]+w+d[p:])
				for _, q := range bounds[i:] {
					for _, w2 := range ws {
						inputs = append(inputs, d[:p]+w+d[p:q]+w2+d[q:])
					}
				}
			}
		}
		core.Parallel(len(inputs), func(i int) {
			out := c.one("ws", []byte(inputs[i]))
			if out != nil && !bytes.Equal(out, base) {
				id := "ws:invariance:" + inputs[i]
				r.Case(id, func() *core.Fail {
					o, _ := canonicalizer.MarshalCanonical([]byte(inputs[i]))
					if bytes.Equal(o, base) {
						return nil
					}
					return &core.Fail{Key: id, What: fmt.Sprintf("whitespace changed the canonical form: %q vs %q", o, base), Detail: map[string]any{"input": inputs[i]}}
				})
			}
		})
		atomic.AddInt64(&groups, 1)
	}
	r.Class("whitespace")

	r.Eval(c.evals)
	r.AddDistinct(groups)
	r.Require("strings", 1)
}

func permute(n int, f func(p []int)) {
	p := make([]int, n)
	for i := range p {
		p[i] = i
	}
	var rec func(k int)
	rec = func(k int) {
		if k == n {
			f(p)
			return
		}
		for i := k; i < n; i++ {
			p[k], p[i] = p[i], p[k]
			rec(k + 1)
			p[k], p[i] = p[i], p[k]
		}
	}
	rec(0)
}

// boundaries returns the byte offsets between tokens of a JSON text (never inside a string,
// number or literal), including start and end.
func boundaries(d string) []int {
	out := []int{0}
	i := 0
	for i < len(d) {
		switch ch := d[i]; {
		case ch == '"':
			i++
			for d[i] != '"' {
				if d[i] == '\\' {
					i++
				}
				i++
			}
			i++
		case strings.ContainsRune("{}[],:", rune(ch)):
			i++
		default:
			for i < len(d) && !strings.ContainsRune("{}[],:\"", rune(d[i])) {
				i++
			}
		}
		out = append(out, i)
	}
	return out
}
