//go:build verif

// Package c20: shared components are safe for concurrent use. Every interleaving at
// synchronisation points (instrumented build, cooperative scheduler) within the preemption
// bound, a happens-before race detector on instrumented accesses, linearizability of the
// registries, result equality for stateless components, and a supplementary free-running
// pass under the Go race detector.
package c20

import (
	"context"
	"encoding/json"
	"fmt"
	"os"
	"os/exec"
	"regexp"
	"sort"
	"strings"
	"time"

	"verif/checks/c20/scen"
	"verif/engine/core"
	"verif/engine/explore"
	"verif/engine/sched"
)

type rec struct {
	s       *sched.Sched
	results map[string]string
}

func (r *rec) Call(tid int, name string, f func() string) {
	at := r.s.Begin()
	res := f()
	r.s.End(tid, name, res, at)
	r.results[fmt.Sprintf("T%d/%s/%d", tid, name, at)] = res
}

type seqRec struct{ out map[string][]string }

func (r *seqRec) Call(tid int, name string, f func() string) {
	k := fmt.Sprintf("T%d/%s", tid, name)
	r.out[k] = append(r.out[k], f())
}

// addrRe matches the address of a lock in a blocked-thread description (not part of a finding's identity).
var addrRe = regexp.MustCompile(`\(0x[0-9a-f]+\)`)

func Run(r *core.Run) {
	bound := core.Pick(r, 3, -1)
	r.Rule = fmt.Sprintf("5 scenario families (7 scenarios), 3 threads x 1-6 calls on shared instances (names / versions forced to collide): every interleaving at synchronisation points with at most %d preemptions (-1 = all); "+
		"per execution: deadlock, happens-before data races on instrumented accesses (package variables, fields through pointers, maps), unexpected panics, linearizability against a map specification (registries), "+
		"results equal to the sequential run (stateless components); then a free-running pass of the same bodies under the Go race detector; states = distinct (history, outcome) observations; transitions = scheduling steps", bound)
	r.Assumptions = []string{"instrumented copy of the working tree (vinst: sync -> scheduler shims, access events, map-order seam); the repository's own tests pass on the instrumented tree",
		"interleavings are explored at acquire-type synchronisation operations under sequential consistency; unsynchronised accesses are caught by the happens-before detector instead (a race is a violation)",
		"accesses inside third-party packages, through slices, and conditionally evaluated expressions are not instrumented (the free-running -race pass covers them by sampling, supplementary only)"}
	if p := os.Getenv("VERIF_INST_STATS"); p != "" {
		if b, err := os.ReadFile(p); err == nil {
			var st map[string]any
			if json.Unmarshal(b, &st) == nil {
				delete(st, "UnmodelledSites")
				delete(st, "SkippedRanges")
				r.Extra["instrumentation"] = st
			}
		}
	}
	distinct := map[string]bool{}
	for _, sc := range scen.All() {
		sc := sc
		// sequential reference run (stateless kind)
		seq := &seqRec{out: map[string][]string{}}
		if sc.Kind == "stateless" {
			shared := sc.Setup()
			for tid, th := range sc.Threads {
				th(shared, seq, tid)
			}
		}
		var contended, executions int64
		histories := map[string]bool{}
		var lastHist string
		st := explore.Run(bound, core.Pick(r, int64(200000), int64(5000000)), func(c *explore.Ctx) {
			shared := sc.Setup()
			var rc *rec
			bodies := make([]func(s *sched.Sched, tid int), len(sc.Threads))
			for i, th := range sc.Threads {
				th := th
				bodies[i] = func(s *sched.Sched, tid int) {
					if rc == nil {
						rc = &rec{s: s, results: map[string]string{}}
					}
					th(shared, rc, tid)
				}
			}
			res := sched.Run(c, bodies)
			executions++
			r.Transitions += int64(res.Steps)
			if res.Contended {
				contended++
			}
			var hist []scen.Call
			for _, h := range res.History {
				hist = append(hist, scen.Call{Thread: h.Thread, Name: h.Name, Result: h.Result, CallAt: h.CallAt, ReturnAt: h.ReturnAt})
			}
			hs := scen.HistoryString(hist)
			lastHist = hs
			histories[hs] = true
			distinct[sc.Name+"|"+hs] = true
			caseID := fmt.Sprintf("%s|%v", sc.Name, c.Choices)
			det := map[string]any{"scenario": sc.Name, "schedule_choices": append([]int{}, c.Choices...), "history": hs}
			if res.Deadlock {
				r.Report(caseID, core.Fail{Key: "deadlock/" + sc.Name + "/" + addrRe.ReplaceAllString(strings.Join(res.Blocked, ";"), "(lock)"), What: "deadlock: " + strings.Join(res.Blocked, "; "), Detail: det})
			}
			for _, rc := range res.Races {
				r.Report(caseID, core.Fail{Key: "race/" + sc.Name + "/" + rc.Key(), What: fmt.Sprintf("data race on %s between %s and %s (no happens-before order)", rc.Name, rc.A, rc.B), Detail: det})
			}
			for _, u := range res.Unmodelled {
				r.Report(caseID, core.Fail{Key: "unmodelled/" + u, What: "construct the scheduler cannot model executed at " + u + " (go statement / channel operation): schedules not covered", Detail: det})
			}
			for tid, p := range res.Panics {
				r.Report(caseID, core.Fail{Key: fmt.Sprintf("panic/%s/T%d", sc.Name, tid), What: fmt.Sprintf("thread %d panicked: %v", tid, p), Detail: det})
			}
			if res.Deadlock || len(res.Panics) > 0 {
				return
			}
			switch sc.Kind {
			case "registry":
				if !scen.Linearizable(sc.Spec, hist) {
					r.Report(caseID, core.Fail{Key: "not-linearizable/" + sc.Name + "/" + resultsOnly(hist), What: "history is not linearizable w.r.t. the map specification: " + hs, Detail: det})
				}
			case "stateless":
				got := map[string][]string{}
				sort.Slice(hist, func(i, j int) bool { return hist[i].CallAt < hist[j].CallAt })
				for _, h := range hist {
					k := fmt.Sprintf("T%d/%s", h.Thread, h.Name)
					got[k] = append(got[k], h.Result)
				}
				for k, want := range seq.out {
					if strings.Join(got[k], "\x00") != strings.Join(want, "\x00") {
						r.Report(caseID, core.Fail{Key: "result-differs/" + sc.Name + "/" + k, What: fmt.Sprintf("concurrent result of %s differs from the sequential result", k), Detail: merge(det, map[string]any{"concurrent": got[k], "sequential": want})})
					}
				}
			}
		}, nil)
		r.Eval(st.Executions)
		r.Extra["executions_"+sc.Name] = st.Executions
		r.Extra["distinct_histories_"+sc.Name] = len(histories)
		r.Extra["contended_executions_"+sc.Name] = contended
		if st.CapHit {
			r.Cap("execution cap hit in scenario " + sc.Name)
		}
		if sc.Kind == "registry" {
			r.Class("registry-scenarios")
			if len(histories) > 3 {
				r.Class("many-histories")
			}
		}
		r.Sample(map[string]any{"scenario": sc.Name, "executions": st.Executions, "one_history": lastHist})
	}
	r.States = int64(len(distinct))
	r.Traces = r.Evaluations()
	for k := range distinct {
		r.Observe(k)
	}
	if bound >= 0 {
		r.Exhaustive = false
		r.Caps = append(r.Caps, fmt.Sprintf("preemption bound %d (all executions with at most that many preemptions)", bound))
	}
	// (critical sections contain no acquire operation, so they execute atomically in this model and a lock is never
	// observed held at a scheduling point; what shows that the locks really matter is the number of distinct histories)
	r.Require("many-histories", 3)

	// ---- supplementary: free-running pass under the Go race detector (a report there is a violation; silence is not a proof)
	if r.Violations() > 0 {
		r.Extra["free_running_race_pass"] = "skipped: the exhaustive exploration already reported violations"
	} else if bin := os.Getenv("VERIF_RACE_BIN"); bin != "" {
		for _, procs := range []string{"1", "2", "4", "16"} {
			ctx, cancel := context.WithTimeout(context.Background(), 5*time.Minute)
			cmd := exec.CommandContext(ctx, bin, "racepass")
			cmd.Env = append(os.Environ(), "GOMAXPROCS="+procs, "GORACE=halt_on_error=0 exitcode=66")
			outB, err := cmd.CombinedOutput()
			timedOut := ctx.Err() == context.DeadlineExceeded
			cancel()
			out := string(outB)
			r.Eval(1)
			if timedOut {
				// no wall-clock oracle: a pass that does not finish is recorded, not judged
				r.Extra["free_running_race_pass_"+procs] = "did not finish within its deadline (not a verdict)"
				continue
			}
			if strings.Contains(out, "WARNING: DATA RACE") {
				first := out[strings.Index(out, "WARNING: DATA RACE"):]
				if len(first) > 1500 {
					first = first[:1500]
				}
				r.Report("racepass/"+procs, core.Fail{Key: "go-race-detector", What: "the Go race detector reported a data race in the free-running pass", Detail: map[string]any{"gomaxprocs": procs, "report": first}})
			} else if err != nil {
				r.Report("racepass/"+procs, core.Fail{Key: "racepass-failed", What: "free-running pass failed: " + err.Error() + ": " + tail(out), Detail: map[string]any{"gomaxprocs": procs}})
			} else {
				r.Extra["free_running_race_pass_"+procs] = "finished, no report"
			}
		}
		r.Extra["free_running_race_pass"] = "4 GOMAXPROCS settings x fixed iteration counts, supplementary"
	} else {
		r.Extra["free_running_race_pass"] = "not run (VERIF_RACE_BIN not set)"
	}
}

func tail(s string) string {
	if len(s) > 400 {
		return s[len(s)-400:]
	}
	return s
}

func resultsOnly(h []scen.Call) string {
	s := append([]scen.Call{}, h...)
	sort.Slice(s, func(i, j int) bool {
		if s[i].Thread != s[j].Thread {
			return s[i].Thread < s[j].Thread
		}
		return s[i].CallAt < s[j].CallAt
	})
	var p []string
	for _, c := range s {
		p = append(p, fmt.Sprintf("T%d:%s=%s", c.Thread, c.Name, c.Result))
	}
	return strings.Join(p, ",")
}

func merge(a, b map[string]any) map[string]any {
	for k, v := range b {
		a[k] = v
	}
	return a
}
