// Package scen holds the concurrency scenarios of property C20. The same bodies are run (a)
// under the cooperative scheduler of the instrumented build (all interleavings) and (b)
// free-running with real goroutines under the Go race detector.
package scen

import (
	"crypto/ecdsa"
	"crypto/ed25519"
	"encoding/json"
	"fmt"
	"io"
	"log/slog"
	"sort"
	"strings"

	"verif/gen/keys"
	"verif/gen/ops"

	"github.com/trustbloc/did-go/doc/did"
	vdrapi "github.com/trustbloc/did-go/vdr/api"
	"github.com/trustbloc/kms-go/doc/jose/jwk/jwksupport"
	"github.com/trustbloc/sidetree-go/pkg/api/operation"
	"github.com/trustbloc/sidetree-go/pkg/api/protocol"
	"github.com/trustbloc/sidetree-go/pkg/document"
	"github.com/trustbloc/sidetree-go/pkg/log"
	"github.com/trustbloc/sidetree-go/pkg/patch"
	"github.com/trustbloc/sidetree-go/pkg/vdr/sidetreelongform"
	"github.com/trustbloc/sidetree-go/pkg/vdr/sidetreelongform/dochandler"
	"github.com/trustbloc/sidetree-go/pkg/vdr/sidetreelongform/dochandler/protocol/nsprovider"
	"github.com/trustbloc/sidetree-go/pkg/vdr/sidetreelongform/dochandler/protocol/verprovider"
	"github.com/trustbloc/sidetree-go/pkg/vdr/sidetreelongform/dochandler/protocolversion/clientregistry"
	vcommon "github.com/trustbloc/sidetree-go/pkg/vdr/sidetreelongform/dochandler/protocolversion/versions/common"
	"github.com/trustbloc/sidetree-go/pkg/versions/1_0/doccomposer"
	"github.com/trustbloc/sidetree-go/pkg/versions/1_0/doctransformer/didtransformer"
	"github.com/trustbloc/sidetree-go/pkg/versions/1_0/doctransformer/doctransformer"
	"github.com/trustbloc/sidetree-go/pkg/versions/1_0/operationapplier"
	"github.com/trustbloc/sidetree-go/pkg/versions/1_0/operationparser"
)

// Rec records completed calls (name, result) of a thread.
type Rec interface {
	Call(tid int, name string, f func() string)
}

type Scenario struct {
	Name    string
	Kind    string // "registry": linearizable w.r.t. Spec; "stateless": results equal the sequential run
	Setup   func() any
	Threads []func(shared any, rec Rec, tid int)
	// Spec applies one call to the sequential model state and returns its result (registry kind).
	Spec func(state map[string]string, call string) string
}

type fakeVersions struct{ name string }

func (f *fakeVersions) Current() (protocol.Version, error) {
	return &vcommon.ProtocolVersion{VersionStr: f.name}, nil
}
func (f *fakeVersions) Get(uint64) (protocol.Version, error) { return f.Current() }

type fakeFactory struct{ name string }

func (f *fakeFactory) Create(version string, _ *vcommon.ProtocolConfig) (protocol.Version, error) {
	return &vcommon.ProtocolVersion{VersionStr: f.name}, nil
}

func guard(f func() string) (out string) {
	defer func() {
		if p := recover(); p != nil {
			out = "panic"
		}
	}()
	return f()
}

// mapSpec: "set k v" -> "", "get k" -> value or "none", "setonce k v" -> "" or "panic" if present.
func mapSpec(state map[string]string, call string) string {
	f := strings.Fields(call)
	switch f[0] {
	case "set":
		state[f[1]] = f[2]
		return ""
	case "setonce":
		if _, ok := state[f[1]]; ok {
			return "panic"
		}
		state[f[1]] = f[2]
		return ""
	case "get":
		if v, ok := state[f[1]]; ok {
			return v
		}
		return "none"
	}
	return "?"
}

type discardHandler struct {
	slog.Handler
	name string
}

func newHandler(name string) *discardHandler {
	return &discardHandler{Handler: slog.NewJSONHandler(io.Discard, &slog.HandlerOptions{Level: slog.LevelDebug}), name: name}
}

type stateless struct {
	parser   *operationparser.Parser
	applier  *operationapplier.Applier
	composer *doccomposer.DocumentComposer
	didT     *didtransformer.Transformer
	didT2    *didtransformer.Transformer // another option set: every thread's document has a key of another type
	docT     *doctransformer.Transformer
	ver      *verprovider.ClientVersionProvider
	inputs   [][]byte
	refused  [][]byte // well-formed requests refused by a list rule (algorithm / curve not allowed)
	creates  [][]byte
	deacts   [][]byte
	suffixes []string
}

type handlers struct {
	h    *dochandler.DocumentHandler
	vdr  *sidetreelongform.VDR
	dids []string
	reqs [][]byte
	docs []*did.Doc
}

func pubOf(k *keys.Key) any {
	if k.Ed != nil {
		return k.Ed.Public().(ed25519.PublicKey)
	}
	return &ecdsa.PublicKey{Curve: k.EC.Curve, X: k.EC.X, Y: k.EC.Y}
}

func hashJSON(v any) string {
	b, err := json.Marshal(v)
	if err != nil {
		return "marshal-error:" + err.Error()
	}
	return string(b)
}

func All() []Scenario {
	var out []Scenario
	// ---- 1. namespace provider
	out = append(out, Scenario{Name: "nsprovider", Kind: "registry", Spec: mapSpec,
		Setup: func() any { return nsprovider.New() },
		Threads: []func(any, Rec, int){
			func(s any, r Rec, t int) {
				p := s.(*nsprovider.Provider)
				r.Call(t, "set a P1", func() string { p.Add("a", &fakeVersions{"P1"}); return "" })
				// a second reader, so that two lookups (of different namespaces) can overlap
				r.Call(t, "get b", func() string {
					c, err := p.ForNamespace("b")
					if err != nil {
						return "none"
					}
					v, _ := c.Current()
					return v.Version()
				})
			},
			func(s any, r Rec, t int) {
				p := s.(*nsprovider.Provider)
				for _, ns := range []string{"a", "b"} {
					ns := ns
					r.Call(t, "get "+ns, func() string {
						c, err := p.ForNamespace(ns)
						if err != nil {
							return "none"
						}
						v, _ := c.Current()
						return v.Version()
					})
				}
			},
			func(s any, r Rec, t int) {
				p := s.(*nsprovider.Provider)
				r.Call(t, "set a P2", func() string { p.Add("a", &fakeVersions{"P2"}); return "" })
				r.Call(t, "set b P3", func() string { p.Add("b", &fakeVersions{"P3"}); return "" })
			},
		}})
	// ---- 2. client registry
	regThreads := func(dup bool) []func(any, Rec, int) {
		second := "3.0"
		if dup {
			second = "2.0"
		}
		return []func(any, Rec, int){
			func(s any, r Rec, t int) {
				reg := s.(*clientregistry.Registry)
				r.Call(t, "setonce 2.0 F", func() string { return guard(func() string { reg.Register("2.0", &fakeFactory{"F"}); return "" }) })
			},
			func(s any, r Rec, t int) {
				reg := s.(*clientregistry.Registry)
				for _, v := range []string{"2.0", "1.0"} {
					v := v
					r.Call(t, "get "+v, func() string {
						pv, err := reg.CreateClientVersion(v, &vcommon.ProtocolConfig{})
						if err != nil {
							return "none"
						}
						if v == "1.0" {
							return "builtin"
						}
						return pv.Version()
					})
				}
			},
			func(s any, r Rec, t int) {
				reg := s.(*clientregistry.Registry)
				r.Call(t, "setonce "+second+" G", func() string { return guard(func() string { reg.Register(second, &fakeFactory{"G"}); return "" }) })
				r.Call(t, "get 2.0", func() string {
					pv, err := reg.CreateClientVersion("2.0", &vcommon.ProtocolConfig{})
					if err != nil {
						return "none"
					}
					return pv.Version()
				})
			},
		}
	}
	regSpec := func(state map[string]string, call string) string {
		if _, ok := state["1.0"]; !ok {
			state["1.0"] = "builtin"
		}
		return mapSpec(state, call)
	}
	out = append(out, Scenario{Name: "clientregistry", Kind: "registry", Spec: regSpec, Setup: func() any { return clientregistry.New() }, Threads: regThreads(false)})
	out = append(out, Scenario{Name: "clientregistry-duplicate", Kind: "registry", Spec: regSpec, Setup: func() any { return clientregistry.New() }, Threads: regThreads(true)})
	// lookups that find nothing (the empty version string, an unknown version) before and between registrations: a lookup that
	// fails must leave the registry usable (every path out of the lookup releases what it took)
	lookup := func(reg *clientregistry.Registry, v string) string {
		pv, err := reg.CreateClientVersion(v, &vcommon.ProtocolConfig{})
		if err != nil {
			return "none"
		}
		return pv.Version()
	}
	out = append(out, Scenario{Name: "clientregistry-failing-lookups", Kind: "registry", Spec: regSpec, Setup: func() any { return clientregistry.New() },
		Threads: []func(any, Rec, int){
			func(s any, r Rec, t int) {
				reg := s.(*clientregistry.Registry)
				r.Call(t, "get <empty>", func() string { return lookup(reg, "") })
				r.Call(t, "setonce 2.0 F", func() string { return guard(func() string { reg.Register("2.0", &fakeFactory{"F"}); return "" }) })
			},
			func(s any, r Rec, t int) {
				reg := s.(*clientregistry.Registry)
				r.Call(t, "get 99.0", func() string { return lookup(reg, "99.0") })
				r.Call(t, "get <empty>", func() string { return lookup(reg, "") })
			},
			func(s any, r Rec, t int) {
				reg := s.(*clientregistry.Registry)
				r.Call(t, "setonce 3.0 G", func() string { return guard(func() string { reg.Register("3.0", &fakeFactory{"G"}); return "" }) })
				r.Call(t, "get 2.0", func() string { return lookup(reg, "2.0") })
			},
		}})
	// ---- 3. logging handler
	out = append(out, Scenario{Name: "log-handler", Kind: "registry",
		Spec: func(state map[string]string, call string) string {
			if _, ok := state["h"]; !ok {
				state["h"] = "h1"
			}
			return mapSpec(state, call)
		},
		Setup: func() any { log.SetHandler(newHandler("h1")); return nil },
		Threads: []func(any, Rec, int){
			func(_ any, r Rec, t int) {
				r.Call(t, "set h h2", func() string { log.SetHandler(newHandler("h2")); return "" })
			},
			func(_ any, r Rec, t int) {
				for i := 0; i < 2; i++ {
					r.Call(t, "get h", func() string {
						l := log.New()
						l.Error("message", slog.Int("n", 1))
						return l.Handler().(*discardHandler).name
					})
				}
			},
			func(_ any, r Rec, t int) {
				r.Call(t, "get h", func() string { return log.New().Handler().(*discardHandler).name })
				r.Call(t, "set h h3", func() string { log.SetHandler(newHandler("h3")); return "" })
			},
		}})
	// ---- 4. stateless components on shared instances
	out = append(out, Scenario{Name: "stateless-components", Kind: "stateless",
		Setup: func() any {
			p := ops.Proto()
			// lists as a deployment writes them (not sorted), without ES384 / ES512 and without P-521, so that the refused requests
			// below take the error paths of the list rules while other threads read the same lists
			p.SignatureAlgorithms = []string{"EdDSA", "ES256", "ES256K"}
			p.KeyAlgorithms = []string{"secp256k1", "Ed25519", "P-256", "P-384"}
			st := &stateless{parser: operationparser.New(p), composer: doccomposer.New(), didT: didtransformer.New(didtransformer.WithBase(true), didtransformer.WithMethodContext([]string{"https://method.example/ctx/v1", "https://method.example/ctx/v2"})),
				didT2: didtransformer.New(didtransformer.WithMethodContext([]string{"https://method.example/ctx/v1", "https://method.example/ctx/v2", "https://method.example/ctx/v3", "https://method.example/ctx/v4"})), docT: doctransformer.New()}
			st.applier = operationapplier.New(p, st.parser, st.composer)
			v1 := &vcommon.ProtocolVersion{VersionStr: "1.0", P: p}
			p2 := p
			p2.GenesisTime = 100
			v2 := &vcommon.ProtocolVersion{VersionStr: "2.0", P: p2}
			st.ver, _ = verprovider.New([]protocol.Version{v1, v2})
			for i := 0; i < 3; i++ {
				rec, upd, next := keys.New("Ed25519", 300+i), keys.New("P-256", 300+i), keys.New("Ed25519", 310+i)
				keyJSON := ops.PubKeyJSON(fmt.Sprintf("key%d", i), keys.New("P-256", 320+i), `["authentication"]`)
				switch i {
				case 1:
					keyJSON = strings.Replace(ops.PubKeyJSON("key1", keys.New("Ed25519", 321), `["authentication"]`), "JsonWebKey2020", "Ed25519VerificationKey2018", 1)
				case 2:
					keyJSON = strings.Replace(ops.PubKeyJSON("key2", keys.New("secp256k1", 322), `["authentication"]`), "JsonWebKey2020", "EcdsaSecp256k1VerificationKey2019", 1)
				}
				patches := []any{ops.AddKeysPatch("[" + keyJSON + "]"),
					ops.ParseJSON(fmt.Sprintf(`{"action":"ietf-json-patch","patches":[{"op":"add","path":"/t%d","value":{"n":%d}}]}`, i, i))}
				c := ops.ValidCreate(rec, upd, patches, 18, fmt.Sprintf("origin-%d", i))
				st.creates = append(st.creates, ops.Bytes(c))
				st.suffixes = append(st.suffixes, ops.Suffix(c, 18))
				u := ops.ValidUpdate(ops.Suffix(c, 18), upd, next, []any{ops.ParseJSON(fmt.Sprintf(`{"action":"add-also-known-as","uris":["https://t%d.example/"]}`, i))}, 18, ops.Window{})
				st.inputs = append(st.inputs, ops.Bytes(u))
				st.deacts = append(st.deacts, ops.Bytes(ops.ValidDeactivate(ops.Suffix(c, 18), rec, 18, ops.Window{})))
				// requests that the parser refuses on the error paths of its list rules: a signature algorithm and a curve that are not allowed
				bad := keys.New([]string{"P-384", "P-521", "P-384"}[i], 330+i)
				st.refused = append(st.refused, ops.Bytes(ops.ValidUpdate(ops.Suffix(c, 18), bad, next, []any{ops.ParseJSON(`{"action":"add-also-known-as","uris":["https://r.example/"]}`)}, 18, ops.Window{})))
			}
			return st
		},
		Threads: func() []func(any, Rec, int) {
			var ts []func(any, Rec, int)
			for i := 0; i < 3; i++ {
				i := i
				ts = append(ts, func(s any, r Rec, t int) {
					st := s.(*stateless)
					r.Call(t, "parse-create", func() string {
						op, err := st.parser.Parse("did:sidetree", st.creates[i])
						return hashJSON([]any{op, fmt.Sprint(err)})
					})
					r.Call(t, "parse-refused", func() string {
						op, err := st.parser.Parse("did:sidetree", st.refused[i])
						return hashJSON([]any{op, fmt.Sprint(err)})
					})
					r.Call(t, "get-commitment", func() string {
						c, err := st.parser.GetCommitment(st.inputs[i])
						return c + fmt.Sprint(err)
					})
					var rm *protocol.ResolutionModel
					r.Call(t, "apply-create-update", func() string {
						var err error
						rm, err = st.applier.Apply(&operation.AnchoredOperation{Type: operation.TypeCreate, UniqueSuffix: st.suffixes[i], OperationRequest: st.creates[i], TransactionTime: uint64(10 + i)}, &protocol.ResolutionModel{})
						if err != nil {
							return "error " + err.Error()
						}
						rm, err = st.applier.Apply(&operation.AnchoredOperation{Type: operation.TypeUpdate, UniqueSuffix: st.suffixes[i], OperationRequest: st.inputs[i], TransactionTime: uint64(20 + i)}, rm)
						return hashJSON([]any{rm, fmt.Sprint(err)})
					})
					r.Call(t, "compose", func() string {
						p1, _ := patch.NewAddAlsoKnownAs(fmt.Sprintf(`["https://c%d.example/"]`, i))
						p2, _ := patch.NewJSONPatch(fmt.Sprintf(`[{"op":"add","path":"/c%d","value":[%d]}]`, i, i))
						d, err := st.composer.ApplyPatches(document.Document{"seed": float64(i)}, []patch.Patch{p1, p2})
						return hashJSON([]any{d, fmt.Sprint(err)})
					})
					r.Call(t, "transform", func() string {
						if rm == nil {
							return "no model"
						}
						info := protocol.TransformationInfo{"id": "did:sidetree:" + st.suffixes[i], "published": true}
						r1, e1 := st.didT.TransformDocument(rm, info)
						cp := *rm
						cp.Doc = document.Document{"k": float64(i)}
						r2, e2 := st.docT.TransformDocument(&cp, info)
						r3, e3 := st.didT2.TransformDocument(rm, info)
						return hashJSON([]any{r1, fmt.Sprint(e1), r2, fmt.Sprint(e2), r3, fmt.Sprint(e3)})
					})
					// a deactivated DID and a DID created with a delta that cannot be used: the models the applier returns for them go to the
					// generic transformer as they are (documents without content are where an applier could hand out something shared)
					r.Call(t, "deactivate-transform", func() string {
						created, err := st.applier.Apply(&operation.AnchoredOperation{Type: operation.TypeCreate, UniqueSuffix: st.suffixes[i], OperationRequest: st.creates[i], TransactionTime: uint64(10 + i)}, &protocol.ResolutionModel{})
						if err != nil {
							return "error " + err.Error()
						}
						gone, err := st.applier.Apply(&operation.AnchoredOperation{Type: operation.TypeDeactivate, UniqueSuffix: st.suffixes[i], OperationRequest: st.deacts[i], TransactionTime: uint64(30 + i)}, created)
						if err != nil {
							return "error " + err.Error()
						}
						info := protocol.TransformationInfo{"id": "did:sidetree:" + st.suffixes[i], "published": true}
						r1, e1 := st.docT.TransformDocument(gone, info)
						return hashJSON([]any{gone.Deactivated, r1, fmt.Sprint(e1)})
					})
					r.Call(t, "versions", func() string {
						c, _ := st.ver.Current()
						g, err := st.ver.Get(uint64(100 * (i % 2)))
						gv := ""
						if g != nil {
							gv = g.Version()
						}
						return c.Version() + gv + fmt.Sprint(err)
					})
				})
			}
			return ts
		}()})
	// ---- 5. document handler / VDR shared, plus construction of a second handler meanwhile
	out = append(out, Scenario{Name: "handler-vdr", Kind: "stateless",
		Setup: func() any {
			h, err := dochandler.New("did:ion")
			if err != nil {
				panic(err)
			}
			v, err := sidetreelongform.New()
			if err != nil {
				panic(err)
			}
			hs := &handlers{h: h, vdr: v}
			for i := 0; i < 3; i++ {
				rec, upd := keys.New("Ed25519", 400+i), keys.New("P-256", 400+i)
				c := ops.ValidCreate(rec, upd, []any{ops.AddKeysPatch("[" + ops.PubKeyJSON(fmt.Sprintf("hk%d", i), keys.New("P-256", 420+i), `["authentication"]`) + "]")}, 18, nil)
				b := ops.Bytes(c)
				hs.reqs = append(hs.reqs, b)
				hs.dids = append(hs.dids, "did:ion:"+ops.Suffix(c, 18)+":"+b64(b))
				d := &did.Doc{}
				j, _ := jwksupport.JWKFromKey(pubOf(keys.New("Ed25519", 430+i)))
				vm, _ := did.NewVerificationMethodFromJWK(fmt.Sprintf("vk%d", i), "JsonWebKey2020", "", j)
				d.Authentication = append(d.Authentication, *did.NewReferencedVerification(vm, did.Authentication))
				hs.docs = append(hs.docs, d)
			}
			return hs
		},
		Threads: func() []func(any, Rec, int) {
			var ts []func(any, Rec, int)
			for i := 0; i < 3; i++ {
				i := i
				ts = append(ts, func(s any, r Rec, t int) {
					hs := s.(*handlers)
					r.Call(t, "resolve", func() string {
						res, err := hs.h.ResolveDocument(hs.dids[i])
						return hashJSON([]any{docOnly(res), fmt.Sprint(err)})
					})
					r.Call(t, "process", func() string {
						res, err := hs.h.ProcessOperation(hs.reqs[(i+1)%3])
						return hashJSON([]any{docOnly(res), fmt.Sprint(err)})
					})
					if i == 2 {
						r.Call(t, "new-handler", func() string {
							h2, err := dochandler.New("did:other")
							if err != nil {
								return "error"
							}
							_, err = h2.ResolveDocument(hs.dids[0])
							return "constructed, foreign did refused=" + fmt.Sprint(err != nil)
						})
						return
					}
					r.Call(t, "vdr-create-read", func() string {
						res, err := hs.vdr.Create(hs.docs[i], vdrapi.WithOption(sidetreelongform.UpdatePublicKeyOpt, pubOf(keys.New("Ed25519", 440+i))),
							vdrapi.WithOption(sidetreelongform.RecoveryPublicKeyOpt, pubOf(keys.New("Ed25519", 450+i))))
						if err != nil {
							return "create error " + err.Error()
						}
						rd, err := hs.vdr.Read(res.DIDDocument.ID)
						if err != nil {
							return "read error " + err.Error()
						}
						return res.DIDDocument.ID + " " + rd.DIDDocument.ID
					})
				})
			}
			return ts
		}()})
	return out
}

func docOnly(r *document.ResolutionResult) any {
	if r == nil {
		return nil
	}
	// the unpublished create result carries the wall-clock time of processing in no output field; keep everything
	return r
}

func b64(b []byte) string {
	const enc = "ABCDEFGHIJKLMNOPQRSTUVWXYZabcdefghijklmnopqrstuvwxyz0123456789-_"
	var sb strings.Builder
	for i := 0; i < len(b); i += 3 {
		var n uint32
		rem := len(b) - i
		switch {
		case rem >= 3:
			n = uint32(b[i])<<16 | uint32(b[i+1])<<8 | uint32(b[i+2])
			sb.WriteByte(enc[n>>18&63])
			sb.WriteByte(enc[n>>12&63])
			sb.WriteByte(enc[n>>6&63])
			sb.WriteByte(enc[n&63])
		case rem == 2:
			n = uint32(b[i])<<16 | uint32(b[i+1])<<8
			sb.WriteByte(enc[n>>18&63])
			sb.WriteByte(enc[n>>12&63])
			sb.WriteByte(enc[n>>6&63])
		default:
			n = uint32(b[i]) << 16
			sb.WriteByte(enc[n>>18&63])
			sb.WriteByte(enc[n>>12&63])
		}
	}
	return sb.String()
}

// Linearizable checks a history of registry calls against the sequential spec by brute force.
type Call struct {
	Thread           int
	Name, Result     string
	CallAt, ReturnAt int
}

func Linearizable(spec func(map[string]string, string) string, h []Call) bool {
	n := len(h)
	used := make([]bool, n)
	var order []int
	var rec func() bool
	rec = func() bool {
		if len(order) == n {
			state := map[string]string{}
			for _, i := range order {
				if spec(state, h[i].Name) != h[i].Result {
					return false
				}
			}
			return true
		}
		for i := 0; i < n; i++ {
			if used[i] {
				continue
			}
			// real-time order: i may come next only if no unused call returned before i was called
			ok := true
			for j := 0; j < n; j++ {
				if !used[j] && j != i && h[j].ReturnAt < h[i].CallAt {
					ok = false
				}
			}
			if !ok {
				continue
			}
			used[i] = true
			order = append(order, i)
			if rec() {
				return true
			}
			order = order[:len(order)-1]
			used[i] = false
		}
		return false
	}
	return rec()
}

func HistoryString(h []Call) string {
	s := append([]Call{}, h...)
	sort.Slice(s, func(i, j int) bool { return s[i].CallAt < s[j].CallAt })
	var parts []string
	for _, c := range s {
		parts = append(parts, fmt.Sprintf("T%d:%s=%s[%d,%d]", c.Thread, c.Name, c.Result, c.CallAt, c.ReturnAt))
	}
	return strings.Join(parts, " ")
}
