// Package c02: no state change without a valid signature by the revealed key. Exhaustive
// enumeration of tamperings of valid update / recover / deactivate operations; soundness
// implication judged by an independent predicate computed from the tampered bytes alone.
package c02

import (
	"crypto/sha256"
	"encoding/base64"
	"encoding/json"
	"fmt"
	"math/big"
	"strings"

	"verif/engine/core"
	"verif/gen/keys"
	"verif/gen/ops"
	"verif/ref/jcs"
	rjws "verif/ref/jws"
	"verif/ref/mh"

	"github.com/trustbloc/sidetree-go/pkg/api/operation"
	"github.com/trustbloc/sidetree-go/pkg/api/protocol"
	"github.com/trustbloc/sidetree-go/pkg/versions/1_0/doccomposer"
	"github.com/trustbloc/sidetree-go/pkg/versions/1_0/operationapplier"
	"github.com/trustbloc/sidetree-go/pkg/versions/1_0/operationparser"
)

const code = 18

var enc = base64.RawURLEncoding

// pred computes, from the request bytes alone, the authorization predicate of the statement.
type verdict struct {
	Auth  bool // compact JWS, headers subset of {alg,kid}, alg allowed, signature by embedded key, reveal matches, (deactivate) suffix matches
	Delta bool // delta hashes to the signed delta hash
	Why   string
}

func keyModel(k map[string]any) (map[string]any, bool) {
	out := map[string]any{}
	for _, f := range []string{"kty", "crv", "x", "y"} {
		v, present := k[f]
		if !present || v == nil {
			out[f] = ""
			continue
		}
		s, ok := v.(string)
		if !ok {
			return nil, false
		}
		out[f] = s
	}
	for _, f := range []string{"n", "e", "nonce"} {
		v, present := k[f]
		if !present || v == nil {
			continue
		}
		s, ok := v.(string)
		if !ok {
			return nil, false
		}
		if s != "" {
			out[f] = s
		}
	}
	return out, true
}

func judge(typ operation.Type, req []byte, allowedAlgs []string) verdict {
	var m map[string]any
	if err := json.Unmarshal(req, &m); err != nil {
		return verdict{Why: "request is not JSON"}
	}
	sd, _ := m["signedData"].(string)
	p, err := rjws.Parse(sd)
	if err != nil {
		return verdict{Why: "signed data is not a compact JWS: " + err.Error()}
	}
	for h := range p.Header {
		if h != "alg" && h != "kid" {
			return verdict{Why: "protected header " + h}
		}
	}
	alg, ok := p.Header["alg"].(string)
	if !ok || alg == "" {
		return verdict{Why: "alg not a non-empty string"}
	}
	okAlg := false
	for _, a := range allowedAlgs {
		if a == alg {
			okAlg = true
		}
	}
	if !okAlg {
		return verdict{Why: "alg not allowed"}
	}
	var payload map[string]any
	if err := json.Unmarshal(p.Payload, &payload); err != nil {
		return verdict{Why: "payload is not a JSON object"}
	}
	keyName := "recoveryKey"
	if typ == operation.TypeUpdate {
		keyName = "updateKey"
	}
	rawKey, _ := payload[keyName].(map[string]any)
	if rawKey == nil {
		return verdict{Why: "no embedded key"}
	}
	km, ok := keyModel(rawKey)
	if !ok {
		return verdict{Why: "embedded key has non-string members"}
	}
	in, err := rjws.SigningInput(p)
	if err != nil || !rjws.VerifyRaw(km, in, p.Sig) {
		return verdict{Why: "signature does not verify under the embedded key"}
	}
	reveal, _ := m["revealValue"].(string)
	c, _, err := mh.Decode(reveal)
	if err != nil || (c != 18 && c != 19) {
		return verdict{Why: "reveal value is not a supported multihash"}
	}
	if mh.MustHash(c, jcs.MustCanonGo(km)) != reveal {
		return verdict{Why: "embedded key does not hash to the reveal value"}
	}
	if typ == operation.TypeDeactivate {
		s1, _ := payload["didSuffix"].(string)
		s2, _ := m["didSuffix"].(string)
		if s1 != s2 {
			return verdict{Why: "signed suffix differs"}
		}
		return verdict{Auth: true}
	}
	v := verdict{Auth: true}
	dh, _ := payload["deltaHash"].(string)
	dc, _, err := mh.Decode(dh)
	if err == nil && (dc == 18 || dc == 19) {
		if delta, ok := m["delta"].(map[string]any); ok {
			// the delta as the library's model sees it: updateCommitment + patches, empty omitted
			dm := map[string]any{}
			if s, ok := delta["updateCommitment"].(string); ok && s != "" {
				dm["updateCommitment"] = s
			}
			if l, ok := delta["patches"].([]any); ok && len(l) > 0 {
				dm["patches"] = l
			}
			if mh.MustHash(dc, jcs.MustCanonGo(dm)) == dh {
				v.Delta = true
			}
		}
	}
	if !v.Delta {
		v.Why = "delta does not hash to the signed delta hash"
	}
	return v
}

type tampered struct {
	id  string
	req []byte
}

func Run(r *core.Run) {
	r.Rule = "for each valid update/recover/deactivate x 5 key types: every bit of the decoded signature; every byte (thorough: every bit) of decoded payload and header x 3 masks; every signed field re-encoded without re-signing; " +
		"key / reveal / delta substitution with and without re-signing; every registered JOSE header added (re-signed); alg variants (re-signed); segment truncation, padding, dot-count, empty segments, base64 tail bits, JSON serialization; " +
		"distinct = distinct tampered request texts; non-trivial = request differs from the valid original"
	r.Assumptions = []string{"independent predicate: ref/jws (Go crypto + dcrd secp256k1), ref/mh, ref/jcs; only the soundness direction is judged (accepted => authorized)",
		"content-preserving re-encodings are expected to verify and can never raise an alarm", "previous state: a created document; the applier is driven directly"}
	p := ops.Proto()
	app := operationapplier.New(p, operationparser.New(p), doccomposer.New())
	types := []operation.Type{operation.TypeUpdate, operation.TypeRecover, operation.TypeDeactivate}
	patch := []any{ops.ParseJSON(`{"action":"add-also-known-as","uris":["https://tampered.example/"]}`)}
	patch2 := []any{ops.ParseJSON(`{"action":"add-also-known-as","uris":["https://attacker.example/"]}`)}
	joseHeaders := []string{"jku", "publicKeyJwk", "x5u", "x5c", "x5t", "x5t#S256", "typ", "cty", "crit", "b64", "jwk", "zip", "enc", "nonce", "url"}

	type fixture struct {
		kt     string
		typ    operation.Type
		suffix string
		req    []byte
		prev   *protocol.ResolutionModel
	}
	var fixtures []fixture
	for _, kt := range keys.Types {
		rec, upd := keys.New(kt, 0), keys.New(kt, 1)
		other := keys.New(kt, 5)
		otherType := keys.New(keys.Types[(indexOf(kt)+1)%len(keys.Types)], 6)
		next1, next2 := keys.New("Ed25519", 20), keys.New("Ed25519", 21)
		create := ops.ValidCreate(rec, upd, []any{ops.ParseJSON(`{"action":"add-also-known-as","uris":["https://original.example/"]}`)}, code, "origin")
		suffix := ops.Suffix(create, code)
		prev, err := app.Apply(&operation.AnchoredOperation{Type: operation.TypeCreate, UniqueSuffix: suffix, OperationRequest: ops.Bytes(create), TransactionTime: 1}, &protocol.ResolutionModel{})
		if err != nil || prev.UpdateCommitment == "" {
			core.Engine("c02 create fixture: %v", err)
		}
		for _, typ := range types {
			signer := rec
			if typ == operation.TypeUpdate {
				signer = upd
			}
			build := func(s *keys.Key, header []byte, mutPayload func(pl ops.M), patches []any) ops.M {
				d := ops.Delta(ops.Commitment(next1, code), patches)
				var pl ops.M
				switch typ {
				case operation.TypeUpdate:
					pl = ops.UpdatePayload(s, ops.HashOf(d, code), ops.Window{From: 1, Until: 1000})
				case operation.TypeRecover:
					pl = ops.RecoverPayload(s, ops.HashOf(d, code), ops.Commitment(next2, code), "new-origin", ops.Window{From: 1, Until: 1000})
				default:
					pl = ops.DeactivatePayload(s, suffix, ops.Reveal(s, code), ops.Window{From: 1, Until: 1000})
					d = nil
				}
				if mutPayload != nil {
					mutPayload(pl)
				}
				if header == nil {
					header = s.Header()
				}
				return ops.Request(string(typ), suffix, ops.Reveal(s, code), s.SignCompact(header, ops.Canon(pl)), d)
			}
			valid := build(signer, nil, nil, patch)
			validBytes := ops.Bytes(valid)
			sd := valid["signedData"].(string)
			seg := strings.Split(sd, ".")
			hdr, _ := enc.DecodeString(seg[0])
			pay, _ := enc.DecodeString(seg[1])
			sig, _ := enc.DecodeString(seg[2])
			withSD := func(s string) []byte {
				m := ops.M{}
				for k, v := range valid {
					m[k] = v
				}
				m["signedData"] = s
				return ops.Bytes(m)
			}
			withField := func(k string, v any) []byte {
				m := ops.M{}
				for kk, vv := range valid {
					m[kk] = vv
				}
				if v == nil {
					delete(m, k)
				} else {
					m[k] = v
				}
				return ops.Bytes(m)
			}
			var ts []tampered
			add := func(id string, b []byte) { ts = append(ts, tampered{fmt.Sprintf("%s/%s/%s", typ, kt, id), b}) }
			add("valid", validBytes)
			fixtures = append(fixtures, fixture{kt, typ, suffix, validBytes, prev})
			// 1. signature bits
			for i := 0; i < len(sig)*8; i++ {
				s2 := append([]byte{}, sig...)
				s2[i/8] ^= 1 << (i % 8)
				add(fmt.Sprintf("sig-bit-%d", i), withSD(seg[0]+"."+seg[1]+"."+enc.EncodeToString(s2)))
			}
			// 2. payload / header bytes
			masks := []byte{0x01, 0x20, 0x80}
			if r.Thorough() {
				masks = []byte{1, 2, 4, 8, 16, 32, 64, 128}
			}
			for i := range pay {
				for _, mk := range masks {
					p2 := append([]byte{}, pay...)
					p2[i] ^= mk
					add(fmt.Sprintf("payload-byte-%d-%02x", i, mk), withSD(seg[0]+"."+enc.EncodeToString(p2)+"."+seg[2]))
				}
			}
			for i := range hdr {
				for _, mk := range masks {
					h2 := append([]byte{}, hdr...)
					h2[i] ^= mk
					add(fmt.Sprintf("header-byte-%d-%02x", i, mk), withSD(enc.EncodeToString(h2)+"."+seg[1]+"."+seg[2]))
				}
			}
			// 3. signed fields re-encoded without re-signing
			var pl map[string]any
			_ = json.Unmarshal(pay, &pl)
			reencode := func(id string, mut func(m map[string]any)) {
				var m map[string]any
				_ = json.Unmarshal(pay, &m)
				mut(m)
				add("resigned-no/"+id, withSD(seg[0]+"."+enc.EncodeToString(ops.Canon(m))+"."+seg[2]))
			}
			keyName := "recoveryKey"
			if typ == operation.TypeUpdate {
				keyName = "updateKey"
			}
			evil := ops.Delta(ops.Commitment(other, code), patch2)
			reencode("deltaHash", func(m map[string]any) { m["deltaHash"] = ops.HashOf(evil, code) })
			reencode("key-x", func(m map[string]any) { m[keyName].(map[string]any)["x"] = other.JWK().X })
			reencode("key-y", func(m map[string]any) { m[keyName].(map[string]any)["y"] = other.JWK().Y + "A" })
			reencode("key-crv", func(m map[string]any) { m[keyName].(map[string]any)["crv"] = otherType.JWK().Crv })
			reencode("key-kty", func(m map[string]any) { m[keyName].(map[string]any)["kty"] = "oct" })
			reencode("key-nonce", func(m map[string]any) { m[keyName].(map[string]any)["nonce"] = "AAAAAAAAAAAAAAAAAAAAAA" })
			reencode("key-whole", func(m map[string]any) { m[keyName] = other.JWKMap() })
			reencode("recoveryCommitment", func(m map[string]any) { m["recoveryCommitment"] = ops.Commitment(other, code) })
			reencode("anchorOrigin", func(m map[string]any) { m["anchorOrigin"] = "attacker-origin" })
			reencode("didSuffix", func(m map[string]any) { m["didSuffix"] = "EiAttacker" })
			reencode("anchorFrom", func(m map[string]any) { m["anchorFrom"] = 0 })
			reencode("anchorUntil", func(m map[string]any) { m["anchorUntil"] = 99999 })
			reencode("member-order-only", func(m map[string]any) {}) // same content, canonical again: identical bytes => verifies
			// payload with whitespace (content preserving for the JWS layer? no: payload bytes are signed) => must not verify
			add("payload-whitespace", withSD(seg[0]+"."+enc.EncodeToString(append([]byte(" "), pay...))+"."+seg[2]))
			// 4. key substitution
			{
				// re-signed by another key, reveal value left for the old key
				v2 := build(other, nil, nil, patch)
				v2["revealValue"] = valid["revealValue"]
				add("key-substituted/resigned-old-reveal", ops.Bytes(v2))
				// two key members whose names differ only in letter case, one holding the owner's public key and one the signer's own: a
				// decoder that matches names case-insensitively and one that matches them exactly pick different keys; signed by the other key
				{
					keyName := "recoveryKey"
					if typ == operation.TypeUpdate {
						keyName = "updateKey"
					}
					forged := build(other, nil, nil, patch)
					fsd := strings.Split(forged["signedData"].(string), ".")
					fpay, _ := enc.DecodeString(fsd[1]) // canonical payload carrying the other key under the exact name
					ownerKey := string(ops.Canon(signer.JWKMap()))
					otherKey := string(ops.Canon(other.JWKMap()))
					for vi, variant := range []string{strings.ToUpper(keyName[:1]) + keyName[1:], strings.ToUpper(keyName), strings.ToLower(keyName)} {
						inner := string(fpay[1 : len(fpay)-1])
						swapped := strings.Replace(inner, otherKey, ownerKey, 1) // exact name now holds the owner's key
						for pi, raw := range []string{
							"{" + inner + `,"` + variant + `":` + ownerKey + "}", `{"` + variant + `":` + ownerKey + "," + inner + "}",
							"{" + swapped + `,"` + variant + `":` + otherKey + "}", `{"` + variant + `":` + otherKey + "," + swapped + "}"} {
							v := ops.M{}
							for k, x := range forged {
								v[k] = x
							}
							v["signedData"] = other.SignCompact(other.Header(), []byte(raw))
							v["revealValue"] = valid["revealValue"]
							add(fmt.Sprintf("key-substituted/case-variant-member-%d-%d", vi, pi), ops.Bytes(v))
						}
					}
				}
				// fully consistent operation by another key (authorized by its own key: may be accepted)
				add("key-substituted/resigned-new-reveal", ops.Bytes(build(other, nil, nil, patch)))
				// other key type
				add("key-substituted/other-type-resigned", ops.Bytes(build(otherType, nil, nil, patch)))
				// signed by other key but embedding the victim's key
				d := ops.Delta(ops.Commitment(next1, code), patch)
				var plv ops.M
				switch typ {
				case operation.TypeUpdate:
					plv = ops.UpdatePayload(signer, ops.HashOf(d, code), ops.Window{})
				case operation.TypeRecover:
					plv = ops.RecoverPayload(signer, ops.HashOf(d, code), ops.Commitment(other, code), "attacker", ops.Window{})
				default:
					plv = ops.DeactivatePayload(signer, suffix, ops.Reveal(signer, code), ops.Window{})
					d = nil
				}
				add("key-substituted/signed-by-other-embedding-victim", ops.Bytes(ops.Request(string(typ), suffix, ops.Reveal(signer, code), other.SignCompact(signer.Header(), ops.Canon(plv)), d)))
			}
			// 5. reveal substitution
			add("reveal/other-key", withField("revealValue", ops.Reveal(other, code)))
			add("reveal/sha512-of-same-key", withField("revealValue", ops.Reveal(signer, 19)))
			add("reveal/commitment-instead", withField("revealValue", ops.Commitment(signer, code)))
			// a well-formed multihash of the right algorithm that carries only the first n bytes of the right digest
			if rc, digest, err := mh.Decode(ops.Reveal(signer, code)); err == nil {
				for _, n := range []int{0, 1, len(digest) / 2, len(digest) - 1} {
					add(fmt.Sprintf("reveal/truncated-to-%d-digest-bytes", n), withField("revealValue", mh.Enc(mh.Raw(rc, digest[:n]))))
				}
				add("reveal/digest-with-a-zero-byte-appended", withField("revealValue", mh.Enc(mh.Raw(rc, append(append([]byte{}, digest...), 0)))))
			}
			add("reveal/empty", withField("revealValue", ""))
			add("reveal/missing", withField("revealValue", nil))
			// 6. delta substitution
			if typ != operation.TypeDeactivate {
				add("delta/substituted", withField("delta", evil))
				add("delta/other-commitment", withField("delta", ops.Delta(ops.Commitment(other, code), patch)))
				add("delta/other-patches", withField("delta", ops.Delta(ops.Commitment(next1, code), patch2)))
				add("delta/missing", withField("delta", nil))
				add("delta/empty-object", withField("delta", ops.M{}))
				add("delta/extra-patch", withField("delta", ops.Delta(ops.Commitment(next1, code), append(append([]any{}, patch...), patch2...))))
				// substituted and "fixed" hash without re-signing
				var m map[string]any
				_ = json.Unmarshal(pay, &m)
				m["deltaHash"] = ops.HashOf(evil, code)
				b := withSD(seg[0] + "." + enc.EncodeToString(ops.Canon(m)) + "." + seg[2])
				var full map[string]any
				_ = json.Unmarshal(b, &full)
				full["delta"] = evil
				add("delta/substituted-hash-fixed-not-resigned", ops.Bytes(full))
			} else {
				add("suffix/request-suffix-changed", withField("didSuffix", "EiOtherSuffix"))
				add("suffix/signed-suffix-changed-resigned", ops.Bytes(build(signer, nil, func(pl ops.M) { pl["didSuffix"] = "EiOtherSuffix" }, nil)))
				// signed suffix absent, empty, a tail or an extension of the operation's suffix (re-signed by the genuine key: what the key
				// holder signed is not a deactivation of this DID)
				add("suffix/signed-suffix-missing-resigned", ops.Bytes(build(signer, nil, func(pl ops.M) { delete(pl, "didSuffix") }, nil)))
				add("suffix/signed-suffix-empty-resigned", ops.Bytes(build(signer, nil, func(pl ops.M) { pl["didSuffix"] = "" }, nil)))
				add("suffix/signed-suffix-tail-resigned", ops.Bytes(build(signer, nil, func(pl ops.M) { pl["didSuffix"] = suffix[len(suffix)-6:] }, nil)))
				add("suffix/signed-suffix-extended-resigned", ops.Bytes(build(signer, nil, func(pl ops.M) { pl["didSuffix"] = "x:" + suffix }, nil)))
				add("suffix/request-suffix-extended", withField("didSuffix", "ref:"+suffix))
				// the signed data of a genuine recover by the same key, replayed as a deactivate (nothing in it was signed for that)
				{
					d := ops.Delta(ops.Commitment(next1, code), patch)
					rsd := ops.Sign(signer, ops.RecoverPayload(signer, ops.HashOf(d, code), ops.Commitment(next2, code), "origin", ops.Window{}))
					add("cross-type/recover-signed-data-as-deactivate", ops.Bytes(ops.Request("deactivate", suffix, ops.Reveal(signer, code), rsd, nil)))
					add("cross-type/recover-signed-data-as-deactivate-with-delta", ops.Bytes(ops.Request("deactivate", suffix, ops.Reveal(signer, code), rsd, d)))
				}
			}
			if signer.EC != nil {
				// a "signature" that needs no key: r = s = Qx mod n verifies for the public point Q wherever the digest of the signing
				// input is taken to be empty or zero; under every allowed algorithm name, and without one
				n, w := keys.Curve(kt).Params().N, keys.Width(kt)
				qx := new(big.Int).Mod(signer.EC.X, n).FillBytes(make([]byte, w))
				xx := enc.EncodeToString(append(append([]byte{}, qx...), qx...))
				for _, a := range append(append([]string{}, p.SignatureAlgorithms...), "none", "HS256", "") {
					hdrJSON := fmt.Sprintf(`{"alg":%q}`, a)
					add("digest-free-signature/alg-"+a, withSD(enc.EncodeToString([]byte(hdrJSON))+"."+seg[1]+"."+xx))
				}
			}
			if kt == "secp256k1" || kt == "P-256" {
				// operations "signed" for a public key that nobody holds: the JWK names a point (X, 0), which is on no supported curve (a
				// point of order two for the doubling formulas), and the signature is made from public values alone, r = x(k*G) mod n,
				// s = e/k mod n, for k = 1..12 - it verifies wherever the key is used without being checked against the curve equation
				curve := keys.Curve(kt)
				n := curve.Params().N
				w := keys.Width(kt)
				for xi, x := range []*big.Int{big.NewInt(1), big.NewInt(5), new(big.Int).Set(signer.EC.X)} {
					jwk := ops.M{"kty": "EC", "crv": kt, "x": enc.EncodeToString(x.FillBytes(make([]byte, w))), "y": enc.EncodeToString(make([]byte, w))}
					d := ops.Delta(ops.Commitment(other, code), patch2)
					var pl ops.M
					switch typ {
					case operation.TypeUpdate:
						pl = ops.M{"updateKey": jwk, "deltaHash": ops.HashOf(d, code)}
					case operation.TypeRecover:
						pl = ops.M{"recoveryKey": jwk, "deltaHash": ops.HashOf(d, code), "recoveryCommitment": ops.Commitment(other, code)}
					default:
						pl = ops.M{"recoveryKey": jwk, "didSuffix": suffix}
						d = nil
					}
					input := enc.EncodeToString(signer.Header()) + "." + enc.EncodeToString(ops.Canon(pl))
					digest := sha256.Sum256([]byte(input))
					e := new(big.Int).SetBytes(digest[:])
					for k := int64(1); k <= 12; k++ {
						rx, _ := curve.ScalarBaseMult(big.NewInt(k).Bytes())
						rr := new(big.Int).Mod(rx, n)
						ss := new(big.Int).Mul(e, new(big.Int).ModInverse(big.NewInt(k), n))
						ss.Mod(ss, n)
						if rr.Sign() == 0 || ss.Sign() == 0 {
							continue
						}
						sig := append(rr.FillBytes(make([]byte, w)), ss.FillBytes(make([]byte, w))...)
						add(fmt.Sprintf("keyless-point/x%d/k%d", xi, k), ops.Bytes(ops.Request(string(typ), suffix, ops.HashOf(jwk, code), input+"."+enc.EncodeToString(sig), d)))
					}
				}
			}
			if typ == operation.TypeRecover {
				// the signed data of a genuine deactivate by the same key, replayed as a recover with an attacker's delta
				dsd := ops.Sign(signer, ops.DeactivatePayload(signer, suffix, ops.Reveal(signer, code), ops.Window{}))
				add("cross-type/deactivate-signed-data-as-recover", ops.Bytes(ops.Request("recover", suffix, ops.Reveal(signer, code), dsd, evil)))
			}
			// 7. headers (re-signed, so the signature itself is good)
			for _, h := range joseHeaders {
				var hv string
				switch h {
				case "crit", "x5c":
					hv = `["a"]`
				case "b64":
					hv = `true`
				case "publicKeyJwk", "jwk":
					hv = `{"kty":"oct"}`
				default:
					hv = `"v"`
				}
				add("header/extra-"+h, ops.Bytes(build(signer, []byte(fmt.Sprintf(`{"alg":%q,%q:%s}`, signer.Alg(), h, hv)), nil, patch)))
				for vi, ov := range []string{`null`, `""`, `0`, `false`} {
					add(fmt.Sprintf("header/extra-%s-value-%d", h, vi), ops.Bytes(build(signer, []byte(fmt.Sprintf(`{"alg":%q,%q:%s}`, signer.Alg(), h, ov)), nil, patch)))
				}
			}
			add("header/extra-unregistered-null", ops.Bytes(build(signer, []byte(fmt.Sprintf(`{"alg":%q,"other":null}`, signer.Alg())), nil, patch)))
			add("header/kid-allowed", ops.Bytes(build(signer, []byte(fmt.Sprintf(`{"alg":%q,"kid":"k"}`, signer.Alg())), nil, patch)))
			for _, a := range []string{`"none"`, `""`, `"HS256"`, `"RS256"`, `"PS256"`, `"ES256K-R"`, `null`, `5`, `["ES256"]`, `"es256"`, `"` + keys.Algs[otherType.Type] + `"`} {
				add("header/alg-"+a, ops.Bytes(build(signer, []byte(`{"alg":`+a+`}`), nil, patch)))
			}
			add("header/no-alg", ops.Bytes(build(signer, []byte(`{"kid":"k"}`), nil, patch)))
			add("header/whitespace-content-preserving", withSD(enc.EncodeToString([]byte(strings.Replace(string(hdr), ":", " : ", 1)))+"."+seg[1]+"."+seg[2]))
			// 8. segment surgery
			for si := 0; si < 3; si++ {
				for cut := 1; cut <= 3; cut++ {
					s2 := append([]string{}, seg...)
					if len(s2[si]) > cut {
						s2[si] = s2[si][:len(s2[si])-cut]
						add(fmt.Sprintf("segment-%d-truncated-%d", si, cut), withSD(strings.Join(s2, ".")))
					}
				}
				s2 := append([]string{}, seg...)
				s2[si] += "="
				add(fmt.Sprintf("segment-%d-padded", si), withSD(strings.Join(s2, ".")))
				s3 := append([]string{}, seg...)
				s3[si] = ""
				add(fmt.Sprintf("segment-%d-empty", si), withSD(strings.Join(s3, ".")))
				// non-canonical base64 tail bits (content preserving when the decoder ignores them)
				s4 := append([]string{}, seg...)
				if t := tailVariant(s4[si]); t != "" {
					s4[si] = t
					add(fmt.Sprintf("segment-%d-tailbits", si), withSD(strings.Join(s4, ".")))
				}
			}
			add("dots-2", withSD(seg[0]+"."+seg[1]))
			add("dots-1", withSD(seg[0]))
			add("dots-4", withSD(sd+"."+seg[2]))
			add("dots-trailing", withSD(sd+"."))
			add("json-serialization", withSD(`{"protected":"`+seg[0]+`","payload":"`+seg[1]+`","signature":"`+seg[2]+`"}`))
			add("signed-data-empty", withSD(""))
			add("signed-data-missing", withField("signedData", nil))
			add("signature-of-other-op", withSD(seg[0]+"."+seg[1]+"."+strings.Split(build(signer, nil, nil, patch2)["signedData"].(string), ".")[2]))

			prevSnap := string(jcs.MustCanonGo(prev.Doc))
			core.Parallel(len(ts), func(i int) {
				t := ts[i]
				r.Case(t.id, func() *core.Fail {
					an := &operation.AnchoredOperation{Type: typ, UniqueSuffix: suffix, OperationRequest: t.req, TransactionTime: 500, TransactionNumber: 2}
					res, err := app.Apply(an, prev)
					v := judge(typ, t.req, p.SignatureAlgorithms)
					det := map[string]any{"request": string(t.req), "predicate": v}
					// the same operation anchored before and after its window [1, 1000]: an operation outside its window still advances
					// commitments, so every condition of the statement must hold for it just the same
					for _, at := range []uint64{0, 1001} {
						lateOrEarly := &operation.AnchoredOperation{Type: typ, UniqueSuffix: suffix, OperationRequest: t.req, TransactionTime: at, TransactionNumber: 2}
						if r2, e2 := app.Apply(lateOrEarly, prev); e2 == nil && r2 != nil && !v.Auth {
							return &core.Fail{Key: t.id, What: fmt.Sprintf("unauthorized operation anchored outside its window (time %d) changed the state (%s)", at, v.Why), Detail: det}
						}
					}
					if t.id == fmt.Sprintf("%s/%s/valid", typ, kt) || strings.HasSuffix(t.id, "kid-allowed") || strings.HasSuffix(t.id, "member-order-only") {
						// vacuity: the untampered operation must be authorized and accepted
						if !v.Auth || err != nil || res == nil {
							core.Engine("c02: untampered fixture %s not accepted / not authorized: %v %+v", t.id, err, v)
						}
					}
					if err != nil || res == nil {
						if res != nil {
							return &core.Fail{Key: t.id, What: "refused operation returned a state", Detail: det}
						}
						return nil // refused: always fine for the soundness direction
					}
					if !v.Auth {
						return &core.Fail{Key: t.id, What: "unauthorized operation changed the state (" + v.Why + ")", Detail: det}
					}
					switch typ {
					case operation.TypeUpdate:
						if !v.Delta {
							return &core.Fail{Key: t.id, What: "update with unbound delta changed the state", Detail: det}
						}
					case operation.TypeRecover:
						if !v.Delta && (string(jcs.MustCanonGo(res.Doc)) != "{}" || res.UpdateCommitment != "") {
							return &core.Fail{Key: t.id, What: "recover with unbound delta installed content", Detail: det}
						}
					}
					_ = prevSnap
					return nil
				})
				r.Observe(string(t.req))
				v := judge(typ, t.req, p.SignatureAlgorithms)
				if v.Auth {
					r.Class("authorized")
				} else {
					r.Class("unauthorized")
				}
			})
			if kt == "P-256" && typ == operation.TypeRecover {
				r.Sample(map[string]any{"tampering": ts[7].id, "request": string(ts[7].req)})
			}
		}
	}
	// protocols whose list of signature algorithms is shorter than what their key algorithms could sign with: every genuine
	// operation under every such pair of lists - an algorithm that is not listed is not allowed, whatever keys are
	type lists struct {
		name       string
		algs, keys []string
	}
	all := ops.Proto()
	ls := []lists{{"library-v1.0-parameters", []string{"EdDSA", "ES256", "ES256K"}, []string{"Ed25519", "P-256", "P-384", "secp256k1"}},
		{"none-listed", []string{}, all.KeyAlgorithms}}
	for _, a := range all.SignatureAlgorithms {
		ls = append(ls, lists{"only-" + a, []string{a}, all.KeyAlgorithms})
		var rest []string
		for _, b := range all.SignatureAlgorithms {
			if b != a {
				rest = append(rest, b)
			}
		}
		ls = append(ls, lists{"all-but-" + a, rest, all.KeyAlgorithms})
	}
	for _, l := range ls {
		lp := ops.Proto()
		lp.SignatureAlgorithms, lp.KeyAlgorithms = l.algs, l.keys
		lapp := operationapplier.New(lp, operationparser.New(lp), doccomposer.New())
		for _, f := range fixtures {
			f := f
			id := fmt.Sprintf("algorithm-lists/%s/%s/%s", l.name, f.typ, f.kt)
			v := judge(f.typ, f.req, l.algs)
			r.Case(id, func() *core.Fail {
				det := map[string]any{"request": string(f.req), "predicate": v, "signature_algorithms": l.algs, "key_algorithms": l.keys}
				for _, at := range []uint64{500, 0, 1001} {
					an := &operation.AnchoredOperation{Type: f.typ, UniqueSuffix: f.suffix, OperationRequest: f.req, TransactionTime: at, TransactionNumber: 2}
					if res, err := lapp.Apply(an, f.prev); err == nil && res != nil && !v.Auth {
						return &core.Fail{Key: id, What: fmt.Sprintf("operation whose algorithm is not in the protocol's list %v changed the state (anchored at %d; %s)", l.algs, at, v.Why), Detail: det}
					}
				}
				return nil
			})
			r.Observe(id)
			if v.Auth {
				r.Class("algorithm-lists-authorized")
			} else {
				r.Class("algorithm-lists-unauthorized")
			}
		}
	}
	r.Require("algorithm-lists-authorized", 30)
	r.Require("algorithm-lists-unauthorized", 30)
	r.Require("authorized", 30)
	r.Require("unauthorized", 5000)
}

func indexOf(t string) int {
	for i, x := range keys.Types {
		if x == t {
			return i
		}
	}
	return 0
}

// tailVariant changes the unused low bits of the last base64 character, if there are any.
func tailVariant(s string) string {
	const alpha = "ABCDEFGHIJKLMNOPQRSTUVWXYZabcdefghijklmnopqrstuvwxyz0123456789-_"
	if len(s)%4 == 0 || len(s) == 0 {
		return ""
	}
	i := strings.IndexByte(alpha, s[len(s)-1])
	if i < 0 {
		return ""
	}
	return s[:len(s)-1] + string(alpha[i^1])
}
