// Package c11: a validated ietf-json-patch never alters public keys or services.
package c11

import (
	"bufio"
	"encoding/json"
	"fmt"
	"os"
	"os/exec"
	"runtime/debug"
	"sort"
	"strconv"
	"strings"
	"sync"

	"verif/engine/core"
	"verif/gen/keys"
	"verif/gen/ops"
	"verif/ref/jcs"

	"github.com/trustbloc/sidetree-go/pkg/document"
	"github.com/trustbloc/sidetree-go/pkg/patch"
	"github.com/trustbloc/sidetree-go/pkg/versions/1_0/doccomposer"
	"github.com/trustbloc/sidetree-go/pkg/versions/1_0/operationparser/patchvalidator"
)

type op struct {
	kind, path, from, value string
	spell                   int // index into spellings: how the member names op / path / from are written
}

// Member names as RFC 6902 writes them, and in other letter case. The RFC 6902 library looks names up exactly, so an
// operation with "From" has no "from"; a decoder that matches names case-insensitively (Go structs do) would see one.
var spellings = [][3]string{{"op", "path", "from"}, {"op", "path", "From"}, {"Op", "path", "from"}, {"op", "Path", "from"}, {"OP", "PATH", "FROM"}, {"op", "path", "FROM"}}

func (o op) json() string {
	n := spellings[o.spell]
	if o.kind == "<none>" {
		// an operation without the op member that carries every other member: whatever it is taken for, it is not applied as something
		return fmt.Sprintf(`{%q:%q,%q:%q,"value":%s}`, n[1], o.path, n[2], o.from, o.value)
	}
	s := fmt.Sprintf(`{%q:%q,%q:%q`, n[0], o.kind, n[1], o.path)
	if o.kind == "move" || o.kind == "copy" {
		s += fmt.Sprintf(`,%q:%q`, n[2], o.from)
	}
	if o.kind == "add" || o.kind == "replace" || o.kind == "test" {
		s += `,"value":` + o.value
	}
	return s + "}"
}

func (o op) key() string {
	sp := ""
	if o.spell != 0 {
		sp = fmt.Sprintf(" names=%v", spellings[o.spell])
	}
	q := func(p string) string { // pointers are printed as Go strings when they hold control characters
		if strings.ContainsAny(p, "\n\r\t\u2028") {
			return strconv.Quote(p)
		}
		return p
	}
	if o.kind == "move" || o.kind == "copy" || o.kind == "<none>" {
		return o.kind + " from=" + q(o.from) + " path=" + q(o.path) + sp
	}
	return o.kind + " path=" + q(o.path) + sp
}

var paths = []string{"", "/", "/publicKey", "/publicKey/0", "/publicKey/0/id", "/publicKey/-", "/service", "/service/0", "/service/0/serviceEndpoint",
	"/publicKeyX", "/servic", "/services", "/other", "/other/publicKey", "/other/0", "/alsoKnownAs", "/alsoKnownAs/0", "/nonexistent", "/public~0Key",
	"/~1publicKey", "//publicKey", "/zz", "/zz/0", "/zz/0/id", "/zz/-",
	// pointers that do not start with '/' (not RFC 6901 pointers; what the RFC 6902 library makes of them is the library's business)
	"publicKey", "x/publicKey", "x/publicKey/0", "x/service", "x/service/0/type", "publicKey/0", " /publicKey",
	// members named like the resolved-document vocabulary: other members all the same; written into a document that has no keys (docs[2])
	// or no services (docs[1]) they must not come back as keys or services
	"/verificationMethod", "/verificationMethod/0", "/services", "/publicKeys", "/authentication",
	// member names with line breaks and other blanks below a protected member (a pattern matcher may stop at a line break)
	"/publicKey/0/a\nb", "/service/0/a\nb", "/publicKey/0/\n", "/publicKey/0/a\rb", "/service/0/a\u2028b", "/publicKey/0/ ",
	// reference tokens that a file-path cleaner would resolve ("..", ".", the empty token): in a JSON pointer they are ordinary member
	// names, and docs[0] has members with exactly these names
	"/notes/../publicKey", "/notes/../service/0", "/./service", "/notes/.//publicKey/0",
	// the URI fragment representation of a pointer (RFC 6901 section 6) is not the representation RFC 6902 uses
	"#/publicKey/0", "#/service/0/serviceEndpoint", "#/publicKey", "#", "#/zz",
	// sibling members whose names contain an escaped slash: after unescaping the whole string they read like a protected pointer
	"/publicKey~10", "/service~10~1serviceEndpoint", "/publicKey~1"}

// (the last value is a whole document of its own: written at the root or anywhere else it must not bring keys or services with it)
var values = []string{`{"x":1}`, `"s"`, `[{"id":"evil","type":"T"}]`,
	`{"x":1,"publicKey":[{"id":"evil","type":"JsonWebKey2020","purposes":["authentication"],"publicKeyJwk":{"kty":"EC","crv":"P-256","x":"bksgV0ryn2qqXYl89gHcCp-uJ7C_8qHai0m7nZJg6Wk","y":"YdSW7qhsTyZG1-qtCJax0j6TfFTv0EZZwKw8WK-hYhM"}}],"service":[{"id":"evil","type":"T","serviceEndpoint":"https://evil.example/"}]}`}

// isPrefix reports whether pointer a is a token prefix of (or equal to) pointer b.
func isPrefix(a, b string) bool {
	a, b = libView(a), libView(b)
	return a == b || strings.HasPrefix(b, a+"/")
}

// libView is the pointer as the pinned RFC 6902 library reads it: whatever precedes the first '/' is ignored.
// (Only used to keep operations that copy/move a value into its own subtree out of this check: they can kill the
// process and belong to C19.)
func libView(p string) string {
	if i := strings.Index(p, "/"); i > 0 {
		return p[i:]
	}
	return p
}

type setup struct {
	docs    []string
	singles []op
}

func build() setup {
	k1 := ops.PubKeyJSON("k1", keys.New("P-256", 40), `["authentication"]`)
	k2 := ops.PubKeyJSON("k2", keys.New("Ed25519", 40), `["assertionMethod"]`)
	docs := []string{
		`{"publicKey":[` + k1 + `,` + k2 + `],"service":[{"id":"s1","type":"T","serviceEndpoint":"https://s1.example/"}],"other":{"publicKey":[1],"n":2},"alsoKnownAs":["https://aka.example/"],"publicKeyX":"sibling","servic":"sibling","services":"sibling","notes":{"..":{"publicKey":"a note","service":["another note"]},".":{"":{"publicKey":["note"]}}},".":{"service":"dot"},"":{"publicKey":["empty name"]}}`,
		`{"publicKey":[` + k1 + `],"other":[{"id":"o"}]}`,
		`{"service":[{"id":"s1","type":"T","serviceEndpoint":["https://a.example/","https://b.example/"]}],"zz":[{"id":"pre"}]}`,
	}
	var singles []op
	for _, p := range paths {
		for _, v := range values {
			singles = append(singles, op{"add", p, "", v, 0}, op{"replace", p, "", v, 0}, op{"test", p, "", v, 0})
		}
		singles = append(singles, op{"remove", p, "", "", 0})
		for _, f := range paths {
			if f != p && isPrefix(f, p) {
				continue // into own subtree: C19
			}
			singles = append(singles, op{"move", p, f, "", 0}, op{"copy", p, f, "", 0})
		}
	}
	// operations without an op member, alone
	for _, prot := range []string{"/publicKey/0", "/publicKey", "/service", "/service/0"} {
		singles = append(singles, op{"<none>", "/spare", prot, values[0], 0}, op{"<none>", prot, "/other", values[2], 0})
	}
	// the same operations on the protected members with member names in other letter case
	for sp := 1; sp < len(spellings); sp++ {
		for _, prot := range []string{"/publicKey", "/publicKey/0", "/service", "/service/0/serviceEndpoint"} {
			for _, other := range []string{"/zz", "/other"} {
				singles = append(singles, op{"move", other, prot, "", sp}, op{"copy", other, prot, "", sp}, op{"move", prot, other, "", sp}, op{"copy", prot, other, "", sp})
			}
			singles = append(singles, op{"remove", prot, "", "", sp}, op{"replace", prot, "", values[0], sp}, op{"add", prot, "", values[2], sp})
		}
	}
	return setup{docs, singles}
}

type vline struct {
	ID, Key, What string
	Detail        map[string]any
}

// Worker executes the items [start,end) (item = document index * len(singles) + index of the first operation) and
// prints "B <item>" before each item, "V <json>" per violation, "S <evals> <applied> <notapplicable>" and "E" at the end.
// Running in a child process contains fatal errors of the code under test (a cyclic document built by the RFC 6902
// library kills the process): the parent restarts after the item that died.
func Worker(args []string) {
	start, _ := strconv.Atoi(args[0])
	end, _ := strconv.Atoi(args[1])
	thorough := args[2] == "thorough"
	debug.SetMaxStack(64 << 20)
	su := build()
	dc := doccomposer.New()
	w := bufio.NewWriterSize(os.Stdout, 1<<16)
	defer w.Flush()
	var evals, applied, notApplicable int64
	type list []op
	judge := func(di int, l list) *vline {
		var js []string
		var ks []string
		for _, o := range l {
			js = append(js, o.json())
			ks = append(ks, o.key())
		}
		text := "[" + strings.Join(js, ",") + "]"
		evals++
		p, err := patch.NewJSONPatch(text)
		if err != nil {
			return nil
		}
		if patchvalidator.Validate(p) != nil {
			return nil
		}
		doc, err := document.FromBytes([]byte(su.docs[di]))
		if err != nil {
			core.Engine("c11 doc: %v", err)
		}
		var res document.Document
		func() {
			defer func() {
				if recover() != nil {
					res, err = nil, fmt.Errorf("panic")
				}
			}()
			res, err = dc.ApplyPatches(doc, []patch.Patch{p})
		}()
		if err != nil || res == nil {
			notApplicable++
			return nil
		}
		applied++
		var before, after map[string]any
		_ = json.Unmarshal([]byte(su.docs[di]), &before)
		b, _ := json.Marshal(res)
		_ = json.Unmarshal(b, &after)
		for _, member := range []string{"publicKey", "service"} {
			x, xok := before[member]
			y, yok := after[member]
			if xok != yok || !jcs.Equal(norm(x), norm(y)) {
				return &vline{ID: fmt.Sprintf("doc%d|%s", di, strings.Join(js, " ; ")), Key: strings.Join(ks, " ; "),
					What:   fmt.Sprintf("validated json patch %s changed %q: %s -> %s", text, member, core.J(x), core.J(y)),
					Detail: map[string]any{"document": su.docs[di], "patch": text, "member": member, "before": x, "after": y}}
			}
		}
		return nil
	}
	only := os.Getenv("VERIF_ONLY")
	run := func(di int, l list) {
		if only != "" {
			id := fmt.Sprintf("doc%d|", di)
			for i, o := range l {
				if i > 0 {
					id += " ; "
				}
				id += o.json()
			}
			if id != only {
				return
			}
		}
		if v := judge(di, l); v != nil {
			// confirm twice
			for k := 0; k < 2; k++ {
				if g := judge(di, l); g == nil || g.Key != v.Key {
					core.Engine("c11: verdict did not reproduce for %s", v.ID)
				}
			}
			b, _ := json.Marshal(v)
			fmt.Fprintf(w, "V %s\n", b)
		}
	}
	n := len(su.singles)
	for item := start; item < end; item++ {
		fmt.Fprintf(w, "B %d\n", item)
		w.Flush()
		di, i := item/n, item%n
		a := su.singles[i]
		run(di, list{a})
		if thorough {
			for _, b := range su.singles {
				run(di, list{a, b})
			}
			continue
		}
		if a.kind != "copy" && a.kind != "move" {
			continue
		}
		var xs []string
		for _, base := range []string{a.path, a.from} {
			for _, suf := range []string{"", "/0", "/0/id", "/-", "/id", "/1"} {
				xs = append(xs, base+suf)
			}
		}
		// an operation without an op member behind the copy / move (and before it): it has a from and a path like a move
		for _, prot := range []string{"/publicKey/0", "/publicKey", "/service", "/service/0"} {
			run(di, list{a, op{"<none>", "/spare", prot, values[0], 0}})
			run(di, list{a, op{"<none>", prot, "/other", values[2], 0}})
			run(di, list{op{"<none>", "/spare", prot, values[0], 0}, a})
		}
		for _, x := range xs {
			for _, v := range values {
				run(di, list{a, op{"add", x, "", v, 0}})
				run(di, list{a, op{"replace", x, "", v, 0}})
				run(di, list{a, op{"test", x, "", v, 0}})
			}
			run(di, list{a, op{"remove", x, "", "", 0}})
			for _, y := range []string{"/publicKey", "/publicKey/0", "/publicKey/-", "/service", "/service/0", "/zz2", "/other"} {
				if !(x != y && isPrefix(x, y)) {
					run(di, list{a, op{"move", y, x, "", 0}})
					run(di, list{a, op{"copy", y, x, "", 0}})
				}
				if !(x != y && isPrefix(y, x)) {
					run(di, list{a, op{"move", x, y, "", 0}})
					run(di, list{a, op{"copy", x, y, "", 0}})
				}
			}
		}
	}
	fmt.Fprintf(w, "S %d %d %d\nE\n", evals, applied, notApplicable)
}

func Run(r *core.Run) {
	r.Rule = "3 documents x RFC 6902 patch lists over 6 operation kinds x 57 path pointers x 57 from pointers x 4 values: all single operations; pairs (copy|move ; any operation at or below that operation's target or source, or moving/copying from there) in quick, all ordered pairs in thorough; " +
		"oracle: validated and applied => publicKey and service members deep-equal to the input's; distinct = patch lists that validate and apply (counted); non-trivial = the list validates and applies"
	r.Assumptions = []string{"operations whose from is a token prefix of their path (copy/move into own subtree, in the RFC 6902 library's reading of the pointers) are left to C19 (they can kill the process)",
		"a panic inside ApplyPatches counts as not applied here (C19 judges it); the enumeration runs in child processes so that a fatal error of the code under test costs one item, not the check"}
	su := build()
	r.Extra["single_operations"] = len(su.singles)
	self, err := os.Executable()
	if err != nil {
		core.Engine("c11: %v", err)
	}
	total := len(su.docs) * len(su.singles)
	workers := 16
	per := (total + workers - 1) / workers
	var mu sync.Mutex
	var lost []string
	var wg sync.WaitGroup
	for wk := 0; wk < workers; wk++ {
		s, e := wk*per, (wk+1)*per
		if e > total {
			e = total
		}
		if s >= e {
			continue
		}
		wg.Add(1)
		go func(s, e int) {
			defer wg.Done()
			for s < e {
				cmd := exec.Command(self, "c11worker", strconv.Itoa(s), strconv.Itoa(e), r.Tier)
				cmd.Env = os.Environ()
				out, _ := cmd.StdoutPipe()
				var stderr strings.Builder
				cmd.Stderr = &stderr
				if err := cmd.Start(); err != nil {
					core.Engine("c11: worker: %v", err)
				}
				sc := bufio.NewScanner(out)
				sc.Buffer(make([]byte, 1<<20), 1<<24)
				last, finished := s-1, false
				for sc.Scan() {
					line := sc.Text()
					switch {
					case strings.HasPrefix(line, "B "):
						last, _ = strconv.Atoi(line[2:])
					case strings.HasPrefix(line, "V "):
						var v vline
						if json.Unmarshal([]byte(line[2:]), &v) == nil {
							r.Report(v.ID, core.Fail{Key: v.Key, What: v.What, Detail: v.Detail})
						}
					case strings.HasPrefix(line, "S "):
						var ev, ap, na int64
						fmt.Sscanf(line[2:], "%d %d %d", &ev, &ap, &na)
						r.Eval(ev)
						r.AddDistinct(ap)
						mu.Lock()
						r.Extra["validated_applied"] = asInt64(r.Extra["validated_applied"]) + ap
						r.Extra["validated_not_applicable"] = asInt64(r.Extra["validated_not_applicable"]) + na
						mu.Unlock()
					case line == "E":
						finished = true
					}
				}
				werr := cmd.Wait()
				if finished && werr == nil {
					return
				}
				if last < s {
					core.Engine("c11: worker died before announcing an item: %v\n%s", werr, tailStr(stderr.String(), 1500))
				}
				first := stderr.String()
				if k := strings.Index(first, "\n"); k > 0 {
					first = first[:k]
				}
				mu.Lock()
				lost = append(lost, fmt.Sprintf("item %d (document %d, first operation %s): %s", last, last/len(su.singles), su.singles[last%len(su.singles)].json(), first))
				mu.Unlock()
				s = last + 1
			}
		}(s, e)
	}
	wg.Wait()
	if len(lost) > 0 {
		sort.Strings(lost)
		r.Extra["items_lost_to_fatal_errors_of_the_code_under_test"] = lost
		r.Cap(fmt.Sprintf("%d items lost to fatal errors of the code under test (judged by C19, not here)", len(lost)))
	}
	for i := int64(0); i < asInt64(r.Extra["validated_applied"]) && i < 1000; i++ {
		r.Class("validated-applied")
	}
	for i := int64(0); i < asInt64(r.Extra["validated_not_applicable"]) && i < 1000; i++ {
		r.Class("validated-not-applicable")
	}
	r.Sample(map[string]any{"document": su.docs[1], "patch": `[{"op":"copy","from":"/other","path":"/zz"},{"op":"replace","path":"/zz/0/id","value":"s"}]`})
	r.Sample(map[string]any{"document": su.docs[0], "patch": `[{"op":"move","from":"/publicKeyX","path":"/zz"}]`})
	r.Require("validated-applied", 500)
	r.Require("validated-not-applicable", 100)
}

func asInt64(v any) int64 {
	i, _ := v.(int64)
	return i
}

func tailStr(s string, n int) string {
	if len(s) > n {
		return s[len(s)-n:]
	}
	return s
}

func norm(v any) any {
	b, _ := json.Marshal(v)
	p, _ := jcs.Parse(b)
	return p
}
