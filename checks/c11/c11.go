// Package c11: a validated ietf-json-patch never alters public keys or services.
package c11

import (
	"encoding/json"
	"fmt"
	"strings"

	"verif/engine/core"
	"verif/gen/keys"
	"verif/gen/ops"
	"verif/ref/jcs"

	"github.com/trustbloc/sidetree-go/pkg/document"
	"github.com/trustbloc/sidetree-go/pkg/patch"
	"github.com/trustbloc/sidetree-go/pkg/versions/1_0/doccomposer"
	"github.com/trustbloc/sidetree-go/pkg/versions/1_0/operationparser/patchvalidator"
)

type op struct {
	kind, path, from, value string
}

func (o op) json() string {
	s := fmt.Sprintf(`{"op":%q,"path":%q`, o.kind, o.path)
	if o.kind == "move" || o.kind == "copy" {
		s += fmt.Sprintf(`,"from":%q`, o.from)
	}
	if o.kind == "add" || o.kind == "replace" || o.kind == "test" {
		s += `,"value":` + o.value
	}
	return s + "}"
}

func (o op) key() string {
	if o.kind == "move" || o.kind == "copy" {
		return o.kind + " from=" + o.from + " path=" + o.path
	}
	return o.kind + " path=" + o.path
}

var paths = []string{"", "/", "/publicKey", "/publicKey/0", "/publicKey/0/id", "/publicKey/-", "/service", "/service/0", "/service/0/serviceEndpoint",
	"/publicKeyX", "/servic", "/services", "/other", "/other/publicKey", "/other/0", "/alsoKnownAs", "/alsoKnownAs/0", "/nonexistent", "/public~0Key",
	"/~1publicKey", "//publicKey", "/zz", "/zz/0", "/zz/0/id", "/zz/-",
	// pointers that do not start with '/' (not RFC 6901 pointers; what the RFC 6902 library makes of them is the library's business)
	"publicKey", "x/publicKey", "x/publicKey/0", "x/service", "x/service/0/type", "publicKey/0", " /publicKey"}

var values = []string{`{"x":1}`, `"s"`, `[{"id":"evil","type":"T"}]`}

// isPrefix reports whether pointer a is a token prefix of (or equal to) pointer b.
func isPrefix(a, b string) bool {
	a, b = libView(a), libView(b)
	return a == b || strings.HasPrefix(b, a+"/")
}

// libView is the pointer as the pinned RFC 6902 library reads it: whatever precedes the first '/' is ignored.
// (Only used to keep operations that copy/move a value into its own subtree out of this check: they can kill the
// process and belong to C19.)
func libView(p string) string {
	if i := strings.Index(p, "/"); i > 0 {
		return p[i:]
	}
	return p
}

func Run(r *core.Run) {
	r.Rule = "3 documents x RFC 6902 patch lists over 6 operation kinds x 32 path pointers x 32 from pointers x 3 values: all single operations; pairs (copy|move ; any operation at or below that operation's target or source, or moving/copying from there) in quick, all ordered pairs in thorough; " +
		"oracle: validated and applied => publicKey and service members deep-equal to the input's; distinct = distinct patch lists that validate and apply; non-trivial = the list validates and applies"
	r.Assumptions = []string{"operations whose from is a token prefix of their path (copy/move into own subtree) are left to C19 (they can crash the pinned RFC 6902 library)",
		"a panic inside ApplyPatches counts as not applied here (C19 judges it)"}
	dc := doccomposer.New()
	k1 := ops.PubKeyJSON("k1", keys.New("P-256", 40), `["authentication"]`)
	k2 := ops.PubKeyJSON("k2", keys.New("Ed25519", 40), `["assertionMethod"]`)
	docs := []string{
		`{"publicKey":[` + k1 + `,` + k2 + `],"service":[{"id":"s1","type":"T","serviceEndpoint":"https://s1.example/"}],"other":{"publicKey":[1],"n":2},"alsoKnownAs":["https://aka.example/"],"publicKeyX":"sibling","servic":"sibling","services":"sibling"}`,
		`{"publicKey":[` + k1 + `],"other":[{"id":"o"}]}`,
		`{"service":[{"id":"s1","type":"T","serviceEndpoint":["https://a.example/","https://b.example/"]}],"zz":[{"id":"pre"}]}`,
	}
	var singles []op
	for _, p := range paths {
		for _, v := range values {
			singles = append(singles, op{"add", p, "", v}, op{"replace", p, "", v}, op{"test", p, "", v})
		}
		singles = append(singles, op{"remove", p, "", ""})
		for _, f := range paths {
			if f != p && isPrefix(f, p) {
				continue // into own subtree: C19
			}
			singles = append(singles, op{"move", p, f, ""}, op{"copy", p, f, ""})
		}
	}
	r.Extra["single_operations"] = len(singles)

	type list []op
	judge := func(di int, l list) *core.Fail {
		var js []string
		var ks []string
		for _, o := range l {
			js = append(js, o.json())
			ks = append(ks, o.key())
		}
		text := "[" + strings.Join(js, ",") + "]"
		p, err := patch.NewJSONPatch(text)
		if err != nil {
			return nil
		}
		if patchvalidator.Validate(p) != nil {
			return nil
		}
		doc, err := document.FromBytes([]byte(docs[di]))
		if err != nil {
			core.Engine("c11 doc: %v", err)
		}
		var res document.Document
		func() {
			defer func() {
				if recover() != nil {
					res, err = nil, fmt.Errorf("panic")
				}
			}()
			res, err = dc.ApplyPatches(doc, []patch.Patch{p})
		}()
		if err != nil || res == nil {
			r.Class("validated-not-applicable")
			return nil
		}
		r.Class("validated-applied")
		r.Observe(fmt.Sprint(di), text)
		var before, after map[string]any
		_ = json.Unmarshal([]byte(docs[di]), &before)
		b, _ := json.Marshal(res)
		_ = json.Unmarshal(b, &after)
		for _, member := range []string{"publicKey", "service"} {
			x, xok := before[member]
			y, yok := after[member]
			if xok != yok || !jcs.Equal(norm(x), norm(y)) {
				return &core.Fail{Key: strings.Join(ks, " ; "), What: fmt.Sprintf("validated json patch %s changed %q: %s -> %s", text, member, core.J(x), core.J(y)),
					Detail: map[string]any{"document": docs[di], "patch": text, "member": member, "before": x, "after": y}}
			}
		}
		return nil
	}
	run := func(di int, l list) {
		id := fmt.Sprintf("doc%d|", di)
		for i, o := range l {
			if i > 0 {
				id += " ; "
			}
			id += o.json()
		}
		if !r.Want(id) {
			return
		}
		if f := judge(di, l); f != nil {
			r.Case(id, func() *core.Fail { return judge(di, l) })
		} else {
			r.Eval(1)
		}
	}
	for di := range docs {
		di := di
		core.Parallel(len(singles), func(i int) { run(di, list{singles[i]}) })
		// pairs
		core.Parallel(len(singles), func(i int) {
			a := singles[i]
			if r.Thorough() {
				for _, b := range singles {
					run(di, list{a, b})
				}
				return
			}
			if a.kind != "copy" && a.kind != "move" {
				return
			}
			var xs []string
			for _, base := range []string{a.path, a.from} {
				for _, suf := range []string{"", "/0", "/0/id", "/-", "/id", "/1"} {
					xs = append(xs, base+suf)
				}
			}
			for _, x := range xs {
				for _, v := range values {
					run(di, list{a, op{"add", x, "", v}})
					run(di, list{a, op{"replace", x, "", v}})
					run(di, list{a, op{"test", x, "", v}})
				}
				run(di, list{a, op{"remove", x, "", ""}})
				for _, y := range []string{"/publicKey", "/publicKey/0", "/publicKey/-", "/service", "/service/0", "/zz2", "/other"} {
					if !(x != y && isPrefix(x, y)) {
						run(di, list{a, op{"move", y, x, ""}})
						run(di, list{a, op{"copy", y, x, ""}})
					}
					if !(x != y && isPrefix(y, x)) {
						run(di, list{a, op{"move", x, y, ""}})
						run(di, list{a, op{"copy", x, y, ""}})
					}
				}
			}
		})
	}
	r.Sample(map[string]any{"document": docs[1], "patch": `[{"op":"copy","from":"/other","path":"/zz"},{"op":"replace","path":"/zz/0/id","value":"s"}]`})
	r.Sample(map[string]any{"document": docs[0], "patch": `[{"op":"move","from":"/publicKeyX","path":"/zz"}]`})
	r.Require("validated-applied", 500)
	r.Require("validated-not-applicable", 100)
}

func norm(v any) any {
	b, _ := json.Marshal(v)
	p, _ := jcs.Parse(b)
	return p
}
