//go:build verif

// Package c17: long-form DIDs resolve offline, only in their own namespace, to what was created.
// Built against the instrumented tree: every iteration order of every map ranged during
// VDR.Create is explored (seam M) to decide determinism.
package c17

import (
	"crypto/ecdsa"
	"crypto/ed25519"
	"encoding/base64"
	"encoding/json"
	"fmt"
	"sort"
	"strings"

	"verif/engine/core"
	"verif/engine/explore"
	"verif/gen/keys"
	"verif/gen/ops"
	"verif/ref/jcs"
	"verif/ref/mh"
	"verif/ref/sidetree"

	"github.com/trustbloc/did-go/doc/did"
	"github.com/trustbloc/did-go/doc/did/endpoint"
	vdrapi "github.com/trustbloc/did-go/vdr/api"
	"github.com/trustbloc/kms-go/doc/jose/jwk/jwksupport"
	"github.com/trustbloc/sidetree-go/pkg/vdr/sidetreelongform"
	"github.com/trustbloc/sidetree-go/pkg/vdr/sidetreelongform/dochandler"
	rt "github.com/trustbloc/sidetree-go/pkg/verifrt"
)

type M = map[string]any

type vmSpec struct {
	id    string
	typ   string
	key   *keys.Key
	bytes bool // NewVerificationMethodFromBytes (base58 material) instead of a JWK
	rels  []did.VerificationRelationship
}

type docSpec struct {
	name string
	vms  []vmSpec
	svcs int
	akas int
}

func pub(k *keys.Key) any {
	if k.Ed != nil {
		return k.Ed.Public().(ed25519.PublicKey)
	}
	return &ecdsa.PublicKey{Curve: k.EC.Curve, X: k.EC.X, Y: k.EC.Y}
}

func build(s docSpec) (*did.Doc, error) {
	d := &did.Doc{}
	for _, v := range s.vms {
		var vm *did.VerificationMethod
		if v.bytes {
			x, _ := v.key.XY()
			vm = did.NewVerificationMethodFromBytes(v.id, v.typ, "", x)
		} else {
			j, err := jwksupport.JWKFromKey(pub(v.key))
			if err != nil {
				return nil, err
			}
			vm, err = did.NewVerificationMethodFromJWK(v.id, v.typ, "", j)
			if err != nil {
				return nil, err
			}
		}
		for _, r := range v.rels {
			ver := *did.NewReferencedVerification(vm, r)
			switch r {
			case did.Authentication:
				d.Authentication = append(d.Authentication, ver)
			case did.AssertionMethod:
				d.AssertionMethod = append(d.AssertionMethod, ver)
			case did.KeyAgreement:
				d.KeyAgreement = append(d.KeyAgreement, ver)
			case did.CapabilityDelegation:
				d.CapabilityDelegation = append(d.CapabilityDelegation, ver)
			case did.CapabilityInvocation:
				d.CapabilityInvocation = append(d.CapabilityInvocation, ver)
			}
		}
	}
	for i := 0; i < s.svcs; i++ {
		d.Service = append(d.Service, did.Service{ID: fmt.Sprintf("svc%d", i+1), Type: fmt.Sprintf("Type%d", i+1), ServiceEndpoint: endpoint.NewDIDCommV1Endpoint(fmt.Sprintf("https://svc%d.example/ep", i+1))})
	}
	for i := 0; i < s.akas; i++ {
		d.AlsoKnownAs = append(d.AlsoKnownAs, akaURI(i))
	}
	return d, nil
}

// akaURI is the i-th also-known-as URI of a document: two plain ones, then URIs that are valid but not spelled the way a URL
// library would print them (an empty fragment, non-ASCII and pct-encoded characters, upper-case scheme and host) - they are data
// and come back as supplied.
func akaURI(i int) string {
	unusual := []string{"https://www.w3.org/ns/activitystreams#", "https://example.com/users/jos\u00e9", "HTTPS://Upper.example/Me", "did:example:123#", "http://x.example/%7Euser", "https://x.example/a?b=c d"}
	if i < 2 {
		return fmt.Sprintf("https://aka%d.example/", i+1)
	}
	return unusual[(i-2)%len(unusual)]
}

var relNames = map[did.VerificationRelationship]string{did.Authentication: "authentication", did.AssertionMethod: "assertionMethod", did.KeyAgreement: "keyAgreement",
	did.CapabilityDelegation: "capabilityDelegation", did.CapabilityInvocation: "capabilityInvocation"}

// summary is the comparable content of a DID document: methods by fragment (type, key bytes), relationships by fragment, services, also-known-as.
func frag(id string) string {
	if i := strings.LastIndex(id, "#"); i >= 0 {
		return id[i+1:]
	}
	return id
}

func summarizeSpec(s docSpec) string {
	vm := M{}
	rels := map[string][]string{}
	for _, v := range s.vms {
		x, y := v.key.XY()
		vm[v.id] = M{"type": v.typ, "x": base64.RawURLEncoding.EncodeToString(x), "y": base64.RawURLEncoding.EncodeToString(y)}
		for _, r := range v.rels {
			rels[relNames[r]] = append(rels[relNames[r]], v.id)
		}
	}
	for k := range rels {
		sort.Strings(rels[k])
	}
	var svcs, akas []string
	for i := 0; i < s.svcs; i++ {
		svcs = append(svcs, fmt.Sprintf("svc%d|Type%d|https://svc%d.example/ep", i+1, i+1, i+1))
	}
	for i := 0; i < s.akas; i++ {
		akas = append(akas, akaURI(i))
	}
	return core.J(M{"vm": vm, "rels": rels, "svcs": svcs, "akas": akas})
}

func summarizeDoc(d *did.Doc) string {
	vm := M{}
	for _, v := range d.VerificationMethod {
		x, y := "", ""
		if j := v.JSONWebKey(); j != nil {
			b, _ := j.MarshalJSON()
			var m M
			_ = json.Unmarshal(b, &m)
			x, _ = m["x"].(string)
			y, _ = m["y"].(string)
		} else {
			x = base64.RawURLEncoding.EncodeToString(v.Value)
		}
		vm[frag(v.ID)] = M{"type": v.Type, "x": x, "y": y}
	}
	rels := map[string][]string{}
	add := func(name string, l []did.Verification) {
		for _, v := range l {
			rels[name] = append(rels[name], frag(v.VerificationMethod.ID))
		}
		sort.Strings(rels[name])
	}
	add("authentication", d.Authentication)
	add("assertionMethod", d.AssertionMethod)
	add("keyAgreement", d.KeyAgreement)
	add("capabilityDelegation", d.CapabilityDelegation)
	add("capabilityInvocation", d.CapabilityInvocation)
	var svcs, akas []string
	for _, s := range d.Service {
		uri, _ := s.ServiceEndpoint.URI()
		svcs = append(svcs, fmt.Sprintf("%s|%s|%s", frag(s.ID), s.Type, uri))
	}
	akas = append(akas, d.AlsoKnownAs...)
	return core.J(M{"vm": vm, "rels": rels, "svcs": svcs, "akas": akas})
}

// ionConfig is the protocol of the long-form handler (documented ION-compatible configuration).
func ionConfig() sidetree.Config {
	return sidetree.Config{MaxOperationSize: 2500, MaxOperationHashLength: 100, MaxDeltaSize: 1700, NonceSize: 16, MultihashAlgorithms: []uint64{18},
		SignatureAlgorithms: []string{"EdDSA", "ES256", "ES256K"}, KeyAlgorithms: []string{"Ed25519", "P-256", "P-384", "secp256k1"},
		Patches: []string{"replace", "add-public-keys", "remove-public-keys", "add-services", "remove-services", "add-also-known-as", "remove-also-known-as"}}
}

// wellFormed is the independent predicate: does the string have the exact long form ns:[extra:]suffix:state with a valid bound state?
// exact reports whether there are no extra segments between namespace and suffix.
func wellFormed(ns, s string) (ok bool, exact bool) {
	if !strings.HasPrefix(s, ns+":") {
		return false, false
	}
	rest := strings.Split(s[len(ns)+1:], ":")
	if len(rest) < 2 {
		return false, false
	}
	state, suffix := rest[len(rest)-1], rest[len(rest)-2]
	raw, err := base64.RawURLEncoding.Strict().DecodeString(state)
	if err != nil {
		return false, false
	}
	v, err := jcs.Parse(raw)
	if err != nil {
		return false, false
	}
	m, isObj := v.(map[string]any)
	if !isObj {
		return false, false
	}
	c, err := jcs.Canon(v)
	if err != nil || string(c) != string(raw) {
		return false, false
	}
	for k := range m {
		if k != "type" && k != "suffixData" && k != "delta" {
			return false, false
		}
	}
	if t, has := m["type"]; has && t != "create" {
		return false, false
	}
	req := M{"type": "create", "suffixData": m["suffixData"], "delta": m["delta"]}
	acc, ok := sidetree.Acceptable(ionConfig(), jcs.MustCanonGo(req))
	if !ok || acc.Suffix != suffix {
		return false, false
	}
	return true, len(rest) == 2
}

func Run(r *core.Run) {
	r.Rule = "every document size (endpoint grown one character at a time) up to the largest one Create accepts is created, read and resolved; documents from a grammar (1-3 verification methods over Ed25519-2018 bytes and JsonWebKey2020 over Ed25519 / P-256 / P-384 / secp256k1, single and multiple relationships, 0-2 services, 0-2 also-known-as): " +
		"Create -> Read equivalence, id, metadata; determinism over every iteration order of every map ranged during Create (instrumented build, seam M); " +
		"every single-character substitution (4 replacement characters), deletion and insertion of the created DIDs; re-encodings of the initial state; look-alike namespaces; " +
		"distinct = distinct DID strings resolved; non-trivial = all"
	r.Assumptions = []string{"built with `go build -tags verif -overlay` from a freshly instrumented copy of the working tree (vinst, seam M only)",
		"independent well-formedness predicate: ref/jcs, ref/mh, ref/sidetree.Acceptable with the documented long-form protocol configuration",
		"DIDs with extra segments between namespace and suffix are observed, not judged", "document equivalence compares methods by fragment (type, key material), relationships, services and also-known-as as parsed by did-go"}
	vdr, err := sidetreelongform.New()
	if err != nil {
		core.Engine("c17: VDR: %v", err)
	}
	handler, err := dochandler.New("did:ion")
	if err != nil {
		core.Engine("c17: handler: %v", err)
	}
	A, AS, KA, CD, CI := did.Authentication, did.AssertionMethod, did.KeyAgreement, did.CapabilityDelegation, did.CapabilityInvocation
	jw := "JsonWebKey2020"
	specs := []docSpec{
		{"one-ed-jwk", []vmSpec{{"k1", jw, keys.New("Ed25519", 200), false, []did.VerificationRelationship{A}}}, 0, 0},
		{"one-p256-multi", []vmSpec{{"k1", jw, keys.New("P-256", 200), false, []did.VerificationRelationship{A, AS, CD, CI, KA}}}, 1, 1},
		{"one-p384", []vmSpec{{"key-384", jw, keys.New("P-384", 200), false, []did.VerificationRelationship{AS}}}, 0, 2},
		{"one-secp256k1", []vmSpec{{"k", jw, keys.New("secp256k1", 200), false, []did.VerificationRelationship{A, KA}}}, 2, 0},
		{"one-ed2018-bytes", []vmSpec{{"b58", "Ed25519VerificationKey2018", keys.New("Ed25519", 201), true, []did.VerificationRelationship{AS, A}}}, 1, 0},
		{"two-keys", []vmSpec{{"k1", jw, keys.New("Ed25519", 202), false, []did.VerificationRelationship{A}}, {"k2", jw, keys.New("P-256", 202), false, []did.VerificationRelationship{AS, KA}}}, 1, 1},
		{"two-keys-reverse-ids", []vmSpec{{"zz", jw, keys.New("P-256", 203), false, []did.VerificationRelationship{A}}, {"aa", "Ed25519VerificationKey2018", keys.New("Ed25519", 203), true, []did.VerificationRelationship{A, AS}}}, 0, 0},
		{"three-keys", []vmSpec{{"k1", jw, keys.New("Ed25519", 204), false, []did.VerificationRelationship{A, CI}}, {"k2", jw, keys.New("P-256", 204), false, []did.VerificationRelationship{KA}},
			{"k3", jw, keys.New("secp256k1", 204), false, []did.VerificationRelationship{AS, CD}}}, 2, 2},
		{"services-only", nil, 2, 1},
		{"akas-unusual-spellings", []vmSpec{{"k1", jw, keys.New("Ed25519", 214), false, []did.VerificationRelationship{A}}}, 0, 8},
		{"akas-only-unusual", nil, 0, 5},
		// ids that an order other than the plain string order would tie or swap: numbers with leading zeros, a bare name next to
		// name0, letter case, a prefix, digits against letters
		{"ids-leading-zeros", []vmSpec{{"key1", jw, keys.New("Ed25519", 205), false, []did.VerificationRelationship{A}}, {"key01", jw, keys.New("Ed25519", 206), false, []did.VerificationRelationship{A}},
			{"key001", jw, keys.New("Ed25519", 207), false, []did.VerificationRelationship{A}}}, 0, 0},
		{"ids-name-and-name0", []vmSpec{{"key", jw, keys.New("P-256", 205), false, []did.VerificationRelationship{A}}, {"key0", jw, keys.New("P-256", 206), false, []did.VerificationRelationship{AS}},
			{"key00", jw, keys.New("P-256", 207), false, []did.VerificationRelationship{KA}}}, 0, 0},
		{"ids-letter-case", []vmSpec{{"Key", jw, keys.New("Ed25519", 208), false, []did.VerificationRelationship{A}}, {"key", jw, keys.New("P-256", 208), false, []did.VerificationRelationship{AS}},
			{"KEY", jw, keys.New("secp256k1", 208), false, []did.VerificationRelationship{KA}}}, 0, 0},
		{"ids-numeric", []vmSpec{{"10", jw, keys.New("Ed25519", 209), false, []did.VerificationRelationship{A}}, {"9", jw, keys.New("P-256", 209), false, []did.VerificationRelationship{AS}},
			{"09", jw, keys.New("P-256", 211), false, []did.VerificationRelationship{KA}}, {"-", jw, keys.New("P-256", 212), false, []did.VerificationRelationship{A}}}, 0, 0},
	}
	upd, rec := keys.New("Ed25519", 210), keys.New("P-256", 210)
	opts := []vdrapi.DIDMethodOption{vdrapi.WithOption(sidetreelongform.UpdatePublicKeyOpt, pub(upd)), vdrapi.WithOption(sidetreelongform.RecoveryPublicKeyOpt, pub(rec))}
	created := map[string]string{}
	for _, sp := range specs {
		sp := sp
		id := "create-read/" + sp.name
		r.Case(id, func() *core.Fail {
			d, err := build(sp)
			if err != nil {
				core.Engine("c17: build %s: %v", sp.name, err)
			}
			det := M{"document": sp.name, "expected": summarizeSpec(sp)}
			res, err := vdr.Create(d, opts...)
			if err != nil {
				return &core.Fail{Key: id, What: "Create refused a valid document: " + err.Error(), Detail: det}
			}
			L := res.DIDDocument.ID
			det["did"] = L
			if ok, exact := wellFormed("did:ion", L); !ok || !exact {
				return &core.Fail{Key: id, What: "created DID is not of the form did:ion:<suffix>:<canonical initial state>: " + L, Detail: det}
			}
			if got := summarizeDoc(res.DIDDocument); got != summarizeSpec(sp) {
				return &core.Fail{Key: id, What: fmt.Sprintf("document returned by Create %s differs from the supplied %s", got, summarizeSpec(sp)), Detail: det}
			}
			rd, err := vdr.Read(L)
			if err != nil {
				return &core.Fail{Key: id, What: "created long-form DID does not resolve: " + err.Error(), Detail: det}
			}
			if rd.DIDDocument.ID != L {
				return &core.Fail{Key: id, What: "resolved document id " + rd.DIDDocument.ID + " is not the requested DID", Detail: det}
			}
			if got := summarizeDoc(rd.DIDDocument); got != summarizeSpec(sp) {
				return &core.Fail{Key: id, What: fmt.Sprintf("resolved document %s differs from the supplied %s", got, summarizeSpec(sp)), Detail: det}
			}
			md := rd.DocumentMetadata
			short := L[:strings.LastIndex(L, ":")]
			foundShort := false
			for _, e := range md.EquivalentID {
				if e == short {
					foundShort = true
				}
			}
			if md == nil || md.Method == nil || md.Method.Published || !foundShort || md.Method.UpdateCommitment != ops.Commitment(upd, 18) || md.Method.RecoveryCommitment != ops.Commitment(rec, 18) {
				return &core.Fail{Key: id, What: fmt.Sprintf("metadata %s: expected unpublished, equivalentId containing %s, commitments of the supplied keys", core.J(md), short), Detail: det}
			}
			// the handler path: resolve the same DID directly
			hr, err := handler.ResolveDocument(L)
			if err != nil || hr.Document.ID() != L {
				return &core.Fail{Key: id, What: fmt.Sprintf("handler resolution failed or wrong id: %v", err), Detail: det}
			}
			created[sp.name] = L
			return nil
		})
		r.Observe("created", created[sp.name])
	}
	// ProcessOperation(create) -> same long-form DID and resolvable
	for name, L := range created {
		name, L := name, L
		r.Case("process-operation/"+name, func() *core.Fail {
			state := L[strings.LastIndex(L, ":")+1:]
			raw, _ := base64.RawURLEncoding.DecodeString(state)
			res, err := handler.ProcessOperation(raw)
			if err != nil || res.Document.ID() != L {
				got := ""
				if res != nil {
					got = res.Document.ID()
				}
				return &core.Fail{Key: "process-operation/" + name, What: fmt.Sprintf("processing the create request gives %q (%v), expected %s", got, err, L), Detail: M{"did": L}}
			}
			// the same request in other spellings of the same JSON value (member order, an escaped character, indentation): whatever is
			// returned for it is a long-form DID, so it must be the canonical one and must resolve
			var v M
			_ = json.Unmarshal(raw, &v)
			sd, _ := json.Marshal(v["suffixData"])
			dl, _ := json.Marshal(v["delta"])
			indented, _ := json.MarshalIndent(v, "", "  ")
			for vi, spelled := range [][]byte{[]byte(`{"type":"create","suffixData":` + string(sd) + `,"delta":` + string(dl) + `}`),
				[]byte(strings.Replace(string(raw), `"type":"create"`, `"type":"\u0063reate"`, 1)), indented, append([]byte(" "), append(append([]byte{}, raw...), '\n')...)} {
				r2, err := handler.ProcessOperation(spelled)
				if err != nil {
					continue // refusing a non-canonical spelling is not a matter of this property
				}
				det := M{"did": L, "request_as_sent": string(spelled), "spelling": vi}
				if r2.Document.ID() != L {
					return &core.Fail{Key: "process-operation-spelling", What: fmt.Sprintf("the create request in another spelling of the same JSON value gives the DID %s instead of %s", trunc(r2.Document.ID()), trunc(L)), Detail: det}
				}
				if _, err := handler.ResolveDocument(r2.Document.ID()); err != nil {
					return &core.Fail{Key: "process-operation-spelling", What: "the DID returned for a create request does not resolve: " + err.Error(), Detail: det}
				}
			}
			return nil
		})
	}

	// ---- every document size up to the largest one Create accepts: whatever Create hands out resolves. The endpoint of one service
	// grows a character at a time until Create refuses the document (size limits of the shipped configuration); two document shapes
	{
		sweeps := 0
		for _, shape := range []docSpec{
			{"size-sweep-one-key", []vmSpec{{"k1", jw, keys.New("Ed25519", 220), false, []did.VerificationRelationship{A}}}, 1, 0},
			{"size-sweep-two-keys", []vmSpec{{"k1", jw, keys.New("P-256", 221), false, []did.VerificationRelationship{A, KA}}, {"k2", jw, keys.New("secp256k1", 221), false, []did.VerificationRelationship{AS}}}, 1, 1},
		} {
			shape := shape
			largest, refusedAt := -1, -1
			step := 1
			if !r.Thorough() && shape.name == "size-sweep-two-keys" {
				step = 7 // quick: the second shape in steps of 7 characters (the first one character by character)
			}
			for pad := 0; pad < 6000; pad += step {
				d, err := build(shape)
				if err != nil {
					core.Engine("c17: build %s: %v", shape.name, err)
				}
				d.Service[0].ServiceEndpoint = endpoint.NewDIDCommV1Endpoint("https://svc.example/" + strings.Repeat("p", pad))
				res, err := vdr.Create(d, opts...)
				if err != nil {
					refusedAt = pad
					break
				}
				largest = pad
				sweeps++
				L := res.DIDDocument.ID
				id := fmt.Sprintf("%s/padding=%d", shape.name, pad)
				r.Case(id, func() *core.Fail {
					det := M{"document": shape.name, "endpoint_padding": pad, "did_length": len(L)}
					rd, err := vdr.Read(L)
					if err != nil {
						return &core.Fail{Key: shape.name + "/created-but-unresolvable", What: fmt.Sprintf("Create handed out a long-form DID of %d characters (endpoint padding %d) that does not resolve: %v", len(L), pad, err), Detail: det}
					}
					if rd.DIDDocument.ID != L || len(rd.DIDDocument.Service) != 1 {
						return &core.Fail{Key: shape.name + "/resolved-differently", What: fmt.Sprintf("DID of %d characters resolves to id %s with %d services", len(L), rd.DIDDocument.ID, len(rd.DIDDocument.Service)), Detail: det}
					}
					if hr, err := handler.ResolveDocument(L); err != nil || hr.Document.ID() != L {
						return &core.Fail{Key: shape.name + "/handler-resolution", What: fmt.Sprintf("handler resolution of a created DID of %d characters failed or gave another id: %v", len(L), err), Detail: det}
					}
					return nil
				})
			}
			r.Extra["size_sweep_"+shape.name] = M{"largest_endpoint_padding_accepted_by_create": largest, "first_padding_refused": refusedAt, "step": step}
			if refusedAt < 0 {
				core.Engine("c17: size sweep never reached a document that Create refuses")
			}
		}
		r.AddDistinct(int64(sweeps))
	}

	// ---- determinism: every map iteration order during Create
	for _, sp := range specs {
		sp := sp
		if len(sp.vms) < 1 {
			continue
		}
		id := "determinism/" + sp.name
		seen := map[string][]int{}
		// deviation-bounded: the sorted order is the default at every ranged map; executions with at most
		// `bound` non-default choices are enumerated completely (the first key choice of a Lehmer code or a
		// rotation counts as one deviation)
		bound := core.Pick(r, 2, 3)
		st := explore.Run(bound, 200000, func(c *explore.Ctx) {
			d, _ := build(sp)
			rt.OrderChooser = func(n int, label string) int {
				return c.Choose(n, label, func(i int) int {
					if i == 0 {
						return 0
					}
					return 1
				})
			}
			defer func() { rt.OrderChooser = nil }()
			res, err := vdr.Create(d, opts...)
			out := "error: " + fmt.Sprint(err)
			if err == nil {
				out = res.DIDDocument.ID
			}
			if _, ok := seen[out]; !ok {
				seen[out] = append([]int{}, c.Choices...)
			}
		}, nil)
		r.Extra["map_order_deviation_bound"] = bound
		r.Eval(st.Executions)
		r.Extra["map_orders_explored_"+sp.name] = st.Executions
		if st.CapHit {
			r.Cap("map-order exploration capped at 200000 executions for " + sp.name)
		}
		if len(sp.vms) >= 2 {
			r.Class("multi-key-orders")
		}
		if len(seen) > 1 {
			var outs []string
			for o := range seen {
				outs = append(outs, o[:60]+"...")
			}
			sort.Strings(outs)
			r.Report(id, core.Fail{Key: id, What: fmt.Sprintf("Create is not deterministic: %d different results over the map iteration orders", len(seen)), Detail: M{"document": sp.name, "results": seen}})
		}
	}
	r.Exhaustive = false
	r.Caps = append(r.Caps, "map iteration orders: all executions with at most the stated number of non-default order choices (deviation bound), not all products of orders")
	if rt.OrderCapped {
		r.Caps = append(r.Caps, "a map with more than 4 entries was ranged: only rotations and the reversal of its sorted order are alternatives")
	}

	// ---- tamper evidence
	var tampered []string
	names := make([]string, 0, len(created))
	for n := range created {
		names = append(names, n)
	}
	sort.Strings(names)
	limit := core.Pick(r, 3, len(names))
	for ni, n := range names {
		if ni >= limit {
			break
		}
		L := created[n]
		for i := 0; i < len(L); i++ {
			for _, ch := range []byte{'A', ':', 'x', '_'} {
				if L[i] != ch {
					tampered = append(tampered, L[:i]+string(ch)+L[i+1:])
				}
			}
			tampered = append(tampered, L[:i]+L[i+1:], L[:i]+"B"+L[i:])
		}
		// the last character of the initial state may carry unused low bits: every other base64url character there
		// (a decoder that ignores those bits must not make two spellings of one state resolve)
		for _, ch := range "ABCDEFGHIJKLMNOPQRSTUVWXYZabcdefghijklmnopqrstuvwxyz0123456789-_" {
			if byte(ch) != L[len(L)-1] {
				tampered = append(tampered, L[:len(L)-1]+string(ch))
			}
		}
		// something behind the initial state that a DID URL parser would take for a fragment, query or path: the string is not the DID
		for _, tail := range []string{"#", "?", "/", "#key-1", "?service=hub", "/path", "?versionId=1#key-1", ";x", "%23", " "} {
			tampered = append(tampered, L+tail)
		}
		// suffix of another document, re-encodings, short form
		parts := strings.Split(L, ":")
		state, suffix := parts[3], parts[2]
		raw, _ := base64.RawURLEncoding.DecodeString(state)
		for _, o := range names {
			if o != n {
				tampered = append(tampered, "did:ion:"+strings.Split(created[o], ":")[2]+":"+state)
			}
		}
		// segment surgery: an extra segment at every boundary (after the namespace, between suffix and state, at the end), segments
		// duplicated, dropped and swapped; the extra segment is a word, empty, the suffix itself, another document's suffix or the state
		{
			otherSuffix := suffix
			for _, o := range names {
				if o != n {
					otherSuffix = strings.Split(created[o], ":")[2]
					break
				}
			}
			segs := []string{"did", "ion", suffix, state}
			for _, extra := range []string{"x", "", suffix, otherSuffix, state, "ion", "a:b:c"} {
				for pos := 1; pos <= len(segs); pos++ {
					withExtra := append(append(append([]string{}, segs[:pos]...), extra), segs[pos:]...)
					tampered = append(tampered, strings.Join(withExtra, ":"))
				}
			}
			tampered = append(tampered, strings.Join([]string{"did", "ion", state, suffix}, ":"), strings.Join([]string{"did", "ion", suffix, suffix}, ":"),
				strings.Join([]string{"did", "ion", state, state}, ":"), strings.Join([]string{"did", "ion", otherSuffix, suffix, state}, ":"), strings.Join([]string{"did", "ion", suffix, otherSuffix, state}, ":"))
		}
		var v M
		_ = json.Unmarshal(raw, &v)
		enc := base64.RawURLEncoding.EncodeToString
		pretty, _ := json.MarshalIndent(v, "", " ")
		goOrder, _ := json.Marshal(struct {
			Type string `json:"type"`
			SD   any    `json:"suffixData"`
			D    any    `json:"delta"`
		}{"create", v["suffixData"], v["delta"]})
		// the initial state as other Sidetree implementations write it: without the optional type member (same suffix)
		noType := jcs.MustCanonGo(M{"suffixData": v["suffixData"], "delta": v["delta"]})
		tampered = append(tampered, "did:ion:"+suffix+":"+enc(noType))
		v2 := M{"type": "create", "suffixData": v["suffixData"], "delta": v["delta"], "extra": 1}
		extra := jcs.MustCanonGo(v2)
		tampered = append(tampered, "did:ion:"+suffix+":"+enc(pretty), "did:ion:"+suffix+":"+enc(goOrder), "did:ion:"+suffix+":"+state+"=", "did:ion:"+suffix+":"+state+"==",
			"did:ion:"+suffix+":"+base64.StdEncoding.EncodeToString(raw), "did:ion:"+suffix+":"+base64.URLEncoding.EncodeToString(raw), "did:ion:"+suffix+":"+enc(extra),
			"did:ion:"+suffix+":"+enc(append(raw, ' ')), "did:ion:"+suffix, "did:ion:"+suffix+":", "did:ion::"+state, suffix+":"+state,
			"did:ionx:"+suffix+":"+state, "did:io:"+suffix+":"+state, "did:ion"+suffix+":"+state, "xdid:ion:"+suffix+":"+state, "DID:ION:"+suffix+":"+state, "did:ION:"+suffix+":"+state,
			"did:ion:ion:"+suffix+":"+state, "did:ion-test:"+suffix+":"+state, "did:ion.:"+suffix+":"+state, "did:ion :"+suffix+":"+state)
	}
	r.Extra["tampered_dids"] = len(tampered)
	core.Parallel(len(tampered), func(i int) {
		s := tampered[i]
		id := fmt.Sprintf("tamper/%d", i)
		r.Case(id, func() *core.Fail {
			ok, exact := wellFormed("did:ion", s)
			_, e1 := handler.ResolveDocument(s)
			resolves := e1 == nil
			det := M{"did": s, "well_formed": ok, "exact_form": exact}
			if resolves && !ok {
				return &core.Fail{Key: classify(s), What: "a DID that is not a well-formed long-form DID of this namespace resolves: " + trunc(s), Detail: det}
			}
			// the VDR front end answers as the handler does (it must not repair, cut or re-spell what it is given)
			if rd, e3 := vdr.Read(s); (e3 == nil) != resolves {
				got := "an error: " + fmt.Sprint(e3)
				if e3 == nil {
					got = "a document with id " + trunc(rd.DIDDocument.ID)
				}
				return &core.Fail{Key: "vdr-handler-disagree/" + classify(s), What: fmt.Sprintf("VDR.Read gives %s where the document handler says resolves=%v: %s", got, resolves, trunc(s)), Detail: det}
			}
			if !resolves && ok && exact {
				return &core.Fail{Key: "refused-well-formed", What: fmt.Sprintf("well-formed long-form DID refused (%v): %s", e1, trunc(s)), Detail: det}
			}
			if resolves {
				rd, e2 := vdr.Read(s)
				if e2 != nil {
					return &core.Fail{Key: "vdr-handler-disagree", What: "handler resolves but VDR.Read fails: " + e2.Error(), Detail: det}
				}
				// whatever resolves, resolves to a document whose id is the DID that was asked for (exact-form DIDs; other accepted
				// forms are observed in the evidence, not judged)
				hr, _ := handler.ResolveDocument(s)
				if exact && (rd.DIDDocument.ID != s || hr == nil || hr.Document.ID() != s) {
					return &core.Fail{Key: "resolved-under-another-id", What: fmt.Sprintf("the DID %s resolves to a document whose id is %s", trunc(s), trunc(rd.DIDDocument.ID)), Detail: det}
				}
			}
			return nil
		})
		r.Observe(s)
		if ok, _ := wellFormed("did:ion", s); ok {
			r.Class("tampered-still-well-formed")
		} else {
			r.Class("tampered-malformed")
		}
	})
	// a handler whose namespace is a prefix of another method's
	for _, pair := range [][2]string{{"did:ion", "did:ionx"}, {"did:io", "did:ion"}, {"did:a", "did:a:b"}} {
		pair := pair
		h, err := dochandler.New(pair[0])
		if err != nil {
			continue
		}
		L := created[names[0]]
		other := pair[1] + L[len("did:ion"):]
		r.Case("namespace/"+pair[0]+"-vs-"+pair[1], func() *core.Fail {
			ok, _ := wellFormed(pair[0], other)
			if _, err := h.ResolveDocument(other); err == nil && !ok {
				return &core.Fail{Key: "namespace-prefix/" + pair[0] + "/" + pair[1], What: fmt.Sprintf("handler for %s resolves %s", pair[0], trunc(other)), Detail: M{"namespace": pair[0], "did": other}}
			}
			return nil
		})
	}
	if len(names) > 0 {
		r.Sample(M{"created_did": created[names[0]], "tamperings": "every single-character substitution / deletion / insertion, re-encodings, look-alike namespaces"})
	}
	r.Require("tampered-malformed", 1000)
	r.Require("multi-key-orders", 2)
	_ = mh.SHA256
}

func trunc(s string) string {
	if len(s) > 90 {
		return s[:90] + "..."
	}
	return s
}

// classify keys an accepted malformed DID by what is wrong with its head.
func classify(s string) string {
	switch {
	case !strings.HasPrefix(s, "did:ion:"):
		i := strings.Index(s, "Ei")
		if i < 0 || i > 20 {
			i = 12
		}
		return "resolves-foreign-namespace/" + s[:i]
	default:
		return "resolves-malformed/" + fmt.Sprint(len(strings.Split(s, ":"))) + "-segments"
	}
}
