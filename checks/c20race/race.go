// Package c20race is the supplementary free-running pass of the C20 scenarios: real goroutines,
// real sync, built with -race. Fixed iteration counts, no wall-clock oracle.
package c20race

import (
	"fmt"
	"sync"

	"verif/checks/c20/scen"
)

type rec struct{}

func (rec) Call(_ int, _ string, f func() string) { _ = f() }

func Run() {
	for _, sc := range scen.All() {
		iters := 30
		if sc.Name == "handler-vdr" {
			iters = 6
		}
		for it := 0; it < iters; it++ {
			shared := sc.Setup()
			var wg sync.WaitGroup
			start := make(chan struct{})
			for tid, th := range sc.Threads {
				wg.Add(1)
				tid, th := tid, th
				go func() {
					defer wg.Done()
					defer func() { _ = recover() }()
					<-start
					th(shared, rec{}, tid)
				}()
			}
			close(start)
			wg.Wait()
		}
	}
	fmt.Println("racepass done")
}
