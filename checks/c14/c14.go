// Package c14: documents, patches and their byte encodings round-trip.
package c14

import (
	"encoding/json"
	"fmt"
	"sort"
	"strings"

	"verif/engine/core"
	"verif/gen/keys"
	"verif/gen/ops"
	"verif/gen/patches"
	"verif/ref/jcs"
	rpatch "verif/ref/patch"
	"verif/ref/rules"

	"github.com/trustbloc/sidetree-go/pkg/document"
	"github.com/trustbloc/sidetree-go/pkg/patch"
	"github.com/trustbloc/sidetree-go/pkg/versions/1_0/doccomposer"
	"github.com/trustbloc/sidetree-go/pkg/versions/1_0/operationparser/patchvalidator"
)

type M = map[string]any

func generic(v any) any {
	b, _ := json.Marshal(v)
	p, _ := jcs.Parse(b)
	return p
}

func Run(r *core.Run) {
	r.Rule = "documents: {1,2,3 keys} x {0,1,2 services} x {0,1,2 also-known-as} x every subset of 5 kinds of further members, 17 further member names that begin like a reserved name (identifier, services, publicKeys, ...) (thorough: also every order of the key list): PatchesFromDocument -> every patch validates -> ApplyPatches({}) reproduces the document; " +
		"8 constructors on valid and structurally invalid input; FromBytes(Bytes(p)) for every patch of the C10 alphabet and of the documents; FromBytes on {action a, value key k} for all 8 x 7 (+ unknown / missing / non-string action); documents with an id; " +
		"distinct = distinct documents / patch texts; non-trivial = all"
	r.Assumptions = []string{"document equality through the observable projection of ref/patch", "member names are ordinary (no JSON-pointer or quoting metacharacters), as the statement requires"}
	dc := doccomposer.New()
	k := []string{ops.PubKeyJSON("k1", keys.New("P-256", 70), `["authentication"]`), ops.PubKeyJSON("k2", keys.New("Ed25519", 70), `["assertionMethod","keyAgreement"]`),
		`{"id":"k3","type":"Ed25519VerificationKey2018","publicKeyBase58":"GY4GunSXBPBfhLCzDL7iGmP5dR3sBDCJZkkaGK8VgYQf"}`}
	s := []string{`{"id":"s1","type":"T","serviceEndpoint":"https://s1.example/"}`, `{"id":"s2","type":"U","serviceEndpoint":["https://a.example/","https://b.example/"],"priority":2}`}
	a := []string{`"https://aka1.example/"`, `"did:example:aka2"`}
	others := []string{`"scalar":"v"`, `"object":{"n":1,"m":{"deep":[1,2]}}`, `"array":[1,"two",{"three":3}]`, `"nothing":null`, `"number":-1.5e3`}
	var docs []string
	keyLists := [][]string{{k[0]}, {k[0], k[1]}, {k[0], k[1], k[2]}}
	if r.Thorough() {
		keyLists = append(keyLists, []string{k[1], k[0]}, []string{k[2], k[1], k[0]}, []string{k[1], k[2], k[0]})
	}
	for _, kl := range keyLists {
		for ns := 0; ns <= 2; ns++ {
			for na := 0; na <= 2; na++ {
				for mask := 0; mask < 32; mask++ {
					var members []string
					members = append(members, `"publicKey":[`+strings.Join(kl, ",")+`]`)
					if ns > 0 {
						members = append(members, `"service":[`+strings.Join(s[:ns], ",")+`]`)
					}
					if na > 0 {
						members = append(members, `"alsoKnownAs":[`+strings.Join(a[:na], ",")+`]`)
					}
					for b := 0; b < 5; b++ {
						if mask&(1<<b) != 0 {
							members = append(members, others[b])
						}
					}
					docs = append(docs, "{"+strings.Join(members, ",")+"}")
				}
			}
		}
	}
	// further members whose ordinary names begin like a reserved member name (id, service, publicKey, alsoKnownAs, @context) without being one
	for _, name := range []string{"identifier", "idx", "i", "ids", "services", "serviceProvider", "servic", "publicKeys", "publicKeyBase", "publicKe", "alsoKnownAsWell", "alsoKnown", "context", "contexts", "document", "patches", "action"} {
		docs = append(docs, `{"publicKey":[`+k[0]+`],"`+name+`":{"n":[1]}}`, `{"publicKey":[`+k[0]+`],"service":[`+s[0]+`],"alsoKnownAs":[`+a[0]+`],"`+name+`":"v","scalar":1}`)
	}
	// further members whose values hold characters that mean something to a formatter, a template or an escaper: percent signs
	// (with and without a verb letter after them, also last), braces, backslashes, quotes, HTML characters, U+2028
	for vi, v := range []string{`"https://x.example/my%20page"`, `"100%"`, `"50%% off"`, `["a%sb","%d","%v%"]`, `{"progress":"100%","n":1}`, `"{{.}} ${x} {0}"`, `"back\\slash \"quoted\""`, `"<a href=\"x\">&amp;</a>"`, "\"line\u2028sep\""} {
		docs = append(docs, `{"publicKey":[`+k[0]+`],"homepage":`+v+`}`, `{"service":[`+s[0]+`],"m`+fmt.Sprint(vi)+`":`+v+`,"scalar":"v"}`)
	}
	// a key and a service with the same id (their id spaces are separate), in both positions of two-entry lists
	docs = append(docs, `{"publicKey":[`+strings.Replace(k[0], `"id":"k1"`, `"id":"hub"`, 1)+`],"service":[{"id":"hub","type":"T","serviceEndpoint":"https://hub.example/"}]}`,
		`{"publicKey":[`+k[0]+`,`+k[1]+`],"service":[{"id":"k2","type":"T","serviceEndpoint":"https://a.example/"},{"id":"s9","type":"U","serviceEndpoint":"https://b.example/"},{"id":"k1","type":"V","serviceEndpoint":"https://c.example/"}]}`)
	// also-known-as URIs that are valid but not spelled the way a URL library would print them: they are data and must come back as written
	for _, u := range []string{`"HTTPS://Upper.example/Me"`, `"https://x.example/jos\u00e9"`, `"https://x.example/me#"`, `"http://x.example/%7Euser"`, `"did:Example:ABC"`, `"https://x.example/a b"`} {
		docs = append(docs, `{"publicKey":[`+k[0]+`],"alsoKnownAs":[`+u+`,"https://plain.example/"]}`, `{"alsoKnownAs":[`+u+`]}`)
	}
	// keys of the other allowed types and JWK forms: OKP keys have no y member (RFC 8037), RSA keys have n and e, a JWK may carry
	// further members of any JSON type (RFC 7517: kid, alg, key_ops, ext, x5c)
	{
		p256 := keys.New("P-256", 71).JWK()
		sk := keys.New("secp256k1", 71).JWK()
		forms := []string{
			`{"id":"x1","type":"X25519KeyAgreementKey2019","purposes":["keyAgreement"],"publicKeyJwk":{"kty":"OKP","crv":"X25519","x":"hSDwCYkwp1R0i33ctD73Wg2_Og0mOBr066SpjqqbTmo"}}`,
			`{"id":"e1","type":"JsonWebKey2020","purposes":["authentication"],"publicKeyJwk":{"kty":"OKP","crv":"Ed25519","x":"` + keys.New("Ed25519", 71).JWK().X + `"}}`,
			`{"id":"e4","type":"JsonWebKey2020","purposes":["assertionMethod"],"publicKeyJwk":{"kty":"OKP","crv":"Ed448","x":"X9dEm1m0Yf0s54fsYWrUah2hNCSFpw4fig6nXYDpZ3jt8SR2m0bHBhvWeD3x5Q9s0foavq_oJWGA"}}`,
			`{"id":"r1","type":"JsonWebKey2020","purposes":["authentication"],"publicKeyJwk":{"kty":"RSA","n":"sXchDaQebHnPiGvyDOAT4saGEUetSyo9MKLOoWFsueri23bOdgWp4Dy1WlUzewbgBHod5pcM9H95GQRV3JDXboIRROSBigeC5yjU1hGzHHyXss8UDprecbAYxknTcQkhslANGRUZmdTOQ5qTRsLAt6BTYuyvVRdhS8exSZEy_c4gs_7svlJJQ4H9_NxsiIoLwAEk7-Q3UXERGYw_75IDrGA84-lA_-Ct4eTlXHBIY2EaV7t7LjJaynVJCpkv4LKjTTAumiGUIuQhrNhZLuF_RJLqHpM2kgWFLU7-VTdL1VbC2tejvcI2BlMkEpk1BzBZI0KQB0GaDWFLN-aEAw3vRw","e":"AQAB"}}`,
			`{"id":"c1","type":"EcdsaSecp256k1VerificationKey2019","purposes":["authentication"],"publicKeyJwk":{"kty":"EC","crv":"secp256k1","x":"` + sk.X + `","y":"` + sk.Y + `"}}`,
			`{"id":"b1","type":"Bls12381G2Key2020","purposes":["assertionMethod"],"publicKeyBase58":"25ETdUZDVnME6yYuAMjFRCnCPcDmYQcoZDcZuXAfeMhXPvjZg35QmZ7uctBcovA69YDM3Jf7s5BHo4u1y89nY6mHiji8yphZ4AMm4iNCRh35edSg76Dkasu3MY2VS9LnuaVQ"}`,
			`{"id":"j1","type":"JsonWebKey2020","purposes":["authentication"],"publicKeyJwk":{"kty":"EC","crv":"P-256","x":"` + p256.X + `","y":"` + p256.Y + `","kid":"key-1","alg":"ES256","use":"sig","key_ops":["verify"],"ext":true,"x5c":["MIIB"]}}`,
		}
		for _, f := range forms {
			docs = append(docs, `{"publicKey":[`+f+`]}`, `{"publicKey":[`+k[0]+`,`+f+`],"service":[`+s[0]+`],"scalar":"v"}`)
		}
		docs = append(docs, `{"publicKey":[`+strings.Join(forms, ",")+`]}`)
	}
	// further members whose values are "empty": an empty list, object and string, null, zero, false - alone and next to keys, services, also-known-as
	for vi, v := range []string{`[]`, `{}`, `""`, `null`, `0`, `false`, `[[]]`, `{"inner":[]}`, `{"name":"alice","nickname":null}`, `["x",null,"y"]`, `{"a":{"b":{"c":null,"d":[null]}}}`, `[null]`} {
		docs = append(docs, `{"publicKey":[`+k[0]+`],"service":[`+s[0]+`],"alsoKnownAs":[`+a[0]+`],"tags":`+v+`,"scalar":"v"}`, `{"empty`+fmt.Sprint(vi)+`":`+v+`}`, `{"publicKey":[`+k[0]+`],"a":`+v+`,"z":`+v+`}`)
	}
	// service endpoints that are absolute URIs without an authority (a scheme and a rooted path, an empty authority) or opaque
	for ei, ep := range []string{`"dweb:/ipfs/bafybeigdyrzt5/hub"`, `"file:///srv/agent/inbox"`, `"unix:/run/agent/didcomm.sock"`, `"did:example:mediator"`, `"urn:uuid:6e8bc430-9c3a-11d9-9669-0800200c9a66"`, `"mailto:agent@example.com"`,
		`["dweb:/ipfs/x","https://a.example/"]`, `{"uri":"file:///x","accept":["didcomm/v2"]}`} {
		docs = append(docs, `{"publicKey":[`+k[0]+`],"service":[{"id":"e`+fmt.Sprint(ei)+`","type":"T","serviceEndpoint":`+ep+`}]}`)
	}
	// key and service ids of the greatest allowed length (50 characters) and one below it
	for _, n := range []int{49, 50} {
		long := strings.Repeat("k", n)
		docs = append(docs, `{"publicKey":[`+strings.Replace(k[0], `"id":"`, `"id":"`+long[:n-2], 1)+`]}`,
			`{"publicKey":[`+k[0]+`],"service":[{"id":"`+long+`","type":"T","serviceEndpoint":"https://long.example/"}]}`)
	}
	// documents without keys as well
	docs = append(docs, `{"service":[`+s[0]+`]}`, `{"alsoKnownAs":[`+a[0]+`]}`, `{"scalar":"v"}`, `{}`)
	r.Extra["documents"] = len(docs)
	var allPatchTexts []string
	seenPatch := map[string]bool{}
	collect := func(p patch.Patch) {
		b, err := p.Bytes()
		if err == nil && !seenPatch[string(b)] {
			seenPatch[string(b)] = true
			allPatchTexts = append(allPatchTexts, string(b))
		}
	}
	for di, d := range docs {
		d := d
		id := fmt.Sprintf("doc/%d", di)
		r.Case(id, func() *core.Fail {
			det := M{"document": d}
			ps, err := patch.PatchesFromDocument(d)
			if err != nil {
				return &core.Fail{Key: id, What: "PatchesFromDocument failed on a document without id: " + err.Error(), Detail: det}
			}
			for _, p := range ps {
				if err := patchvalidator.Validate(p); err != nil {
					b, _ := p.Bytes()
					return &core.Fail{Key: id, What: fmt.Sprintf("patch %s produced from the document does not validate: %v", b, err), Detail: det}
				}
			}
			// all patches serialized first, parsed afterwards: the bytes of one patch must still be that patch after the others
			// (and a document) have been serialized
			var kept [][]byte
			for _, p := range ps {
				b, err := p.Bytes()
				if err != nil {
					return &core.Fail{Key: id, What: "Bytes failed on a constructor-made patch: " + err.Error(), Detail: det}
				}
				kept = append(kept, b)
			}
			if dd, err := document.FromBytes([]byte(d)); err == nil {
				_, _ = dd.Bytes()
			}
			for i, b := range kept {
				q, err := patch.FromBytes(b)
				if err != nil || core.J(generic(q)) != core.J(generic(ps[i])) {
					return &core.Fail{Key: id, What: fmt.Sprintf("the bytes of patch %d, kept while the other patches and the document were serialized, now read %.200q (FromBytes: %v) instead of patch %s", i, b, err, core.J(generic(ps[i]))), Detail: det}
				}
			}
			res, err := dc.ApplyPatches(document.Document{}, ps)
			if err != nil {
				return &core.Fail{Key: id, What: "patches of the document do not apply to the empty document: " + err.Error(), Detail: det}
			}
			var want M
			_ = json.Unmarshal([]byte(d), &want)
			got := generic(res).(M)
			if rpatch.Project(got) != rpatch.Project(generic(want).(M)) {
				return &core.Fail{Key: id, What: fmt.Sprintf("round trip gives %s instead of %s", rpatch.Project(got), rpatch.Project(generic(want).(M))), Detail: det}
			}
			return nil
		})
		if ps, err := patch.PatchesFromDocument(d); err == nil {
			for _, p := range ps {
				collect(p)
			}
		}
		r.Observe("doc", d)
	}
	r.Sample(M{"document": docs[37]})
	// documents with an id
	for i, d := range []string{`{"id":"did:example:123","publicKey":[` + k[0] + `]}`, `{"id":"x"}`} {
		d := d
		r.Case(fmt.Sprintf("doc-with-id/%d", i), func() *core.Fail {
			if ps, err := patch.PatchesFromDocument(d); err == nil {
				return &core.Fail{Key: "doc-with-id", What: fmt.Sprintf("document carrying an id was converted to %d patches", len(ps)), Detail: M{"document": d}}
			}
			return nil
		})
	}
	obs := M{}
	for _, d := range []string{`{"id":5,"scalar":1}`, `{"id":"","scalar":1}`} {
		_, err := patch.PatchesFromDocument(d)
		obs[d] = fmt.Sprint(err)
	}
	r.Extra["observed_not_judged"] = obs

	// ---- constructors
	type ctor struct {
		name    string
		f       func(string) (patch.Patch, error)
		action  string
		valid   []string
		invalid []string
		wrap    func(parsed any) M // the patch the constructor must produce, as JSON value
	}
	keyList := "[" + k[0] + "," + k[2] + "]"
	ctors := []ctor{
		{"NewAddPublicKeysPatch", patch.NewAddPublicKeysPatch, "add-public-keys", []string{"[" + k[0] + "]", keyList}, []string{"not json", `{"a":1}`, `"str"`},
			func(v any) M { return M{"action": "add-public-keys", "publicKeys": v} }},
		{"NewRemovePublicKeysPatch", patch.NewRemovePublicKeysPatch, "remove-public-keys", []string{`["k1"]`, `["k1","k2"]`}, []string{"not json", `[]`, `{"a":1}`, `[1,2]`},
			func(v any) M { return M{"action": "remove-public-keys", "ids": v} }},
		{"NewAddServiceEndpointsPatch", patch.NewAddServiceEndpointsPatch, "add-services", []string{"[" + s[0] + "]", "[" + s[0] + "," + s[1] + "]"}, []string{"not json", `{"a":1}`},
			func(v any) M { return M{"action": "add-services", "services": v} }},
		{"NewRemoveServiceEndpointsPatch", patch.NewRemoveServiceEndpointsPatch, "remove-services", []string{`["s1"]`, `["s1","s9"]`}, []string{"not json", `[]`, `{"a":1}`},
			func(v any) M { return M{"action": "remove-services", "ids": v} }},
		{"NewAddAlsoKnownAs", patch.NewAddAlsoKnownAs, "add-also-known-as", []string{"[" + a[0] + "]", "[" + a[0] + "," + a[1] + "]"}, []string{"not json", `[]`, `{"a":1}`},
			func(v any) M { return M{"action": "add-also-known-as", "uris": v} }},
		{"NewRemoveAlsoKnownAs", patch.NewRemoveAlsoKnownAs, "remove-also-known-as", []string{"[" + a[1] + "]"}, []string{"not json", `[]`, `5`},
			func(v any) M { return M{"action": "remove-also-known-as", "uris": v} }},
		{"NewJSONPatch", patch.NewJSONPatch, "ietf-json-patch", []string{`[{"op":"add","path":"/x","value":1}]`, `[{"op":"remove","path":"/x"},{"op":"test","path":"/y","value":null}]`,
			// pointers with escapes at every place of a token (RFC 6901: ~0 is '~', ~1 is '/'), empty tokens, the root, long and non-ASCII tokens
			`[{"op":"add","path":"/dir~1","value":1}]`, `[{"op":"add","path":"/~0","value":1}]`, `[{"op":"add","path":"/~1","value":1}]`, `[{"op":"add","path":"/a~0~1","value":1}]`,
			`[{"op":"add","path":"/https:~1~1example.com~1","value":{"n":1}}]`, `[{"op":"add","path":"/~01","value":1},{"op":"add","path":"/a~1b/c","value":1}]`,
			`[{"op":"move","from":"/m~1","path":"/n~0"}]`, `[{"op":"copy","from":"/~0","path":"/x/~1"}]`, `[{"op":"add","path":"/","value":1},{"op":"add","path":"//","value":1}]`,
			`[{"op":"add","path":"/a//b","value":1}]`, `[{"op":"test","path":"","value":{}}]`, `[{"op":"add","path":"/é€😀","value":"x"}]`, `[{"op":"add","path":"/a b/ c ","value":null}]`}, []string{"not json", `{"op":"add"}`},
			func(v any) M { return M{"action": "ietf-json-patch", "patches": v} }},
		{"NewReplacePatch", patch.NewReplacePatch, "replace", []string{`{"publicKeys":[` + k[0] + `],"services":[` + s[1] + `]}`, `{"publicKeys":[` + k[1] + `]}`, `{}`}, []string{"not json", `[1]`, `{"other":1}`, `{"publicKeys":[],"alsoKnownAs":[]}`},
			func(v any) M { return M{"action": "replace", "document": v} }},
	}
	ctorObserved := M{}
	for _, c := range ctors {
		c := c
		for vi, in := range c.valid {
			in := in
			id := fmt.Sprintf("ctor/%s/valid-%d", c.name, vi)
			r.Case(id, func() *core.Fail {
				det := M{"constructor": c.name, "input": in}
				p, err := c.f(in)
				if err != nil {
					return &core.Fail{Key: id, What: "constructor refused valid input: " + err.Error(), Detail: det}
				}
				if err := patchvalidator.Validate(p); err != nil {
					return &core.Fail{Key: id, What: "constructed patch does not validate: " + err.Error(), Detail: det}
				}
				act, err := p.GetAction()
				if err != nil || string(act) != c.action {
					return &core.Fail{Key: id, What: fmt.Sprintf("GetAction = %q (%v), expected %q", act, err, c.action), Detail: det}
				}
				var parsed any
				_ = json.Unmarshal([]byte(in), &parsed)
				want := c.wrap(parsed)
				val, err := p.GetValue()
				if err != nil || !jcs.Equal(generic(val), generic(parsed)) {
					return &core.Fail{Key: id, What: fmt.Sprintf("GetValue = %s (%v), expected %s", core.J(val), err, in), Detail: det}
				}
				if !jcs.Equal(generic(p), generic(want)) {
					return &core.Fail{Key: id, What: fmt.Sprintf("constructed patch %s differs from %s", core.J(p), core.J(want)), Detail: det}
				}
				return nil
			})
			if p, err := c.f(in); err == nil {
				collect(p)
			}
			r.Class("ctor-valid")
		}
		// structurally invalid input: the statement makes no claim about what constructors do with it
		// (only that patches from VALID input validate), so the outcome is recorded, not judged
		for _, in := range c.invalid {
			p, err := c.f(in)
			verdict := "refused"
			if err == nil {
				verdict = "constructed"
				if patchvalidator.Validate(p) == nil {
					verdict = "constructed and validates"
				}
			}
			ctorObserved[c.name+" <- "+in] = verdict
			r.Class("ctor-invalid-observed")
		}
	}
	r.Extra["constructors_on_invalid_input_observed_not_judged"] = ctorObserved
	// ---- byte round trip for every patch seen
	for _, sy := range patches.Alphabet(true) {
		allPatchTexts = append(allPatchTexts, sy.JSON)
	}
	sort.Strings(allPatchTexts)
	for pi, t := range allPatchTexts {
		t := t
		id := fmt.Sprintf("bytes/%d", pi)
		r.Case(id, func() *core.Fail {
			det := M{"patch": t}
			p, err := patch.FromBytes([]byte(t))
			if err != nil {
				return &core.Fail{Key: id, What: "FromBytes refused a patch: " + err.Error(), Detail: det}
			}
			b, err := p.Bytes()
			if err != nil {
				return &core.Fail{Key: id, What: "Bytes failed: " + err.Error(), Detail: det}
			}
			q, err := patch.FromBytes(b)
			if err != nil || !jcs.Equal(generic(q), generic(p)) {
				return &core.Fail{Key: id, What: fmt.Sprintf("FromBytes(Bytes(p)) = %s (%v) differs from p = %s", core.J(q), err, core.J(p)), Detail: det}
			}
			var m M
			_ = json.Unmarshal([]byte(t), &m)
			act, _ := p.GetAction()
			if string(act) != m["action"] {
				return &core.Fail{Key: id, What: "GetAction disagrees with the patch content", Detail: det}
			}
			val, err := p.GetValue()
			if err != nil || !jcs.Equal(generic(val), generic(m[valueKey[string(act)]])) {
				return &core.Fail{Key: id, What: "GetValue disagrees with the patch content", Detail: det}
			}
			return nil
		})
		r.Observe("patch", t)
	}
	r.Extra["patch_texts"] = len(allPatchTexts)
	// ---- action x value-key table
	actions := []string{"replace", "add-public-keys", "remove-public-keys", "add-services", "remove-services", "ietf-json-patch", "add-also-known-as", "remove-also-known-as"}
	vkeys := []string{"document", "patches", "publicKeys", "services", "ids", "action", "uris"}
	for _, act := range append(append([]string{}, actions...), "unknown-action", "", "Replace") {
		for _, vk := range append(append([]string{}, vkeys...), "none") {
			act, vk := act, vk
			m := M{"action": act}
			if vk != "none" && vk != "action" {
				m[vk] = []any{}
				if vk == "document" {
					m[vk] = M{}
				}
			}
			want := valueKey[act] != "" && valueKey[act] == vk
			id := fmt.Sprintf("table/%s/%s", act, vk)
			b, _ := json.Marshal(m)
			r.Case(id, func() *core.Fail {
				_, err := patch.FromBytes(b)
				if (err == nil) != want {
					return &core.Fail{Key: id, What: fmt.Sprintf("FromBytes(%s): %v, but value key %q %s the value member of action %q", b, err, vk, map[bool]string{true: "is", false: "is not"}[want], act), Detail: M{"bytes": string(b)}}
				}
				return nil
			})
			r.Observe("table", string(b))
		}
	}
	for i, b := range []string{`{"publicKeys":[]}`, `{"action":5,"publicKeys":[]}`, `{"action":null,"ids":[]}`, `{"action":["replace"],"document":{}}`, `[]`, `"x"`, `not json`} {
		b := b
		r.Case(fmt.Sprintf("table/bad-action-%d", i), func() *core.Fail {
			if p, err := patch.FromBytes([]byte(b)); err == nil {
				return &core.Fail{Key: "table/bad-action", What: fmt.Sprintf("bytes %s without a supported action accepted as patch %s", b, core.J(p)), Detail: M{"bytes": b}}
			}
			return nil
		})
	}
	_ = rules.ValidID
	r.Require("ctor-valid", 8)
}

var valueKey = map[string]string{"replace": "document", "add-public-keys": "publicKeys", "remove-public-keys": "ids", "add-services": "services",
	"remove-services": "ids", "ietf-json-patch": "patches", "add-also-known-as": "uris", "remove-also-known-as": "uris"}
