// Package c01: explicit-state search over the real operation applier, in lock step with the
// reference Sidetree state machine. Also hosts the C12 oracle (no input mutation, atomic
// failures) on the same graph.
package c01

import (
	"encoding/json"
	"fmt"
	"sort"
	"strings"
	"sync"

	"verif/engine/core"
	"verif/gen/syms"
	rpatch "verif/ref/patch"
	"verif/ref/sidetree"

	"github.com/trustbloc/sidetree-go/pkg/api/operation"
	"github.com/trustbloc/sidetree-go/pkg/api/protocol"
	"github.com/trustbloc/sidetree-go/pkg/versions/1_0/doccomposer"
	"github.com/trustbloc/sidetree-go/pkg/versions/1_0/operationapplier"
	"github.com/trustbloc/sidetree-go/pkg/versions/1_0/operationparser"
)

type node struct {
	impl    *protocol.ResolutionModel
	model   sidetree.State
	path    []int // symbol indices from the initial state
	init    int
	snap    string // deep snapshot at creation (C12 history clause)
	stopped bool
}

// FromImpl converts a real resolution model into the abstract state for comparison.
func FromImpl(rm *protocol.ResolutionModel) sidetree.State {
	s := sidetree.State{HasDoc: rm.Doc != nil, CreatedTime: rm.CreatedTime, UpdatedTime: rm.UpdatedTime, LastTime: rm.LastOperationTransactionTime,
		LastNumber: rm.LastOperationTransactionNumber, LastVersion: rm.LastOperationProtocolVersion, UpdateCommitment: rm.UpdateCommitment,
		RecoveryCommitment: rm.RecoveryCommitment, Deactivated: rm.Deactivated, AnchorOrigin: rm.AnchorOrigin, Equivalent: rm.EquivalentReferences,
		Canonical: rm.CanonicalReference, VersionID: rm.VersionID}
	if rm.Doc != nil {
		b, _ := json.Marshal(rm.Doc)
		var m map[string]any
		_ = json.Unmarshal(b, &m)
		s.Doc = m
	}
	for _, o := range rm.PublishedOperations {
		s.Published = append(s.Published, o.CanonicalReference)
	}
	for _, o := range rm.UnpublishedOperations {
		s.Unpublished = append(s.Unpublished, o.CanonicalReference)
	}
	return s
}

// Snapshot is a deep, order-preserving dump of a resolution model (nil-ness of every field included).
func Snapshot(rm *protocol.ResolutionModel) string {
	if rm == nil {
		return "<nil>"
	}
	b, err := json.Marshal(rm)
	if err != nil {
		return "unmarshalable:" + err.Error()
	}
	return fmt.Sprintf("%s|docnil=%v|eqnil=%v|pubnil=%v|unpubnil=%v", b, rm.Doc == nil, rm.EquivalentReferences == nil, rm.PublishedOperations == nil, rm.UnpublishedOperations == nil)
}

// cloneModel deep-copies a resolution model (documents and anchor origin through JSON; operation lists keep their elements).
func cloneModel(rm *protocol.ResolutionModel) *protocol.ResolutionModel {
	c := *rm
	if rm.Doc != nil {
		b, _ := json.Marshal(rm.Doc)
		var d map[string]interface{}
		_ = json.Unmarshal(b, &d)
		c.Doc = d
	}
	if rm.AnchorOrigin != nil {
		b, _ := json.Marshal(rm.AnchorOrigin)
		var a interface{}
		_ = json.Unmarshal(b, &a)
		c.AnchorOrigin = a
	}
	c.EquivalentReferences = append([]string(nil), rm.EquivalentReferences...)
	c.PublishedOperations = append([]*operation.AnchoredOperation(nil), rm.PublishedOperations...)
	c.UnpublishedOperations = append([]*operation.AnchoredOperation(nil), rm.UnpublishedOperations...)
	return &c
}

func opSnapshot(o *operation.AnchoredOperation) string {
	b, _ := json.Marshal(o)
	return string(b)
}

type Options struct {
	Model    bool // compare with the reference state machine (C01)
	Mutation bool // snapshot inputs before/after, error => nil result, history clause (C12)
	Depth    int
	SigTypes []string
	// GenesisTime of the applier's protocol (the anchored operations keep protocol version 0)
	GenesisTime uint64
	// TwoAlgorithms: the protocol lists sha2-256 and sha2-512 and the alphabet is syms.AlphabetTwoAlgorithms
	TwoAlgorithms bool
	// RequestPolicies: the applier's parser is built with an anchor origin validator and an anchor time validator that refuse
	// everything - request-time policies of a node, which the fold of anchored operations must not depend on
	RequestPolicies bool
}

type refuseOrigins struct{}

func (refuseOrigins) Validate(origin interface{}) error {
	return fmt.Errorf("anchor origin %v is not allowed by this node's request policy", origin)
}

type refuseTimes struct{}

func (refuseTimes) Validate(from, until int64) error {
	return fmt.Errorf("window %d-%d is not allowed by this node's request policy", from, until)
}

func Explore(r *core.Run, o Options) {
	p := syms.Proto()
	alphabet := syms.Alphabet(o.SigTypes, "EiAlphabetSuffix")
	if o.TwoAlgorithms {
		p, alphabet = syms.ProtoTwoAlgorithms(), syms.AlphabetTwoAlgorithms("EiAlphabetSuffix")
	}
	p.GenesisTime = o.GenesisTime
	parser := operationparser.New(p)
	if o.RequestPolicies {
		parser = operationparser.New(p, operationparser.WithAnchorOriginValidator(refuseOrigins{}), operationparser.WithAnchorTimeValidator(refuseTimes{}))
	}
	app := operationapplier.New(p, parser, doccomposer.New())
	r.Extra["alphabet_symbols"] = len(alphabet)
	r.Extra["depth_bound"] = o.Depth
	names := map[string]int{}
	for i, s := range alphabet {
		if _, dup := names[s.Name]; dup {
			core.Engine("duplicate symbol name %s", s.Name)
		}
		names[s.Name] = i
	}
	pre1 := &operation.AnchoredOperation{Type: operation.TypeCreate, CanonicalReference: "pre-published-1", TransactionTime: 1}
	pre2 := &operation.AnchoredOperation{Type: operation.TypeUpdate, CanonicalReference: "pre-unpublished-1", TransactionTime: 2}
	inits := []*protocol.ResolutionModel{{}, {PublishedOperations: []*operation.AnchoredOperation{pre1}, UnpublishedOperations: []*operation.AnchoredOperation{pre2}}}

	pathNames := func(n *node, extra int) []string {
		out := []string{fmt.Sprintf("init%d", n.init)}
		for _, i := range n.path {
			out = append(out, alphabet[i].Name)
		}
		if extra >= 0 {
			out = append(out, alphabet[extra].Name)
		}
		return out
	}

	// step executes one transition on the real applier and judges it.
	step := func(n *node, si int) (*node, *core.Fail) {
		sym := alphabet[si]
		id := strings.Join(pathNames(n, si), ",")
		var before, opBefore string
		if o.Mutation {
			before, opBefore = Snapshot(n.impl), opSnapshot(sym.Op)
		}
		det := map[string]any{"history": pathNames(n, si), "operation": string(sym.Op.OperationRequest), "anchoring": sym.Desc.Anchor}
		prevImpl := n.impl
		if !o.Mutation {
			// transitions run in parallel: every call gets its own deep copy of the previous state, so that code which
			// (wrongly) edits its input in place cannot disturb the other transitions; the edit still shows in the result
			prevImpl = cloneModel(n.impl)
		}
		var res *protocol.ResolutionModel
		var err error
		if pf := func() (f *core.Fail) {
			defer func() {
				if p := recover(); p != nil {
					f = &core.Fail{Key: "panic/" + sym.Name, What: fmt.Sprintf("Apply panicked on %s: %v", sym.Name, p), Detail: merge(det, map[string]any{"case": id, "panic": fmt.Sprint(p)})}
				}
			}()
			res, err = app.Apply(sym.Op, prevImpl)
			return nil
		}(); pf != nil {
			return nil, pf
		}
		if o.Mutation {
			if after := Snapshot(n.impl); after != before {
				return nil, &core.Fail{Key: "mutated-previous-state/" + sym.Name, What: "Apply modified the previous resolution model", Detail: merge(det, map[string]any{"before": before, "after": after, "case": id})}
			}
			if after := opSnapshot(sym.Op); after != opBefore {
				return nil, &core.Fail{Key: "mutated-operation/" + sym.Name, What: "Apply modified the anchored operation", Detail: merge(det, map[string]any{"before": opBefore, "after": after, "case": id})}
			}
			if err != nil && res != nil {
				return nil, &core.Fail{Key: "error-with-state/" + sym.Name, What: "refused operation returned an error and a state", Detail: merge(det, map[string]any{"case": id})}
			}
			if err == nil && res == nil {
				return nil, &core.Fail{Key: "nil-without-error/" + sym.Name, What: "Apply returned neither state nor error", Detail: merge(det, map[string]any{"case": id})}
			}
		}
		want, accepted := sidetree.Apply(n.model, sym.Desc)
		if o.Model {
			if !accepted {
				if err == nil || res != nil {
					got := "nil"
					if res != nil {
						got = FromImpl(res).Canon()
					}
					return nil, &core.Fail{Key: "accepted-but-must-refuse/" + sym.Name, What: fmt.Sprintf("operation %s must be refused in this state but was applied", sym.Name),
						Detail: merge(det, map[string]any{"case": id, "observed_state": got, "previous_state": n.model.Fields()})}
				}
				return nil, nil
			}
			if err != nil || res == nil {
				return nil, &core.Fail{Key: "refused-but-must-apply/" + sym.Name, What: fmt.Sprintf("operation %s must be applied in this state but was refused: %v", sym.Name, err),
					Detail: merge(det, map[string]any{"case": id, "expected_state": want.Fields(), "previous_state": n.model.Fields()})}
			}
			got := FromImpl(res)
			if got.Canon() != want.Canon() {
				gf, wf := got.Fields(), want.Fields()
				var diff []string
				dd := map[string]any{}
				for k := range wf {
					if gf[k] != wf[k] {
						diff = append(diff, k)
						dd[k] = map[string]string{"observed": gf[k], "expected": wf[k]}
					}
				}
				sort.Strings(diff)
				return nil, &core.Fail{Key: "state-mismatch/" + sym.Name + "/" + strings.Join(diff, "+"),
					What:   fmt.Sprintf("after %s the fields %v differ from the Sidetree rules", sym.Name, diff),
					Detail: merge(det, map[string]any{"case": id, "differences": dd, "previous_state": n.model.Fields()})}
			}
		} else if err != nil || res == nil {
			return nil, nil
		}
		if err != nil || res == nil {
			return nil, nil
		}
		m := want
		if !o.Model {
			m = FromImpl(res)
		}
		nn := &node{impl: res, model: m, path: append(append([]int{}, n.path...), si), init: n.init, stopped: res.Deactivated}
		if o.Mutation {
			nn.snap = Snapshot(res)
		}
		return nn, nil
	}

	// replay mode: the case id is the history
	if r.Only != "" {
		parts := strings.Split(r.Only, ",")
		var initIdx int
		fmt.Sscanf(parts[0], "init%d", &initIdx)
		cur := &node{impl: inits[initIdx], model: FromImpl(inits[initIdx]), init: initIdx}
		for _, nm := range parts[1:] {
			si, ok := names[nm]
			if !ok {
				core.Engine("replay: unknown symbol %q", nm)
			}
			r.Eval(1)
			nx, f := step(cur, si)
			if f != nil {
				r.Report(r.Only, *f)
				return
			}
			if nx != nil {
				cur = nx
			}
		}
		return
	}

	seen := map[string]bool{}
	var all []*node
	var frontier []*node
	for i, in := range inits {
		n := &node{impl: in, model: FromImpl(in), init: i, snap: Snapshot(in)}
		seen[n.model.Canon()] = true
		frontier = append(frontier, n)
		all = append(all, n)
	}
	var mu sync.Mutex
	classes := map[string]int64{}
	depthDone := 0
	for depth := 1; depth <= o.Depth && len(frontier) > 0; depth++ {
		if r.Expired() {
			r.Cap(fmt.Sprintf("deadline before depth %d", depth))
			break
		}
		type edge struct {
			n  *node
			si int
		}
		var edges []edge
		for _, n := range frontier {
			if n.stopped {
				continue
			}
			for si := range alphabet {
				edges = append(edges, edge{n, si})
			}
		}
		results := make([]*node, len(edges))
		par := core.Parallel
		if o.Mutation {
			par = core.Sequential // in-place mutations must be attributed to the call that made them
		}
		par(len(edges), func(i int) {
			e := edges[i]
			nx, f := step(e.n, e.si)
			if f != nil {
				// confirm twice before reporting (an in-place mutation cannot be re-observed: sequential execution makes it deterministic instead)
				for k := 0; k < 2 && !o.Mutation; k++ {
					_, g := step(e.n, e.si)
					if g == nil || g.Key != f.Key {
						core.Engine("transition verdict did not reproduce: %s", f.Key)
					}
				}
				r.Report(strings.Join(pathNames(e.n, e.si), ","), *f)
				return
			}
			results[i] = nx
			cls := "refused"
			if nx != nil {
				cls = "applied"
			}
			mu.Lock()
			classes[strings.SplitN(alphabet[e.si].Name, "/", 2)[0]+"-"+cls]++
			mu.Unlock()
		})
		r.Eval(int64(len(edges)))
		r.Transitions += int64(len(edges))
		r.Traces += int64(len(edges))
		var next []*node
		for _, nx := range results {
			if nx == nil {
				continue
			}
			k := nx.model.Canon()
			if o.Mutation {
				k = nx.snap
			}
			if seen[k] {
				continue
			}
			seen[k] = true
			next = append(next, nx)
			all = append(all, nx)
		}
		frontier = next
		depthDone = depth
	}
	live := 0
	for _, n := range frontier {
		if !n.stopped {
			live++
		}
	}
	r.States += int64(len(all))
	r.Extra["depth_completed"] = depthDone
	r.Extra["frontier_left"] = live
	if live > 0 {
		r.Exhaustive = false
		r.Caps = append(r.Caps, fmt.Sprintf("depth bound %d reached with %d unexpanded states (exhaustive for all histories up to that depth)", o.Depth, live))
	}
	for k, v := range classes {
		for i := int64(0); i < v && i < 1; i++ {
			r.Class(k)
		}
		r.Extra["transitions_"+k] = v
	}
	for k := range seen {
		r.Observe(k)
	}
	if o.Mutation {
		// history clause: every state object ever produced still equals its creation-time snapshot
		for _, n := range all {
			r.Eval(1)
			if Snapshot(n.impl) != n.snap {
				id := strings.Join(pathNames(n, -1), ",")
				r.Report(id, core.Fail{Key: "earlier-state-changed/" + id, What: "a state produced earlier was modified by later applications", Detail: map[string]any{"history": pathNames(n, -1)}})
			}
		}
	}
	if len(all) > 5 {
		for _, n := range []*node{all[len(all)/3], all[len(all)-1]} {
			r.Sample(map[string]any{"history": pathNames(n, -1), "reached_state": n.model.Fields()})
		}
	}
	for _, c := range []string{"create-applied", "create-refused", "update-applied", "update-refused", "recover-applied", "recover-refused", "deactivate-applied", "deactivate-refused"} {
		r.Require(c, 1)
	}
	_ = rpatch.Project
}

func merge(a, b map[string]any) map[string]any {
	for k, v := range b {
		a[k] = v
	}
	return a
}

func Run(r *core.Run) {
	r.Rule = "BFS over the real OperationApplier.Apply: every symbol of the alphabet (operation type x failure class x key type x window class, own anchoring tuple and commitments each) " +
		"from every reachable state (2 initial states), and a second alphabet under a protocol with both hash algorithms (operations under sha2-256, sha2-512 and mixtures, key re-use across algorithms), and the first alphabet again through a parser with request-time policies that refuse every anchor origin and window, deduplicated on the canonical form of all 15 fields, not expanded past an accepted deactivate; every transition compared with the reference state machine; " +
		"distinct = distinct canonical states; non-trivial = all (every state differs in at least one field)"
	r.Assumptions = []string{"reference state machine ref/sidetree and reference patch semantics ref/patch written from the property statement",
		"operations built and signed by the harness generator; the applier is driven directly (reveal/commitment matching is the processor's job)",
		"documents compared through the observable projection (null / absent / [] list members are one observation)"}
	types := core.Pick(r, []string{"Ed25519", "P-256", "secp256k1"}, []string{"Ed25519", "P-256", "secp256k1", "P-384"})
	Explore(r, Options{Model: true, Depth: core.Pick(r, 3, 4), SigTypes: types})
	// the same search with a protocol that lists both hash algorithms, over operations that use one of them or mix them
	first := map[string]any{}
	for k, v := range r.Extra {
		first[k] = v
	}
	Explore(r, Options{Model: true, Depth: core.Pick(r, 3, 4), TwoAlgorithms: true})
	for k, v := range r.Extra {
		if old, ok := first[k]; ok {
			r.Extra["two_algorithms_"+k] = v
			r.Extra[k] = old
		}
	}
	// ... and once more with an applier whose parser carries request-time policies that refuse every origin and every window
	Explore(r, Options{Model: true, Depth: core.Pick(r, 2, 3), SigTypes: []string{"Ed25519"}, RequestPolicies: true})
	for k, v := range r.Extra {
		if old, ok := first[k]; ok {
			r.Extra["request_policies_"+k] = v
			r.Extra[k] = old
		}
	}
}
