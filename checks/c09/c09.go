// Package c09: anchoring window. Exhaustive over every ordering/equality of (from, until, t),
// the maximum operation time delta, three operation types, two key types, and every other
// numeric protocol parameter varied alone.
package c09

import (
	"fmt"
	"reflect"

	"verif/engine/core"
	"verif/gen/keys"
	"verif/gen/ops"
	"verif/ref/jcs"

	"github.com/trustbloc/sidetree-go/pkg/api/operation"
	"github.com/trustbloc/sidetree-go/pkg/api/protocol"
	"github.com/trustbloc/sidetree-go/pkg/versions/1_0/doccomposer"
	"github.com/trustbloc/sidetree-go/pkg/versions/1_0/operationapplier"
	"github.com/trustbloc/sidetree-go/pkg/versions/1_0/operationparser"
)

type spy struct {
	calls [][2]int64
}

func (s *spy) Validate(from, until int64) error {
	s.calls = append(s.calls, [2]int64{from, until})
	return nil
}

type variant struct {
	name string
	set  func(p *protocol.Protocol)
}

func uintField(name string) func(p *protocol.Protocol) reflect.Value {
	return func(p *protocol.Protocol) reflect.Value { return reflect.ValueOf(p).Elem().FieldByName(name) }
}

// variants: every numeric protocol parameter other than MaxOperationTimeDelta, changed alone.
func variants(delta uint64, minDelta, minHash uint64) []variant {
	vs := []variant{{"baseline", func(p *protocol.Protocol) {}}}
	base := ops.Proto()
	t := reflect.TypeOf(base)
	for i := 0; i < t.NumField(); i++ {
		f := t.Field(i)
		if f.Name == "MaxOperationTimeDelta" {
			continue
		}
		k := f.Type.Kind()
		if k != reflect.Uint && k != reflect.Uint64 {
			continue
		}
		b := reflect.ValueOf(base).Field(i).Uint()
		name := f.Name
		cands := []uint64{b + 1, 2*b + 7, delta, delta + 1, 1000}
		seen := map[uint64]bool{b: true}
		for _, v := range cands {
			if seen[v] {
				continue
			}
			seen[v] = true
			// stay inside what accepts the request for reasons unrelated to the window
			if name == "MaxDeltaSize" && v < minDelta {
				continue
			}
			if name == "MaxOperationHashLength" && v < minHash {
				continue
			}
			if name == "NonceSize" {
				// keys here carry no nonce; any size is acceptable
			}
			v := v
			vs = append(vs, variant{fmt.Sprintf("%s=%d", name, v), func(p *protocol.Protocol) {
				uintField(name)(p).SetUint(v)
			}})
		}
	}
	return vs
}

type opCase struct {
	typ         operation.Type
	key         string
	from, until int64
	bytes       []byte
	nextUpdate  string
	nextRec     string
}

const code = 18

var addAKA = ops.ParseJSON(`{"action":"add-also-known-as","uris":["https://windowed.example/1"]}`)

// farPast is a window start within a few hundred seconds of the smallest int64 (-2^63 + 808).
const farPast = int64(-9223372036854775000)

func Run(r *core.Run) {
	r.Rule = "all combinations of delta in {0,1,3,600,9223372036,9223372037,10^10} (thorough {0,1,2,3,7,600,86400,...,2^40}), from in {0,5,10} (thorough {0,1,5,10,1000}) and {-D-1,-D,-D+1}, until in {0,from-1,from,from+1,from+D-1,from+D,from+D+1}, " +
		"t in ({from,until,from+D} +- {0,1}) u {0}; x {update,recover,deactivate} x {Ed25519,P-256} (thorough: all 5 key types) x (baseline + each other numeric protocol parameter set to 4-5 other values alone); " +
		"distinct = distinct (type,from,until,t,delta,effective,parameter) observations; non-trivial = window set (from or until non-zero)"
	r.Assumptions = []string{"reference window formula written from the property statement", "JWS signing by the harness's own signer (Go crypto)",
		"the applier is driven directly with hand-built anchored operations (no operation processor)"}
	// (the last three: about 292 years in seconds and beyond - "practically never expires"; a product with a nanosecond unit overflows there)
	deltas := core.Pick(r, []uint64{0, 1, 3, 600, 9223372036, 9223372037, 10000000000}, []uint64{0, 1, 2, 3, 7, 600, 86400, 9223372036, 9223372037, 10000000000, 1 << 40})
	froms := core.Pick(r, []int64{0, 5, 10}, []int64{0, 1, 5, 10, 1000})
	keyTypes := core.Pick(r, []string{"Ed25519", "P-256"}, []string{"Ed25519", "P-256", "secp256k1", "P-384", "P-521"})
	types := []operation.Type{operation.TypeUpdate, operation.TypeRecover, operation.TypeDeactivate}

	recK := map[string]*keys.Key{}
	updK := map[string]*keys.Key{}
	for _, kt := range keyTypes {
		recK[kt], updK[kt] = keys.New(kt, 0), keys.New(kt, 1)
	}
	next1, next2 := keys.New("Ed25519", 10), keys.New("Ed25519", 11)

	// previous state: a created document (via the real applier, window-free create)
	baseProto := ops.Proto()
	mk := func(p protocol.Protocol) *operationapplier.Applier {
		return operationapplier.New(p, operationparser.New(p), doccomposer.New())
	}
	createPatch := ops.ParseJSON(`{"action":"add-also-known-as","uris":["https://created.example/0"]}`)

	type job struct {
		delta uint64
		v     variant
	}
	var jobs []job
	// sizes needed so that "value equal to delta" variants do not reject for other reasons
	sampleUpd := ops.ValidUpdate("s", updK["P-256"], next1, []any{addAKA}, code, ops.Window{From: 10, Until: 611})
	minDelta := uint64(len(ops.Canon(sampleUpd["delta"])) + 8)
	minHash := uint64(len(ops.Commitment(next1, code)))
	for _, d := range deltas {
		for _, v := range variants(d, minDelta, minHash) {
			jobs = append(jobs, job{d, v})
		}
	}
	r.Extra["configurations"] = len(jobs)

	core.Parallel(len(jobs), func(ji int) {
		j := jobs[ji]
		p := baseProto
		p.MaxOperationTimeDelta = j.delta
		j.v.set(&p)
		app := mk(p)
		appPolicy := operationapplier.New(p, operationparser.New(p, operationparser.WithAnchorTimeValidator(refuseWindows{})), doccomposer.New())
		D := int64(j.delta)
		for _, kt := range keyTypes {
			create := ops.ValidCreate(recK[kt], updK[kt], []any{createPatch}, code, nil)
			suffix := ops.Suffix(create, code)
			prev, err := app.Apply(&operation.AnchoredOperation{Type: operation.TypeCreate, UniqueSuffix: suffix,
				OperationRequest: ops.Bytes(create), TransactionTime: 1, TransactionNumber: 1}, &protocol.ResolutionModel{})
			if err != nil || prev == nil || prev.UpdateCommitment == "" {
				core.Engine("c09: create fixture not applied under %s: %v", j.v.name, err)
			}
			prevDoc := string(jcs.MustCanonGo(prev.Doc))
			// ... and windows that begin before time 0 (the signed value is a signed integer): from + D is 0 or next to it
			fs := froms
			if D > 0 {
				fs = uniq(append(append([]int64{}, froms...), -D, -D-1, -D+1))
			}
			// ... and a window that began (and, without an explicit end, ended) an int64 ago: a difference t - from leaves int64 there
			// (the value is one that a canonical JSON number carries exactly)
			fs = append(append([]int64{}, fs...), farPast)
			for _, from := range fs {
				untils := uniq([]int64{0, from - 1, from, from + 1, from + D - 1, from + D, from + D + 1})
				for _, until := range untils {
					if until < 0 {
						continue
					}
					w := ops.Window{From: from, Until: until}
					U := until
					if until == 0 {
						U = from + D
					}
					ts := uniq([]int64{0, from - 1, from, from + 1, until - 1, until, until + 1, from + D - 1, from + D, from + D + 1, U - 1, U, U + 1})
					if from == farPast {
						ts = uniq(append(ts, 807, 808, 1000, 1<<40))
					}
					for _, typ := range types {
						var req ops.M
						switch typ {
						case operation.TypeUpdate:
							req = ops.ValidUpdate(suffix, updK[kt], next1, []any{addAKA}, code, w)
						case operation.TypeRecover:
							req = ops.ValidRecover(suffix, recK[kt], next2, next1, []any{addAKA}, code, nil, w)
						case operation.TypeDeactivate:
							req = ops.ValidDeactivate(suffix, recK[kt], code, w)
						}
						b := ops.Bytes(req)
						// ---- parser side: spy time validator receives exactly (from, U)
						if int(p.MaxOperationSize) >= len(b) {
							id := fmt.Sprintf("parse/%s/%s/from=%d/until=%d/D=%d/%s", typ, kt, from, until, D, j.v.name)
							r.Case(id, func() *core.Fail {
								s := &spy{}
								ps := operationparser.New(p, operationparser.WithAnchorTimeValidator(s))
								_, err := ps.Parse("did:sidetree", b)
								wantU := U
								if from == 0 && until == 0 {
									wantU = 0
								}
								if err != nil {
									return &core.Fail{Key: id, What: "valid windowed request refused by the non-batch parser: " + err.Error(),
										Detail: ops.M{"request": string(b), "config": j.v.name, "delta": D}}
								}
								if len(s.calls) != 1 || s.calls[0] != [2]int64{from, wantU} {
									return &core.Fail{Key: id, What: fmt.Sprintf("time validator received %v, expected exactly one call (%d,%d)", s.calls, from, wantU),
										Detail: ops.M{"request": string(b), "config": j.v.name, "delta": D, "received": fmt.Sprint(s.calls), "expected": []int64{from, wantU}}}
								}
								return nil
							})
						}
						// ---- applier side
						for _, t := range ts {
							if t < 0 {
								continue
							}
							effective := (from == 0 && until == 0) || (from <= t && t <= U)
							id := fmt.Sprintf("apply/%s/%s/from=%d/until=%d/t=%d/D=%d/%s", typ, kt, from, until, t, D, j.v.name)
							nontrivial := from != 0 || until != 0
							r.Case(id, func() *core.Fail {
								an := &operation.AnchoredOperation{Type: typ, UniqueSuffix: suffix, OperationRequest: b,
									TransactionTime: uint64(t), TransactionNumber: 2}
								// the previous state as it is, and as a resolver that also applies not yet published operations hands it over:
								// with the operation being applied (the very same object) already listed as unpublished / published
								listedU, listedP := *prev, *prev
								listedU.UnpublishedOperations = append(append([]*operation.AnchoredOperation{}, prev.UnpublishedOperations...), an)
								listedP.PublishedOperations = append(append([]*operation.AnchoredOperation{}, prev.PublishedOperations...), an)
								for vi, rm := range []*protocol.ResolutionModel{prev, &listedU, &listedP} {
									// (the second variant goes through an applier whose parser carries a request-time policy that refuses every
									// window: what a node thinks of windows when a request arrives has no say over anchored operations)
									ap := app
									if vi == 1 {
										ap = appPolicy
									}
									res, err := ap.Apply(an, rm)
									det := ops.M{"request": string(b), "anchoring_time": t, "from": from, "until": until, "delta": D,
										"config": j.v.name, "expected_effective": effective, "previous_state_variant": []string{"as created", "operation listed as unpublished", "operation listed as published"}[vi]}
									fail := func(what string) *core.Fail {
										det["observed"] = what
										if vi > 0 {
											what += " [previous state: " + det["previous_state_variant"].(string) + "]"
										}
										return &core.Fail{Key: id, What: fmt.Sprintf("%s (effective expected %v)", what, effective), Detail: det}
									}
									switch typ {
									case operation.TypeUpdate:
										if err != nil || res == nil {
											return fail(fmt.Sprintf("update refused: %v", err))
										}
										if res.UpdateCommitment != ops.Commitment(next1, code) {
											return fail("update commitment not advanced")
										}
										doc := string(jcs.MustCanonGo(res.Doc))
										if effective && doc == prevDoc {
											return fail("in-window update left the document unchanged")
										}
										if !effective && doc != prevDoc {
											return fail("out-of-window update changed the document: " + doc)
										}
									case operation.TypeRecover:
										if err != nil || res == nil {
											return fail(fmt.Sprintf("recover refused: %v", err))
										}
										if res.UpdateCommitment != ops.Commitment(next1, code) || res.RecoveryCommitment != ops.Commitment(next2, code) {
											return fail("recover did not advance both commitments")
										}
										doc := string(jcs.MustCanonGo(res.Doc))
										if effective && doc == "{}" {
											return fail("in-window recover installed no document")
										}
										if !effective && doc != "{}" {
											return fail("out-of-window recover installed a document: " + doc)
										}
									case operation.TypeDeactivate:
										if effective && (err != nil || res == nil || !res.Deactivated) {
											return fail(fmt.Sprintf("in-window deactivate refused: %v", err))
										}
										if !effective && (err == nil || res != nil) {
											return fail("out-of-window deactivate accepted")
										}
									}
								}
								return nil
							})
							if nontrivial {
								r.Observe(string(typ), fmt.Sprint(from, until, t, D, effective), j.v.name)
							}
							if effective {
								r.Class("effective")
							} else {
								r.Class("not-effective")
							}
							if t == from || t == U {
								r.Class("boundary")
							}
						}
					}
				}
			}
		}
	})
	r.Sample(ops.M{"type": "update", "signed_window": ops.M{"anchorFrom": 10, "anchorUntil": 0}, "delta_param": 3, "anchoring_times_tried": []int{0, 9, 10, 11, 12, 13, 14},
		"request": string(ops.Bytes(ops.ValidUpdate("suffix", updK["Ed25519"], next1, []any{addAKA}, code, ops.Window{From: 10})))})
	r.Require("effective", 100)
	r.Require("not-effective", 100)
	r.Require("boundary", 100)
}

func uniq(in []int64) []int64 {
	seen := map[int64]bool{}
	var out []int64
	for _, v := range in {
		if !seen[v] {
			seen[v] = true
			out = append(out, v)
		}
	}
	return out
}

// refuseWindows is a request-time anchor time validator that refuses every window.
type refuseWindows struct{}

func (refuseWindows) Validate(from, until int64) error {
	return fmt.Errorf("window %d-%d refused by this node's request policy", from, until)
}
