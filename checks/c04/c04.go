// Package c04: commitment / reveal algebra and chain linkage.
package c04

import (
	"encoding/base64"
	"fmt"

	"verif/engine/core"
	"verif/gen/keys"
	"verif/gen/ops"
	"verif/ref/mh"

	"github.com/trustbloc/sidetree-go/pkg/commitment"
	"github.com/trustbloc/sidetree-go/pkg/jws"
	"github.com/trustbloc/sidetree-go/pkg/versions/1_0/operationparser"
)

func Run(r *core.Run) {
	nKeys := core.Pick(r, 64, 1024)
	r.Rule = fmt.Sprintf("keys: %d per type x 5 types x 5 nonce variants x {sha2-256, sha2-512}, and 2 RSA keys (members n, e) x 3 nonce variants: reveal/commitment/derivation identities against the reference, all commitments pairwise distinct; "+
		"chains: every sequence create (update|recover)^<=3 deactivate x 3 key-type assignments + mixed x 2 algorithms, and every non-constant assignment of the two algorithms to the operations of a chain (algorithm migration), keys with and without a nonce along one chain (none, all, alternating, and one key per chain re-used under changing nonces), linkage of every edge through the parser; nonce sweep: an update for every (nonce size in {8,12,16,24,32}, first nonce byte) read by a parser configured for that size; "+
		"distinct = distinct (key, nonce, algorithm) commitments and distinct chain edges; non-trivial = all", nKeys)
	r.Assumptions = []string{"reference: reveal = mh(code, JCS(jwk)), commitment = mh(code, H(JCS(jwk))) with the JWK model {kty, crv, x, y[, n, e][, nonce]}", "chains are built by the harness generator with fresh keys per step"}
	nonces := []string{"", "AAAAAAAAAAAAAAAAAAAAAA", "_____________________w", "AQIDBAUGBwgJCgsMDQ4PEA", "AAAAAAAAAAAAAAAAAAAAAQ"}
	codes := []uint{18, 19}
	seen := map[string]string{}
	type item struct {
		k *keys.Key
	}
	var items []item
	for _, t := range keys.Types {
		for i := 0; i < nKeys; i++ {
			base := keys.New(t, i)
			for _, n := range nonces {
				items = append(items, item{base.WithNonce(n)})
			}
		}
	}
	results := make([][2]string, len(items))
	core.Parallel(len(items), func(i int) {
		k := items[i].k
		for ci, code := range codes {
			code := code
			wantRv := ops.Reveal(k, uint64(code))
			wantC := ops.Commitment(k, uint64(code))
			results[i][ci] = wantC
			id := fmt.Sprintf("algebra/%s/%s/%d", k, k.Nonce, code)
			r.Case(id, func() *core.Fail {
				jwk := k.JWK()
				rv, err1 := commitment.GetRevealValue(jwk, code)
				c, err2 := commitment.GetCommitment(jwk, code)
				det := map[string]any{"jwk": k.JWKMap(), "code": code}
				if err1 != nil || err2 != nil {
					return &core.Fail{Key: id, What: fmt.Sprintf("reveal/commitment failed: %v %v", err1, err2), Detail: det}
				}
				if rv != wantRv {
					return &core.Fail{Key: id, What: fmt.Sprintf("reveal value %q, expected multihash of canonical JWK %q", rv, wantRv), Detail: det}
				}
				if c != wantC {
					return &core.Fail{Key: id, What: fmt.Sprintf("commitment %q, expected multihash of hash of canonical JWK %q", c, wantC), Detail: det}
				}
				d, err := commitment.GetCommitmentFromRevealValue(rv)
				if err != nil || d != c {
					return &core.Fail{Key: id, What: fmt.Sprintf("commitment derived from reveal value %q (%v) differs from the key's commitment %q", d, err, c), Detail: det}
				}
				return nil
			})
		}
	})
	for i, it := range items {
		for ci, code := range codes {
			c := results[i][ci]
			desc := fmt.Sprintf("%s nonce=%q code=%d", it.k, it.k.Nonce, code)
			if prev, dup := seen[c]; dup {
				id := "distinct/" + desc
				r.Report(id, core.Fail{Key: id, What: fmt.Sprintf("keys %s and %s have the same commitment %s", prev, desc, c), Detail: map[string]any{"a": prev, "b": desc}})
			}
			seen[c] = desc
			r.Observe("commitment", c)
		}
	}
	// RSA public keys (members n and e; the JWK type always writes crv, x and y too), with and without a nonce
	for i, n := range []string{"", "AAAAAAAAAAAAAAAAAAAAAA", "AQIDBAUGBwgJCgsMDQ4PEA"} {
		for mi, modulus := range []string{"sXchDaQebHnPiGvyDOAT4saGEUetSyo9MKLOoWFsueri23bOdgWp4Dy1WlUzewbgBHod5pcM9H95GQRV3JDXboIRROSBigeC5yjU1hGzHHyXss8UDprecbAYxknTcQkhslANGRUZmdTOQ5qTRsLAt6BTYuyvVRdhS8exSZEy_c4gs_7svlJJQ4H9_NxsiIoLwAEk7-Q3UXERGYw_75IDrGA84-lA_-Ct4eTlXHBIY2EaV7t7LjJaynVJCpkv4LKjTTAumiGUIuQhrNhZLuF_RJLqHpM2kgWFLU7-VTdL1VbC2tejvcI2BlMkEpk1BzBZI0KQB0GaDWFLN-aEAw3vRw", "AQAB"} {
			n, modulus := n, modulus
			for _, code := range codes {
				code := code
				id := fmt.Sprintf("algebra/RSA/%d/%d/%d", mi, i, code)
				m := map[string]any{"kty": "RSA", "crv": "", "x": "", "y": "", "n": modulus, "e": "AQAB"}
				jwk := &jws.JWK{Kty: "RSA", N: modulus, E: "AQAB", Nonce: n}
				if n != "" {
					m["nonce"] = n
				}
				canon := ops.Canon(m)
				wantRv := mh.MustHash(uint64(code), canon)
				dg, _ := mh.Digest(uint64(code), canon)
				wantC := mh.MustHash(uint64(code), dg)
				desc := fmt.Sprintf("RSA/%d nonce=%q code=%d", mi, n, code)
				if prev, dup := seen[wantC]; dup {
					r.Report("distinct/"+desc, core.Fail{Key: "distinct/" + desc, What: fmt.Sprintf("keys %s and %s have the same commitment", prev, desc)})
				}
				seen[wantC] = desc
				r.Case(id, func() *core.Fail {
					rv, err1 := commitment.GetRevealValue(jwk, code)
					c, err2 := commitment.GetCommitment(jwk, code)
					det := map[string]any{"jwk": m, "code": code}
					if err1 != nil || err2 != nil {
						return &core.Fail{Key: id, What: fmt.Sprintf("reveal/commitment failed: %v %v", err1, err2), Detail: det}
					}
					if rv != wantRv {
						return &core.Fail{Key: id, What: fmt.Sprintf("reveal value %q, expected multihash of canonical JWK %q", rv, wantRv), Detail: det}
					}
					if c != wantC {
						return &core.Fail{Key: id, What: fmt.Sprintf("commitment %q, expected multihash of hash of canonical JWK %q", c, wantC), Detail: det}
					}
					d, err := commitment.GetCommitmentFromRevealValue(rv)
					if err != nil || d != c {
						return &core.Fail{Key: id, What: fmt.Sprintf("commitment derived from reveal value %q (%v) differs from the key's commitment %q", d, err, c), Detail: det}
					}
					return nil
				})
				r.Observe("commitment", wantC)
			}
		}
	}
	r.Class("keys")
	// library and reference agree, so distinctness of library commitments follows from the map above
	r.Sample(map[string]any{"kind": "key", "jwk": items[1].k.JWKMap(), "reveal_sha256": ops.Reveal(items[1].k, 18), "commitment_sha256": ops.Commitment(items[1].k, 18)})

	// unsupported codes -> error from all three
	for _, code := range []uint{0, 17, 20, 22, 0x7777} {
		code := code
		id := fmt.Sprintf("unsupported/%d", code)
		r.Case(id, func() *core.Fail {
			jwk := keys.New("P-256", 0).JWK()
			_, e1 := commitment.GetRevealValue(jwk, code)
			_, e2 := commitment.GetCommitment(jwk, code)
			_, e3 := commitment.GetCommitmentFromRevealValue(mh.Enc(mh.Raw(uint64(code), make([]byte, 32))))
			if e1 == nil || e2 == nil || e3 == nil {
				return &core.Fail{Key: id, What: fmt.Sprintf("unsupported code %d accepted: reveal err=%v commitment err=%v derive err=%v", code, e1, e2, e3), Detail: map[string]any{"code": code}}
			}
			return nil
		})
	}

	// ---- chains
	var seqs []string
	var gen func(s string, n int)
	gen = func(s string, n int) {
		seqs = append(seqs, s)
		if n == 0 {
			return
		}
		gen(s+"u", n-1)
		gen(s+"r", n-1)
	}
	gen("", core.Pick(r, 3, 5))
	typeAssign := [][]string{{"Ed25519"}, {"P-256"}, {"secp256k1"}, {"Ed25519", "P-256", "secp256k1", "P-384", "P-521"}}
	patch := []any{ops.ParseJSON(`{"action":"add-also-known-as","uris":["https://chain.example/"]}`)}
	type job struct {
		seq     string
		types   []string
		code    uint
		flavour int    // 0 plain; 1 anchoring window + anchor origin on every operation that can carry them
		sched   []uint // algorithm of the commitments made by create (index 0) and by step i (index i+1); nil = code throughout
		nonces  int    // which of the chain's keys carry a nonce: 0 none, 1 all, 2 every other one starting with the first, 3 ... with the second
	}
	var jobs []job
	for _, s := range seqs {
		for ti, ta := range typeAssign {
			for _, code := range codes {
				jobs = append(jobs, job{s, ta, code, 0, nil, 0}, job{s, ta, code, 1, nil, 0})
				if ti == 0 || ti == 3 {
					// keys with and without a nonce along one chain, parsed by one parser
					for np := 1; np <= 4; np++ {
						jobs = append(jobs, job{s, ta, code, np % 2, nil, np})
					}
				}
			}
		}
	}
	// algorithm migration: every non-constant assignment of the two algorithms to the operations of a chain (a commitment made
	// under one algorithm is revealed under that algorithm by an operation that commits under the other)
	for _, s := range seqs {
		n := len(s) + 1
		for mask := 1; mask < 1<<n-1; mask++ {
			var sched []uint
			for i := 0; i < n; i++ {
				sched = append(sched, codes[mask>>i&1])
			}
			for _, ta := range [][]string{typeAssign[0], typeAssign[3]} {
				jobs = append(jobs, job{s, ta, 0, mask % 2, sched, (mask / 2) % 4})
			}
		}
	}
	core.Parallel(len(jobs), func(ji int) {
		j := jobs[ji]
		p := ops.Proto()
		p.MultihashAlgorithms = []uint{j.code}
		if j.sched != nil {
			p.MultihashAlgorithms = codes
			if ji%2 == 1 {
				// the preferred algorithm first: a protocol lists its algorithms in its own order, not in the order of their codes
				p.MultihashAlgorithms = []uint{codes[1], codes[0]}
			}
		}
		// chains with anchoring windows are read by a parser whose anchor time validator refuses every window (a node reading its
		// history long after the windows have passed): reveal values and commitments are reported in batch mode, which does not ask it
		parser := operationparser.New(p)
		if j.flavour == 1 {
			parser = operationparser.New(p, operationparser.WithAnchorTimeValidator(refuseAll{}))
		}
		code := uint64(j.code)
		codeAt := func(i int) uint64 { // algorithm of the commitments made by create (0) / step i-1
			if j.sched == nil {
				return code
			}
			return uint64(j.sched[i])
		}
		code = codeAt(0)
		updCode, recCode := code, code // algorithms of the commitments in force
		n := 0
		fresh := func() *keys.Key {
			k := keys.New(j.types[n%len(j.types)], 100+n)
			if j.nonces == 1 || j.nonces == 2 && n%2 == 0 || j.nonces == 3 && n%2 == 1 {
				k = k.WithNonce("AQIDBAUGBwgJCgsMDQ4PEA")
			}
			n++
			return k
		}
		// nonce pattern 4: one public key per chain (update chain, recovery chain) used again and again, told apart by the nonce only:
		// with nonce A, bare, with nonce B, with nonce A ... - JWKs that differ in the nonce alone have different commitments
		roleCount := map[byte]int{}
		freshFor := func(role byte) *keys.Key {
			if j.nonces != 4 {
				return fresh()
			}
			k := keys.New(j.types[0], 150+int(role))
			c := roleCount[role]
			roleCount[role]++
			switch c % 3 {
			case 0:
				return k.WithNonce("AQIDBAUGBwgJCgsMDQ4PEA")
			case 2:
				return k.WithNonce("EA8ODQwLCgkIBwYFBAMCAQ")
			}
			return k
		}
		upd, rec := freshFor('u'), freshFor('r')
		var win ops.Window
		var origin any
		if j.flavour == 1 {
			win, origin = ops.Window{From: 5, Until: 50}, "origin.example"
		}
		create := ops.ValidCreate(rec, upd, patch, code, origin)
		suffix := ops.Suffix(create, code)
		// commitment in force, and where it was carried
		updC, recC := create["delta"].(ops.M)["updateCommitment"].(string), create["suffixData"].(ops.M)["recoveryCommitment"].(string)
		id0 := fmt.Sprintf("chain/%s/%v/%d%v/%d/nonces%d", j.seq, j.types, j.code, j.sched, j.flavour, j.nonces)
		r.Case(id0+"/create", func() *core.Fail {
			b := ops.Bytes(create)
			if _, err := parser.GetRevealValue(b); err == nil {
				return &core.Fail{Key: id0 + "/create", What: "parser reports a reveal value for a create operation", Detail: map[string]any{"op": string(b)}}
			}
			return nil
		})
		steps := j.seq + "d"
		for si, st := range steps {
			var req ops.M
			var wantPrev string
			var nextUpdC, nextRecC = updC, recC
			var wantNext string
			nc := code // algorithm of this operation's own hashes and new commitments
			if st != 'd' {
				nc = codeAt(si + 1)
			}
			switch st {
			case 'u':
				nk := freshFor('u')
				d := ops.Delta(ops.Commitment(nk, nc), patch)
				req = ops.Request("update", suffix, ops.Reveal(upd, updCode), ops.Sign(upd, ops.UpdatePayload(upd, ops.HashOf(d, nc), win)), d)
				wantPrev = updC
				upd, updCode = nk, nc
				nextUpdC = ops.Commitment(nk, nc)
				wantNext = nextUpdC
			case 'r':
				nr, nu := freshFor('r'), freshFor('u')
				d := ops.Delta(ops.Commitment(nu, nc), patch)
				req = ops.Request("recover", suffix, ops.Reveal(rec, recCode), ops.Sign(rec, ops.RecoverPayload(rec, ops.HashOf(d, nc), ops.Commitment(nr, nc), origin, win)), d)
				wantPrev = recC
				rec, upd, recCode, updCode = nr, nu, nc, nc
				nextRecC, nextUpdC = ops.Commitment(nr, nc), ops.Commitment(nu, nc)
				wantNext = nextRecC
			case 'd':
				rv := ops.Reveal(rec, recCode)
				req = ops.Request("deactivate", suffix, rv, ops.Sign(rec, ops.DeactivatePayload(rec, suffix, rv, win)), nil)
				wantPrev = recC
				wantNext = ""
			}
			b := ops.Bytes(req)
			id := fmt.Sprintf("%s/step%d%c", id0, si, st)
			r.Case(id, func() *core.Fail {
				det := map[string]any{"op": string(b), "chain": j.seq, "step": si}
				rv, err := parser.GetRevealValue(b)
				if err != nil {
					return &core.Fail{Key: id, What: "GetRevealValue failed on a well-formed chain operation: " + err.Error(), Detail: det}
				}
				c, err := commitment.GetCommitmentFromRevealValue(rv)
				if err != nil || c != wantPrev {
					return &core.Fail{Key: id, What: fmt.Sprintf("reveal value maps to commitment %q (%v) but the predecessor on this chain carried %q", c, err, wantPrev), Detail: det}
				}
				nc, err := parser.GetCommitment(b)
				if err != nil || nc != wantNext {
					return &core.Fail{Key: id, What: fmt.Sprintf("parser reports next commitment %q (%v), expected %q", nc, err, wantNext), Detail: det}
				}
				return nil
			})
			r.Observe("edge", string(b))
			if st == 'd' && j.sched != nil {
				// the same deactivate whose signed data names the key's reveal value under the other configured algorithm: whatever the
				// signed data says, a reveal value that the parser reports for it maps to the preceding recovery commitment
				rv := ops.Reveal(rec, recCode)
				b2 := ops.Bytes(ops.Request("deactivate", suffix, rv, ops.Sign(rec, ops.DeactivatePayload(rec, suffix, ops.Reveal(rec, 37-recCode), win)), nil))
				id2 := id + "/signed-reveal-value-of-the-other-algorithm"
				wantPrev := wantPrev
				r.Case(id2, func() *core.Fail {
					got, err := parser.GetRevealValue(b2)
					if err != nil {
						return nil // refused: no linkage is claimed
					}
					if c, err := commitment.GetCommitmentFromRevealValue(got); err != nil || c != wantPrev {
						return &core.Fail{Key: id2, What: fmt.Sprintf("reveal value reported for the deactivate maps to commitment %q (%v) but the predecessor on this chain carried %q", c, err, wantPrev), Detail: map[string]any{"op": string(b2), "chain": j.seq}}
					}
					return nil
				})
				r.Observe("edge", string(b2))
			}
			updC, recC = nextUpdC, nextRecC
			r.Class("edge-" + string(st))
		}
	})
	// nonce sweep: one update per (nonce size, first nonce byte, last nonce byte class) read by a parser configured for that size -
	// every first character of the encoded nonce occurs (a value that begins like some other notation is still this value)
	type sweep struct{ size, first, last int }
	var sweeps []sweep
	for _, size := range []int{1, 8, 12, 16, 24, 32, 33, 48, 64} {
		for first := 0; first < 256; first++ {
			sweeps = append(sweeps, sweep{size, first, first ^ 0x5a})
		}
	}
	core.Parallel(len(sweeps), func(i int) {
		sw := sweeps[i]
		nb := make([]byte, sw.size)
		for bi := range nb {
			nb[bi] = byte(17*bi + sw.size)
		}
		nb[0], nb[sw.size-1] = byte(sw.first), byte(sw.last)
		nonce := base64.RawURLEncoding.EncodeToString(nb)
		p := ops.Proto()
		p.NonceSize = uint64(sw.size)
		parser := operationparser.New(p)
		signer, next := keys.New("Ed25519", 4000+i%7).WithNonce(nonce), keys.New("P-256", 4100+i%5).WithNonce(nonce)
		b := ops.Bytes(ops.ValidUpdate("EiNonceSweep", signer, next, patch, 18, ops.Window{}))
		id := fmt.Sprintf("nonce-sweep/%d/%02x", sw.size, sw.first)
		r.Case(id, func() *core.Fail {
			det := map[string]any{"op": string(b), "nonce": nonce, "nonce_size": sw.size}
			rv, err := parser.GetRevealValue(b)
			if err != nil {
				return &core.Fail{Key: id, What: "GetRevealValue failed on a well-formed update whose key carries a nonce of the configured size: " + err.Error(), Detail: det}
			}
			if c, err := commitment.GetCommitmentFromRevealValue(rv); err != nil || c != ops.Commitment(signer, 18) {
				return &core.Fail{Key: id, What: fmt.Sprintf("reveal value maps to commitment %q (%v), the signing key's commitment is %q", c, err, ops.Commitment(signer, 18)), Detail: det}
			}
			if nc, err := parser.GetCommitment(b); err != nil || nc != ops.Commitment(next, 18) {
				return &core.Fail{Key: id, What: fmt.Sprintf("parser reports next commitment %q (%v), expected %q", nc, err, ops.Commitment(next, 18)), Detail: det}
			}
			if _, err := parser.ParseOperation("did:sidetree", b, false); err != nil {
				return &core.Fail{Key: id, What: "well-formed update refused: " + err.Error(), Detail: det}
			}
			return nil
		})
		r.Observe("edge", string(b))
		r.Class("nonce-sweep")
	})
	r.Require("nonce-sweep", 1000)
	// keys that carry members of another key type (n and / or e beside an EC / OKP key): members like any other - the commitment
	// is made over the key as given, and the reveal value that the parser reports for an update / recover / deactivate signed with
	// it must map to that commitment
	for ti, t := range keys.Types {
		for vi, ne := range [][2]string{{"AQAB-modulus", "AQAB"}, {"n-only", ""}, {"", "AQAB"}} {
			for _, nonce := range []string{"", "AQIDBAUGBwgJCgsMDQ4PEA"} {
				signer := keys.New(t, 4200+ti).WithNonce(nonce).WithNE(ne[0], ne[1])
				next := keys.New("P-256", 4300+ti).WithNE(ne[1], ne[0])
				for oi, b := range [][]byte{ops.Bytes(ops.ValidUpdate("EiForeignMembers", signer, next, patch, 18, ops.Window{})),
					ops.Bytes(ops.ValidDeactivate("EiForeignMembers", signer, 18, ops.Window{}))} {
					b, oi := b, oi
					id := fmt.Sprintf("foreign-members/%s/%d/nonce-%v/op%d", t, vi, nonce != "", oi)
					r.Case(id, func() *core.Fail {
						det := map[string]any{"op": string(b)}
						parser := operationparser.New(ops.Proto())
						rv, err := parser.GetRevealValue(b)
						if err != nil {
							return &core.Fail{Key: id, What: "GetRevealValue failed on a well-formed operation whose key carries n / e members: " + err.Error(), Detail: det}
						}
						if c, err := commitment.GetCommitmentFromRevealValue(rv); err != nil || c != ops.Commitment(signer, 18) {
							return &core.Fail{Key: id, What: fmt.Sprintf("reveal value maps to commitment %q (%v), the signing key's commitment is %q", c, err, ops.Commitment(signer, 18)), Detail: det}
						}
						if c, err := commitment.GetCommitment(signer.JWK(), 18); err != nil || c != ops.Commitment(signer, 18) {
							return &core.Fail{Key: id, What: fmt.Sprintf("GetCommitment gives %q (%v), the hash of the canonical key is %q", c, err, ops.Commitment(signer, 18)), Detail: det}
						}
						if oi == 0 {
							if nc, err := parser.GetCommitment(b); err != nil || nc != ops.Commitment(next, 18) {
								return &core.Fail{Key: id, What: fmt.Sprintf("parser reports next commitment %q (%v), expected %q", nc, err, ops.Commitment(next, 18)), Detail: det}
							}
						}
						return nil
					})
					r.Observe("edge", string(b))
					r.Class("foreign-members")
				}
			}
		}
	}
	// hash length limit sweep: the largest hash length a protocol allows, set to exactly the length of its multihashes, one more
	// and the default - a limit is a largest allowed value, so a commitment or reveal value of exactly that length is well-formed
	for _, code := range []uint64{18, 19} {
		exact := len(ops.Commitment(keys.New("Ed25519", 4200), code))
		for _, limit := range []int{exact, exact + 1, 100} {
			p := ops.Proto()
			p.MultihashAlgorithms = []uint{uint(code)}
			p.MaxOperationHashLength = uint(limit)
			parser := operationparser.New(p)
			rec, upd, next, nextRec := keys.New("P-256", 4201), keys.New("Ed25519", 4202), keys.New("secp256k1", 4203), keys.New("P-384", 4204)
			create := ops.ValidCreate(rec, upd, patch, code, nil)
			suffix := ops.Suffix(create, code)
			for _, c := range []struct {
				name        string
				req         ops.M
				signer, nxt *keys.Key
			}{
				{"update", ops.ValidUpdate(suffix, upd, next, patch, code, ops.Window{}), upd, next},
				{"recover", ops.ValidRecover(suffix, rec, nextRec, next, patch, code, nil, ops.Window{}), rec, nextRec},
				{"deactivate", ops.ValidDeactivate(suffix, rec, code, ops.Window{}), rec, nil},
			} {
				c := c
				b := ops.Bytes(c.req)
				id := fmt.Sprintf("hash-length-limit/h%d/limit=%d/%s", code, limit, c.name)
				r.Case(id, func() *core.Fail {
					det := map[string]any{"op": string(b), "max_operation_hash_length": limit, "multihash_length": exact}
					if _, err := parser.Parse("did:sidetree", ops.Bytes(create)); err != nil {
						return &core.Fail{Key: id, What: "well-formed create refused: " + err.Error(), Detail: det}
					}
					rv, err := parser.GetRevealValue(b)
					if err != nil {
						return &core.Fail{Key: id, What: "GetRevealValue failed on a well-formed operation whose hashes have exactly the allowed length: " + err.Error(), Detail: det}
					}
					if cm, err := commitment.GetCommitmentFromRevealValue(rv); err != nil || cm != ops.Commitment(c.signer, code) {
						return &core.Fail{Key: id, What: fmt.Sprintf("reveal value maps to commitment %q (%v), the signing key's commitment is %q", cm, err, ops.Commitment(c.signer, code)), Detail: det}
					}
					want := ""
					if c.nxt != nil {
						want = ops.Commitment(c.nxt, code)
					}
					if nc, err := parser.GetCommitment(b); err != nil || nc != want {
						return &core.Fail{Key: id, What: fmt.Sprintf("parser reports next commitment %q (%v), expected %q", nc, err, want), Detail: det}
					}
					if _, err := parser.ParseOperation("did:sidetree", b, false); err != nil {
						return &core.Fail{Key: id, What: "well-formed operation refused: " + err.Error(), Detail: det}
					}
					return nil
				})
				r.Observe("edge", string(b), fmt.Sprint(limit))
				r.Class("hash-length-limit")
			}
		}
	}
	r.Sample(map[string]any{"kind": "chain", "sequence": "create,update,recover,update,deactivate", "key_types": typeAssign[3]})
	r.Require("edge-u", 10)
	r.Require("edge-r", 10)
	r.Require("edge-d", 10)
}

// refuseAll is an anchor time validator for which every window has expired.
type refuseAll struct{}

func (refuseAll) Validate(from, until int64) error {
	if from == 0 && until == 0 {
		return nil
	}
	return fmt.Errorf("operation expired (window %d-%d)", from, until)
}
