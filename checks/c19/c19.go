package c19

import (
	"bufio"
	"fmt"
	"os"
	"os/exec"
	"regexp"
	"runtime"
	"runtime/debug"
	"sort"
	"strconv"
	"strings"
	"sync"
	"syscall"
	"time"

	"verif/engine/core"
)

// ---------------- worker side

var (
	cacheMu sync.Mutex
	cache   = map[string][]Lazy{}
)

func cached(key string, f func() []Lazy) []Lazy {
	cacheMu.Lock()
	defer cacheMu.Unlock()
	if l, ok := cache[key]; ok {
		return l
	}
	l := f()
	cache[key] = l
	return l
}

var (
	inMu    sync.Mutex
	inCache = map[string][]Input{}
)

func cachedInputs(key string, f func() []Input) []Input {
	inMu.Lock()
	defer inMu.Unlock()
	if l, ok := inCache[key]; ok {
		return l
	}
	l := f()
	inCache[key] = l
	return l
}

// memoryWatchdog ends the worker once its heap exceeds limit: an input of a few hundred bytes whose handling needs
// more than that is reported as memory amplification (deterministically, long before the machine runs out of memory).
func memoryWatchdog(limit uint64) {
	go func() {
		var m runtime.MemStats
		for {
			time.Sleep(20 * time.Millisecond)
			runtime.ReadMemStats(&m)
			if m.HeapAlloc > limit {
				fmt.Fprintf(os.Stderr, "fatal error: memory watchdog: heap of %d MiB while handling one small input\n", m.HeapAlloc>>20)
				os.Exit(7)
			}
		}
	}()
}

func inputsFor(class string, thorough bool) (n int, get func(i int) Input) {
	switch class {
	case "bytes":
		n = byteStringCount(map[bool]int{false: 5, true: 6}[thorough])
		return n, func(i int) Input { return Input{"bytes", fmt.Sprintf("bytes/%d", i), byteString(i)} }
	case "structured":
		l := cached(fmt.Sprint("structured", thorough), func() []Lazy { return Structured(thorough) })
		return len(l), func(i int) Input { return l[i].Input() }
	case "huge":
		l := Huge()
		return len(l), func(i int) Input { return l[i] }
	case "amplify":
		l := cachedInputs("amplify", Amplify)
		return len(l), func(i int) Input { return l[i] }
	}
	return 0, nil
}

var frameRe = regexp.MustCompile(`(?m)^([A-Za-z0-9_./\-]+(?:\.\(\*?[A-Za-z0-9_]+\))?\.[A-Za-z0-9_.]+(?:\[\.\.\.\])?)\(`)

// topFrame extracts the first frame of a stack trace that is not in the runtime, the harness or a panic helper.
func topFrame(stack string) string {
	for _, m := range frameRe.FindAllStringSubmatch(stack, -1) {
		f := m[1]
		if strings.HasPrefix(f, "runtime.") || strings.HasPrefix(f, "runtime/") || strings.HasPrefix(f, "verif/") || strings.HasPrefix(f, "main.") ||
			strings.HasPrefix(f, "panic") || strings.HasPrefix(f, "testing.") || strings.HasPrefix(f, "reflect.") && false {
			continue
		}
		return f
	}
	return "unknown-frame"
}

// Worker executes inputs [start,end) of a class. Protocol on stdout: "B <i>" before an input,
// "P <i>\t<entry>\t<frame>\t<message>" for a recovered panic, "E <i>" after it.
func Worker(args []string) {
	class := args[0]
	start, _ := strconv.Atoi(args[1])
	end, _ := strconv.Atoi(args[2])
	thorough := args[3] == "thorough"
	debug.SetMaxStack(64 << 20)
	var lim syscall.Rlimit
	lim.Cur, lim.Max = 24<<30, 24<<30
	_ = syscall.Setrlimit(syscall.RLIMIT_AS, &lim)
	if class == "amplify" {
		memoryWatchdog(256 << 20)
	}
	e := newEnv()
	entries := e.entries()
	_, get := inputsFor(class, thorough)
	w := bufio.NewWriterSize(os.Stdout, 1<<16)
	defer w.Flush()
	batch := class == "bytes" // announce byte strings in groups of 64 to keep the pipe cheap; a death is narrowed down by re-running the group one by one
	for i := start; i < end; i++ {
		if !batch || (i-start)%64 == 0 || end-start <= 64 {
			fmt.Fprintf(w, "B %d\n", i)
			w.Flush()
		}
		in := get(i)
		for _, en := range entries {
			if !accepts(en, in.Kind) {
				continue
			}
			func() {
				defer func() {
					if p := recover(); p != nil {
						msg := strings.ReplaceAll(fmt.Sprint(p), "\n", " ")
						if len(msg) > 200 {
							msg = msg[:200]
						}
						fmt.Fprintf(w, "P %d\t%s\t%s\t%s\n", i, en.name, topFrame(string(debug.Stack())), msg)
					}
				}()
				en.f(in.Data)
			}()
		}
	}
	fmt.Fprintf(w, "E %d\n", end)
}

// ---------------- parent side

type finding struct {
	key, what string
	detail    map[string]any
}

func cpuSeconds(pid int) float64 {
	b, err := os.ReadFile(fmt.Sprintf("/proc/%d/stat", pid))
	if err != nil {
		return 0
	}
	s := string(b)
	s = s[strings.LastIndex(s, ")")+2:]
	f := strings.Fields(s)
	if len(f) < 13 {
		return 0
	}
	ut, _ := strconv.ParseFloat(f[11], 64)
	st, _ := strconv.ParseFloat(f[12], 64)
	return (ut + st) / 100
}

const cpuBudget = 60.0 // CPU seconds one announced input (group) may consume before it is treated as non-terminating

// runRange runs [start,end) of a class in worker processes, restarting after a death.
func runRange(self, class string, start, end int, tier string, report func(finding), evals *int64) {
	for start < end {
		cmd := exec.Command(self, "c19worker", class, strconv.Itoa(start), strconv.Itoa(end), tier)
		stdout, _ := cmd.StdoutPipe()
		var stderr strings.Builder
		cmd.Stderr = &limitedWriter{b: &stderr, max: 1 << 20}
		if err := cmd.Start(); err != nil {
			core.Engine("c19: cannot start worker: %v", err)
		}
		var mu sync.Mutex
		last := start - 1
		lastCPU := 0.0
		killedForCPU := false
		done := make(chan struct{})
		go func() {
			t := time.NewTicker(500 * time.Millisecond)
			defer t.Stop()
			for {
				select {
				case <-done:
					return
				case <-t.C:
					c := cpuSeconds(cmd.Process.Pid)
					mu.Lock()
					if c-lastCPU > cpuBudget {
						killedForCPU = true
						_ = cmd.Process.Kill()
					}
					mu.Unlock()
				}
			}
		}()
		sc := bufio.NewScanner(stdout)
		sc.Buffer(make([]byte, 1<<20), 1<<22)
		finished := false
		for sc.Scan() {
			line := sc.Text()
			switch {
			case strings.HasPrefix(line, "B "):
				i, _ := strconv.Atoi(line[2:])
				c := cpuSeconds(cmd.Process.Pid)
				mu.Lock()
				last, lastCPU = i, c
				mu.Unlock()
			case strings.HasPrefix(line, "P "):
				f := strings.SplitN(line[2:], "\t", 4)
				if len(f) == 4 {
					i, _ := strconv.Atoi(f[0])
					_, get := inputsFor(class, tier == "thorough")
					in := get(i)
					report(finding{key: "panic/" + f[1] + "@" + f[2], what: fmt.Sprintf("%s panics (%s) in %s on input %s", f[1], f[3], f[2], in.Desc),
						detail: map[string]any{"entry_point": f[1], "frame": f[2], "panic": f[3], "input_class": class, "input_index": i, "input_desc": in.Desc, "input": clip(in.Data)}})
				}
			case strings.HasPrefix(line, "E "):
				finished = true
			}
		}
		close(done)
		err := cmd.Wait()
		if finished && err == nil {
			*evals += int64(end - start)
			return
		}
		mu.Lock()
		at, cpuKill := last, killedForCPU
		mu.Unlock()
		if at < start {
			core.Engine("c19: worker died before announcing an input: %v\n%s", err, tail(stderr.String(), 2000))
		}
		// narrow down a group of byte strings to the single culprit
		groupEnd := at + 1
		if class == "bytes" && end-start > 64 {
			groupEnd = at + 64
			if groupEnd > end {
				groupEnd = end
			}
			if groupEnd-at > 1 {
				runRange(self, class, at, groupEnd, tier, report, evals)
				*evals += int64(at - start)
				start = groupEnd
				continue
			}
		}
		_, get := inputsFor(class, tier == "thorough")
		in := get(at)
		st := stderr.String()
		kind := "fatal"
		msg := firstLine(st)
		if cpuKill {
			kind, msg = "non-termination", fmt.Sprintf("more than %.0f CPU seconds on one input", cpuBudget)
		}
		key := kind + "/" + fatalClass(st, cpuKill) + "@" + topFrame(goroutineTrace(st))
		if class == "amplify" {
			fc := fatalClass(st, cpuKill)
			if fc == "out-of-memory" {
				fc = "memory-amplification" // the runtime gave up before the watchdog looked
			}
			key = kind + "/" + fc + "/" + in.Desc // the place where memory runs out varies: one finding per input
		}
		report(finding{key: key, what: fmt.Sprintf("process killed (%s: %s) while handling input %s; first library frame %s", kind, msg, in.Desc, topFrame(goroutineTrace(st))),
			detail: map[string]any{"kind": kind, "message": msg, "frame": topFrame(goroutineTrace(st)), "input_class": class, "input_index": at, "input_desc": in.Desc, "input": clip(in.Data), "stderr_head": head(st, 1500)}})
		*evals += int64(at + 1 - start)
		start = at + 1
	}
}

func fatalClass(st string, cpu bool) string {
	switch {
	case cpu:
		return "cpu-budget"
	case strings.Contains(st, "stack overflow") || strings.Contains(st, "goroutine stack exceeds"):
		return "stack-overflow"
	case strings.Contains(st, "memory watchdog"):
		return "memory-amplification"
	case strings.Contains(st, "out of memory") || strings.Contains(st, "cannot allocate"):
		return "out-of-memory"
	case strings.Contains(st, "concurrent map"):
		return "concurrent-map-access"
	}
	return "other"
}

// goroutineTrace returns the part of a fatal dump that starts at the first goroutine trace. For a
// stack overflow the innermost frames repeat; the interesting frame is the entry into the recursion,
// so the trace is read from its outer end.
func goroutineTrace(st string) string {
	i := strings.Index(st, "goroutine ")
	if i < 0 {
		return st
	}
	tr := st[i:]
	if strings.Contains(st, "stack overflow") || strings.Contains(st, "goroutine stack exceeds") {
		// frames of the recursion itself: take the most frequent non-runtime function
		counts := map[string]int{}
		for _, m := range frameRe.FindAllStringSubmatch(tr, -1) {
			f := m[1]
			if strings.HasPrefix(f, "runtime.") || strings.HasPrefix(f, "verif/") || strings.HasPrefix(f, "main.") {
				continue
			}
			counts[f]++
		}
		best, n := "", 0
		keys := make([]string, 0, len(counts))
		for k := range counts {
			keys = append(keys, k)
		}
		sort.Strings(keys)
		for _, k := range keys {
			if counts[k] > n {
				best, n = k, counts[k]
			}
		}
		if best != "" {
			return best + "(\n"
		}
	}
	return tr
}

type limitedWriter struct {
	b   *strings.Builder
	max int
}

func (l *limitedWriter) Write(p []byte) (int, error) {
	if l.b.Len() < l.max {
		if len(p) > l.max-l.b.Len() {
			l.b.Write(p[:l.max-l.b.Len()])
		} else {
			l.b.Write(p)
		}
	}
	return len(p), nil
}

func clip(b []byte) string {
	if len(b) > 600 {
		return string(b[:300]) + fmt.Sprintf("...(%d bytes)...", len(b)) + string(b[len(b)-100:])
	}
	return string(b)
}

func tail(s string, n int) string {
	if len(s) > n {
		return s[len(s)-n:]
	}
	return s
}

func head(s string, n int) string {
	if len(s) > n {
		return s[:n]
	}
	return s
}

func firstLine(s string) string {
	for _, l := range strings.Split(s, "\n") {
		if strings.HasPrefix(l, "fatal error:") || strings.HasPrefix(l, "panic:") || strings.HasPrefix(l, "runtime:") {
			return l
		}
	}
	return head(s, 120)
}

func Run(r *core.Run) {
	tier := r.Tier
	r.Rule = "entry points x inputs, executed in crash-contained worker processes: all byte strings of length <= 5 (thorough 6) over a 14-byte JSON-structural alphabet for the byte-level entry points; " +
		"structure-aware corruption of valid operations (4 types x 2-3 key types), signed payloads and protected headers (re-signed), long-form DIDs, JWS, JWKs, patches of all 8 actions and documents: at every JSON position each value of a type-confusion alphabet, member deleted, member duplicated, re-sealed (hashes / signature / reveal value recomputed) so the corruption reaches the code behind the gates; " +
		"an RFC 6902 grammar (6 kinds x pointers over 12 tokens to depth 2-3 x from x values, pairs after 9 structural first operations, malformed operations); huge values; small inputs that multiply the document (n copies of a member into itself, n as large as the shipped size limits allow; heap allowance 256 MiB); " +
		"oracle: no panic, no fatal error, no input consuming more than the CPU budget; distinct = distinct inputs; non-trivial = all"
	r.Assumptions = []string{"panics are recovered in the worker and reported; fatal errors kill the worker, the parent attributes the death to the announced input and restarts after it",
		"non-termination is judged by CPU time of the worker (60 s for inputs that normally take well under 1 ms), never by wall-clock time",
		"violations are keyed by (kind, entry point or fatal class, first library frame), so one defect is one finding whatever the number of inputs that hit it"}
	self, err := os.Executable()
	if err != nil {
		core.Engine("c19: %v", err)
	}
	var mu sync.Mutex
	seenKey := map[string]int{}
	report := func(f finding) {
		mu.Lock()
		seenKey[f.key]++
		first := seenKey[f.key] == 1
		mu.Unlock()
		if first {
			r.Report(fmt.Sprintf("%v/%v", f.detail["input_class"], f.detail["input_index"]), core.Fail{Key: f.key, What: f.what, Detail: f.detail})
		}
	}
	thorough := tier == "thorough"
	for _, class := range []string{"structured", "huge", "amplify", "bytes"} {
		n, _ := inputsFor(class, thorough)
		r.Extra["inputs_"+class] = n
		t0 := time.Now()
		workers := 16
		if class == "huge" {
			workers = len(Huge())
		}
		if class == "amplify" {
			workers = 1 // one at a time: each may use the whole memory allowance
		}
		if n < workers {
			workers = n
		}
		var wg sync.WaitGroup
		evals := make([]int64, workers)
		per := (n + workers - 1) / workers
		for w := 0; w < workers; w++ {
			s, e := w*per, (w+1)*per
			if e > n {
				e = n
			}
			if s >= e {
				continue
			}
			wg.Add(1)
			go func(w, s, e int) {
				defer wg.Done()
				runRange(self, class, s, e, tier, report, &evals[w])
			}(w, s, e)
		}
		wg.Wait()
		var tot int64
		for _, v := range evals {
			tot += v
		}
		r.Eval(tot)
		r.AddDistinct(tot)
		r.Extra["seconds_"+class] = time.Since(t0).Seconds()
	}
	mu.Lock()
	counts := map[string]int{}
	for k, v := range seenKey {
		counts[k] = v
	}
	mu.Unlock()
	r.Extra["inputs_per_finding_key"] = counts
	st := cached(fmt.Sprint("structured", false), func() []Lazy { return Structured(false) })
	r.Sample(map[string]any{"class": "structured", "desc": st[100].Desc, "kind": st[100].Kind, "input": clip(st[100].Make())})
	r.Sample(map[string]any{"class": "bytes", "examples": []string{string(byteString(3000)), string(byteString(77777)), string(byteString(500000))}})
}
