// Package c19: untrusted input is answered with an error, never a panic. Inputs are executed
// in crash-contained worker subprocesses (E5).
package c19

import (
	"encoding/base64"
	"encoding/json"
	"fmt"
	"sort"
	"strings"

	"verif/gen/keys"
	"verif/gen/ops"
	"verif/ref/jcs"
	"verif/ref/mh"
)

type M = map[string]any

// Input is one generated input; Kind routes it to the entry points that take such a value.
type Input struct {
	Kind string // bytes | op | did | jws | jwk | patch | doc | jsonpatch | huge
	Desc string
	Data []byte
}

var alphabet = []byte{'{', '}', '[', ']', '"', ':', ',', '\\', 'u', '0', '-', 'e', 't', 0xc3}

// byteString returns the i-th byte string over the alphabet in length-then-lexicographic order.
func byteString(i int) []byte {
	n := len(alphabet)
	l, count := 0, 1
	for i >= count {
		i -= count
		l++
		count *= n
	}
	b := make([]byte, l)
	for k := l - 1; k >= 0; k-- {
		b[k] = alphabet[i%n]
		i /= n
	}
	return b
}

func byteStringCount(maxLen int) int {
	t, c := 0, 1
	for l := 0; l <= maxLen; l++ {
		t += c
		c *= len(alphabet)
	}
	return t
}

// ---- text-level substitution at JSON positions

type pathT []string

func paths(v any, p pathT, out *[]pathT) {
	*out = append(*out, append(pathT{}, p...))
	switch t := v.(type) {
	case map[string]any:
		ks := make([]string, 0, len(t))
		for k := range t {
			ks = append(ks, k)
		}
		sort.Strings(ks)
		for _, k := range ks {
			paths(t[k], append(p, k), out)
		}
	case []any:
		for i, e := range t {
			paths(e, append(p, fmt.Sprint(i)), out)
		}
	}
}

// render serializes v, replacing the value at path `at` by raw text repl ("\x00delete" deletes the
// member / element, "\x00dup" emits the member twice, the second time with value null).
func render(v any, cur, at pathT, repl string) string {
	if len(cur) == len(at) && strings.Join(cur, "\x01") == strings.Join(at, "\x01") && repl != "\x00delete" && repl != "\x00dup" {
		return repl
	}
	switch t := v.(type) {
	case map[string]any:
		ks := make([]string, 0, len(t))
		for k := range t {
			ks = append(ks, k)
		}
		sort.Strings(ks)
		var parts []string
		for _, k := range ks {
			child := append(append(pathT{}, cur...), k)
			isTarget := len(child) == len(at) && strings.Join(child, "\x01") == strings.Join(at, "\x01")
			if isTarget && repl == "\x00delete" {
				continue
			}
			kb, _ := json.Marshal(k)
			parts = append(parts, string(kb)+":"+render(t[k], child, at, repl))
			if isTarget && repl == "\x00dup" {
				parts = append(parts, string(kb)+":null")
			}
		}
		return "{" + strings.Join(parts, ",") + "}"
	case []any:
		var parts []string
		for i, e := range t {
			child := append(append(pathT{}, cur...), fmt.Sprint(i))
			isTarget := len(child) == len(at) && strings.Join(child, "\x01") == strings.Join(at, "\x01")
			if isTarget && repl == "\x00delete" {
				continue
			}
			parts = append(parts, render(e, child, at, repl))
			if isTarget && repl == "\x00dup" {
				parts = append(parts, "null")
			}
		}
		return "[" + strings.Join(parts, ",") + "]"
	default:
		b, _ := json.Marshal(t)
		return string(b)
	}
}

func confusion(thorough bool) []string {
	a := []string{`null`, `true`, `0`, `-1`, `1e400`, `""`, `"x"`, `[]`, `{}`, `[null]`, `{"a":null}`, `"` + strings.Repeat("A", 10000) + `"`,
		strings.Repeat("[", 10000) + strings.Repeat("]", 10000), "\x00delete", "\x00dup"}
	if thorough {
		a = append(a, `1.5`, `[[]]`, `[{}]`, `{"id":null}`, `"\u0000"`, `18446744073709551616`, `-9223372036854775809`, `[1,"a",null,{}]`)
	}
	return a
}

var enc = base64.RawURLEncoding

// reseal recomputes the hashes that would otherwise stop a corrupted request at the door:
// create: suffixData.deltaHash; others: signed deltaHash + signature (re-signed), reveal value.
func reseal(text string, signer *keys.Key) []byte {
	var m M
	if json.Unmarshal([]byte(text), &m) != nil {
		return []byte(text)
	}
	defer func() { _ = recover() }()
	delta, _ := m["delta"].(map[string]any)
	dm := M{}
	if delta != nil {
		if s, ok := delta["updateCommitment"].(string); ok && s != "" {
			dm["updateCommitment"] = s
		}
		if l, ok := delta["patches"].([]any); ok && len(l) > 0 {
			dm["patches"] = l
		}
	}
	dh := mh.MustHash(18, jcs.MustCanonGo(dm))
	switch m["type"] {
	case "create":
		if sd, ok := m["suffixData"].(map[string]any); ok && delta != nil {
			sd["deltaHash"] = dh
		}
	case "update", "recover", "deactivate":
		sdata, _ := m["signedData"].(string)
		parts := strings.Split(sdata, ".")
		if len(parts) == 3 && signer != nil {
			pb, err := enc.DecodeString(parts[1])
			var payload M
			if err == nil && json.Unmarshal(pb, &payload) == nil {
				if _, has := payload["deltaHash"]; has && delta != nil {
					payload["deltaHash"] = dh
				}
				m["signedData"] = signer.SignCompact(signer.Header(), jcs.MustCanonGo(payload))
			}
		}
	}
	b, err := json.Marshal(m)
	if err != nil {
		return []byte(text)
	}
	return b
}

// Lazy is an input whose bytes are produced on demand (the lists hold hundreds of thousands of
// entries, many of them tens of kilobytes long; materialising them in every worker is wasteful).
type Lazy struct {
	Kind, Desc string
	Make       func() []byte
}

func (l Lazy) Input() Input { return Input{l.Kind, l.Desc, l.Make()} }

// corruptionCount / corruptionAt enumerate the corruptions of v without building them all.
func corruptionSites(v any) []pathT {
	var ps []pathT
	paths(v, nil, &ps)
	var out []pathT
	for _, p := range ps {
		if len(p) > 0 {
			out = append(out, p)
		}
	}
	return out
}

// Structured builds the structure-aware corrupted inputs.
func Structured(thorough bool) []Lazy {
	var out []Lazy
	add := func(kind, desc string, data []byte) {
		out = append(out, Lazy{kind, desc, func() []byte { return data }})
	}
	addLazy := func(kind, desc string, mk func() []byte) { out = append(out, Lazy{kind, desc, mk}) }
	conf := confusion(thorough)
	// each(v, f): for every (position, replacement) of v call f(index, thunk producing the corrupted text)
	each := func(v any, f func(i int, text func() string)) {
		i := 0
		for _, p := range corruptionSites(v) {
			for _, c := range conf {
				p, c := p, c
				f(i, func() string { return render(v, nil, p, c) })
				i++
			}
		}
	}
	patchesJSON := `[{"action":"add-public-keys","publicKeys":[` + ops.PubKeyJSON("k1", keys.New("P-256", 500), `["authentication"]`) + `]},{"action":"add-services","services":[{"id":"s1","type":"T","serviceEndpoint":["https://a.example/",{"uri":"x"}]}]},{"action":"ietf-json-patch","patches":[{"op":"add","path":"/m","value":{"n":[1]}}]}]`
	patches := ops.ParseJSON(patchesJSON).([]any)
	types := []string{"Ed25519", "P-256", "secp256k1"}
	if !thorough {
		types = []string{"Ed25519", "P-256"}
	}
	for _, kt := range types {
		rec, upd, next, nextR := keys.New(kt, 501), keys.New(kt, 502), keys.New("Ed25519", 503), keys.New("Ed25519", 504)
		create := ops.ValidCreate(rec, upd, patches, 18, M{"origin": "x"})
		suffix := ops.Suffix(create, 18)
		reqs := map[string]struct {
			m      M
			signer *keys.Key
		}{
			"create":     {create, nil},
			"update":     {ops.ValidUpdate(suffix, upd, next, patches, 18, ops.Window{From: 1, Until: 100}), upd},
			"recover":    {ops.ValidRecover(suffix, rec, nextR, next, patches, 18, "o", ops.Window{From: 1}), rec},
			"deactivate": {ops.ValidDeactivate(suffix, rec, 18, ops.Window{}), rec},
		}
		for _, typ := range []string{"create", "update", "recover", "deactivate"} {
			rq := reqs[typ]
			add("op", typ+"/"+kt+"/valid", ops.Bytes(rq.m))
			// every hash of the request and of its signed payload in turn replaced by a well-formed multihash of an algorithm that the
			// multihash tables know but the library does not compute (sha1, sha3-*, keccak-256, blake2b-256) and by sha2-512: what a
			// node whose algorithm list names such a code is sent
			{
				foreign := []struct {
					code uint64
					size int
				}{{0x11, 20}, {0x13, 64}, {0x14, 64}, {0x15, 48}, {0x16, 32}, {0x17, 28}, {0x1b, 32}, {0xb220, 32}}
				var walk func(v any, visit func(set func(string), cur string))
				walk = func(v any, visit func(set func(string), cur string)) {
					switch t := v.(type) {
					case map[string]any:
						for k, c := range t {
							if sv, ok := c.(string); ok {
								k := k
								visit(func(n string) { t[k] = n }, sv)
							} else {
								walk(c, visit)
							}
						}
					case []any:
						for _, c := range t {
							walk(c, visit)
						}
					}
				}
				isHash := func(sv string) bool { c, _, err := mh.Decode(sv); return err == nil && c == 18 }
				fi := 0
				// outer members
				var outer any
				_ = json.Unmarshal(ops.Bytes(rq.m), &outer)
				var slots []string
				walk(outer, func(_ func(string), cur string) {
					if isHash(cur) {
						slots = append(slots, cur)
					}
				})
				sort.Strings(slots)
				for _, slot := range slots {
					for _, f := range foreign {
						slot, f := slot, f
						addLazy("op", fmt.Sprintf("%s/%s/foreign-hash-%d", typ, kt, fi), func() []byte {
							var m any
							_ = json.Unmarshal(ops.Bytes(rq.m), &m)
							walk(m, func(set func(string), cur string) {
								if cur == slot {
									set(mh.Enc(mh.Raw(f.code, make([]byte, f.size))))
								}
							})
							b, _ := jcs.CanonGo(m)
							return b
						})
						fi++
					}
				}
				// members of the signed payload (re-signed)
				if rq.signer != nil {
					parts := strings.Split(rq.m["signedData"].(string), ".")
					pb, _ := enc.DecodeString(parts[1])
					var payload any
					_ = json.Unmarshal(pb, &payload)
					var pslots []string
					walk(payload, func(_ func(string), cur string) {
						if isHash(cur) {
							pslots = append(pslots, cur)
						}
					})
					sort.Strings(pslots)
					for _, slot := range pslots {
						for _, f := range foreign {
							slot, f, rq := slot, f, rq
							addLazy("op", fmt.Sprintf("%s/%s/foreign-hash-%d", typ, kt, fi), func() []byte {
								var pl any
								_ = json.Unmarshal(pb, &pl)
								walk(pl, func(set func(string), cur string) {
									if cur == slot {
										set(mh.Enc(mh.Raw(f.code, make([]byte, f.size))))
									}
								})
								cb, _ := jcs.CanonGo(pl)
								m2 := M{}
								for k, v := range rq.m {
									m2[k] = v
								}
								m2["signedData"] = rq.signer.SignCompact(rq.signer.Header(), cb)
								return ops.Bytes(m2)
							})
							fi++
						}
					}
				}
			}
			// corruptions of the outer request, re-sealed
			each(rq.m, func(i int, text func() string) {
				signer := rq.signer
				addLazy("op", fmt.Sprintf("%s/%s/outer-%d", typ, kt, i), func() []byte { return reseal(text(), signer) })
				if i%5 == 0 {
					addLazy("op", fmt.Sprintf("%s/%s/outer-raw-%d", typ, kt, i), func() []byte { return []byte(text()) })
				}
			})
			// corruptions inside the signed payload, re-signed
			if rq.signer != nil {
				sd := rq.m["signedData"].(string)
				parts := strings.Split(sd, ".")
				pb, _ := enc.DecodeString(parts[1])
				var payload any
				_ = json.Unmarshal(pb, &payload)
				each(payload, func(i int, text func() string) {
					typ, kt, rq := typ, kt, rq
					addLazy("op", fmt.Sprintf("%s/%s/payload-%d", typ, kt, i), func() []byte {
						c := text()
						m2 := M{}
						for k, v := range rq.m {
							m2[k] = v
						}
						m2["signedData"] = rq.signer.SignCompact(rq.signer.Header(), []byte(c))
						// reveal value re-sealed where the key is still a string model
						var pl M
						if json.Unmarshal([]byte(c), &pl) == nil {
							keyName := "recoveryKey"
							if typ == "update" {
								keyName = "updateKey"
							}
							if km, ok := pl[keyName].(map[string]any); ok {
								model := M{}
								okModel := true
								for _, f := range []string{"kty", "crv", "x", "y"} {
									s, isStr := km[f].(string)
									if km[f] != nil && !isStr {
										okModel = false
									}
									model[f] = s
								}
								if n, ok := km["nonce"].(string); ok && n != "" {
									model["nonce"] = n
								}
								if okModel {
									m2["revealValue"] = mh.MustHash(18, jcs.MustCanonGo(model))
								}
							}
						}
						return ops.Bytes(m2)
					})
				})
				// corruptions of the protected header
				for i, h := range []string{`null`, `[]`, `"x"`, `{}`, `{"alg":null}`, `{"alg":5}`, `{"alg":["ES256"]}`, `{"alg":{"a":1}}`, `{"alg":"EdDSA","b64":"no"}`, `{"alg":"EdDSA","b64":false}`, `{"alg":"EdDSA","crit":5}`, `{"alg":true,"kid":[]}`} {
					m2 := M{}
					for k, v := range rq.m {
						m2[k] = v
					}
					m2["signedData"] = rq.signer.SignCompact([]byte(h), pb)
					add("op", fmt.Sprintf("%s/%s/header-%d", typ, kt, i), ops.Bytes(m2))
					add("jws", fmt.Sprintf("%s/%s/header-%d", typ, kt, i), []byte(m2["signedData"].(string)))
				}
				add("jws", typ+"/"+kt+"/valid", []byte(sd))
			}
		}
		// long-form DIDs from corrupted create requests
		each(create, func(i int, text func() string) {
			kt, suffix := kt, suffix
			addLazy("did", fmt.Sprintf("did/%s/%d", kt, i), func() []byte {
				b := reseal(text(), nil)
				var m M
				sfx := suffix
				if json.Unmarshal(b, &m) == nil {
					if sd, ok := m["suffixData"]; ok {
						if cb, err := jcs.CanonGo(sd); err == nil {
							sfx = mh.MustHash(18, cb)
						}
					}
					if cb, err := jcs.CanonGo(m); err == nil {
						b = cb
					}
				}
				return []byte("did:ion:" + sfx + ":" + enc.EncodeToString(b))
			})
		})
		// JWKs
		each(any(upd.JWKMap()), func(i int, text func() string) {
			addLazy("jwk", fmt.Sprintf("jwk/%s/%d", kt, i), func() []byte { return []byte(text()) })
		})
	}
	// well-formed keys of every type with their kty / crv values written in other letter case (some lookups fold case, others do not)
	for _, kt := range keys.Types {
		for _, member := range []string{"kty", "crv"} {
			for vi, f := range []func(string) string{strings.ToUpper, strings.ToLower, strings.Title} {
				m := keys.New(kt, 502).JWKMap()
				if v, ok := m[member].(string); ok && f(v) != v {
					m[member] = f(v)
					add("jwk", fmt.Sprintf("jwk/%s/%s-case-%d", kt, member, vi), ops.Bytes(m))
				}
			}
		}
	}
	// patches of each action and documents
	patchTexts := []string{
		`{"action":"replace","document":{"publicKeys":[` + ops.PubKeyJSON("k1", keys.New("P-256", 510), `["authentication"]`) + `],"services":[{"id":"s1","type":"T","serviceEndpoint":"https://s.example/"}]}}`,
		`{"action":"add-public-keys","publicKeys":[` + ops.PubKeyJSON("k2", keys.New("Ed25519", 510), `["assertionMethod"]`) + `,{"id":"k3","type":"Ed25519VerificationKey2018","publicKeyBase58":"GY4GunSXBPBfhLCzDL7iGmP5dR3sBDCJZkkaGK8VgYQf"}]}`,
		`{"action":"remove-public-keys","ids":["k1","k2"]}`,
		`{"action":"add-services","services":[{"id":"s2","type":"T","serviceEndpoint":["https://a.example/","https://b.example/"],"priority":1}]}`,
		`{"action":"remove-services","ids":["s1"]}`,
		`{"action":"ietf-json-patch","patches":[{"op":"add","path":"/other","value":{"n":1}},{"op":"copy","from":"/other","path":"/o2"},{"op":"test","path":"/o2/n","value":1}]}`,
		`{"action":"add-also-known-as","uris":["https://aka.example/","did:x:y"]}`,
		`{"action":"remove-also-known-as","uris":["https://aka.example/"]}`,
	}
	for pi, pt := range patchTexts {
		add("patch", fmt.Sprintf("patch/%d/valid", pi), []byte(pt))
		pi := pi
		each(ops.ParseJSON(pt), func(i int, text func() string) {
			addLazy("patch", fmt.Sprintf("patch/%d/%d", pi, i), func() []byte { return []byte(text()) })
		})
	}
	// list-valued patch members with entries of other JSON types before, between and behind the well-formed entries (what a later
	// patch of the same list then finds in the document is the raw list)
	{
		k1 := ops.PubKeyJSON("k1", keys.New("P-256", 510), `["authentication"]`)
		k2 := ops.PubKeyJSON("k2", keys.New("Ed25519", 510), `["assertionMethod"]`)
		s1, s2 := `{"id":"s1","type":"T","serviceEndpoint":"https://s.example/"}`, `{"id":"s2","type":"U","serviceEndpoint":"https://t.example/"}`
		ji := 0
		for _, junk := range []string{`7`, `"x"`, `null`, `[]`, `true`, `{}`, `{"id":7}`} {
			for _, shape := range []string{"%[1]s,%[2]s,%[3]s", "%[2]s,%[1]s,%[3]s", "%[2]s,%[3]s,%[1]s", "%[1]s,%[1]s,%[2]s"} {
				ks, ss := fmt.Sprintf(shape, junk, k1, k2), fmt.Sprintf(shape, junk, s1, s2)
				for _, pt := range []string{
					`{"action":"replace","document":{"publicKeys":[` + ks + `],"services":[` + ss + `]}}`,
					`{"action":"add-public-keys","publicKeys":[` + ks + `]}`,
					`{"action":"add-services","services":[` + ss + `]}`,
					`{"action":"remove-services","ids":[` + fmt.Sprintf(shape, junk, `"s1"`, `"s2"`) + `]}`,
					`{"action":"remove-public-keys","ids":[` + fmt.Sprintf(shape, junk, `"k1"`, `"k2"`) + `]}`,
					`{"action":"add-also-known-as","uris":[` + fmt.Sprintf(shape, junk, `"https://aka.example/"`, `"did:x:y"`) + `]}`,
				} {
					add("patch", fmt.Sprintf("patch/junk-entries/%d", ji), []byte(pt))
					ji++
				}
				// ... and inside a fully valid create request (also as a long-form DID), followed by patches that name the same ids again
				{
					shapeKs, shapeSs := ks, ss
					n := ji
					mk := func() []byte {
						return ops.Bytes(ops.ValidCreate(keys.New("P-256", 501), keys.New("P-256", 502), []any{
							ops.ParseJSON(`{"action":"replace","document":{"publicKeys":[` + shapeKs + `],"services":[` + shapeSs + `]}}`),
							ops.ParseJSON(`{"action":"add-services","services":[` + s1 + `]}`),
							ops.ParseJSON(`{"action":"add-public-keys","publicKeys":[` + k1 + `]}`),
							ops.ParseJSON(`{"action":"remove-services","ids":["s2"]}`)}, 18, nil))
					}
					addLazy("op", fmt.Sprintf("create-with-junk-entries/%d", n), mk)
					addLazy("did", fmt.Sprintf("did/create-with-junk-entries/%d", n), func() []byte {
						b := mk()
						var m M
						_ = json.Unmarshal(b, &m)
						cb, _ := jcs.CanonGo(m["suffixData"])
						return []byte("did:ion:" + mh.MustHash(18, cb) + ":" + enc.EncodeToString(b))
					})
				}
			}
		}
	}
	docText := `{"publicKey":[` + ops.PubKeyJSON("k1", keys.New("P-256", 511), `["authentication","keyAgreement"]`) + `,{"id":"k2","type":"Ed25519VerificationKey2018","publicKeyJwk":{"kty":"OKP","crv":"Ed25519","x":"` + keys.New("Ed25519", 511).JWK().X + `"},"purposes":["assertionMethod"]}],"service":[{"id":"s1","type":"T","serviceEndpoint":{"uri":"https://x"},"extra":[1]}],"alsoKnownAs":["https://a.example/"],"other":{"n":[1,{"m":null}]}}`
	add("doc", "doc/valid", []byte(docText))
	each(ops.ParseJSON(docText), func(i int, text func() string) {
		addLazy("doc", fmt.Sprintf("doc/%d", i), func() []byte { return []byte(text()) })
	})
	// RFC 6902 grammar
	toks := []string{"m", "missing", "0", "1", "-", "-1", "00", "99999999999", "~0", "~1", "~2", ""}
	var p1, ptrs, p3 []string // pointers of depth <= 1, <= 2, and the depth-3 extras (thorough)
	ptrs = append(ptrs, "", "m", "x/m", "x/m/n", "x/a/0", " /m")
	p1 = append(p1, "", "x/m")
	for _, a := range toks {
		ptrs = append(ptrs, "/"+a)
		p1 = append(p1, "/"+a)
		for _, b := range toks {
			ptrs = append(ptrs, "/"+a+"/"+b)
			if thorough {
				for _, c := range []string{"0", "-1", "n", "-"} {
					p3 = append(p3, "/"+a+"/"+b+"/"+c)
				}
			}
		}
	}
	vals := []string{"", `null`, `1`, `{"n":{"k":[1,2]}}`}
	kinds := []string{"add", "remove", "replace", "move", "copy", "test"}
	var single []string
	for _, k := range kinds {
		for _, p := range append(append([]string{}, ptrs...), p3...) {
			switch k {
			case "move", "copy":
				froms := ptrs
				if len(strings.Split(p, "/")) > 3 {
					froms = p1 // depth-3 targets are paired with short sources only
				}
				for _, f := range froms {
					if !thorough && len(f) > 6 && len(p) > 6 {
						continue
					}
					single = append(single, fmt.Sprintf(`{"op":%q,"path":%q,"from":%q}`, k, p, f))
				}
				if len(strings.Split(p, "/")) <= 2 {
					for _, f := range p3 {
						single = append(single, fmt.Sprintf(`{"op":%q,"path":%q,"from":%q}`, k, p, f))
					}
				}
			case "remove":
				single = append(single, fmt.Sprintf(`{"op":%q,"path":%q}`, k, p))
			default:
				for _, v := range vals {
					if v == "" {
						single = append(single, fmt.Sprintf(`{"op":%q,"path":%q}`, k, p))
					} else {
						single = append(single, fmt.Sprintf(`{"op":%q,"path":%q,"value":%s}`, k, p, v))
					}
				}
			}
		}
	}
	// index spellings which the RFC 6902 library reads as the same array element ("00", "+0", "-0" are index 0): targets
	// that lie inside their own source without being a textual child of it; "/o/..." are the same spellings as object members
	for _, k := range []string{"copy", "move"} {
		for _, c := range []string{"m", "o"} {
			for _, idx := range []string{"0", "00", "+0", "-0", "000", "1", "01", "+1", "-1"} {
				for _, tail := range []string{"x", "n", "0", "-", "n/0"} {
					for _, f := range []string{"0", "1", "00"} {
						single = append(single, fmt.Sprintf(`{"op":%q,"path":%q,"from":%q}`, k, "/"+c+"/"+idx+"/"+tail, "/"+c+"/"+f))
					}
					single = append(single, fmt.Sprintf(`{"op":%q,"path":%q,"from":%q}`, k, "/"+c+"/"+idx+"/n/"+tail, "/"+c+"/0/n"))
				}
			}
		}
	}
	for i, s := range single {
		add("jsonpatch", fmt.Sprintf("jsonpatch/1/%d", i), []byte("["+s+"]"))
	}
	// the same operations inside fully valid requests: a create request, and a recover request signed by the recovery key of the
	// existing states, whose only patch is the RFC 6902 list (hashes and signature are right, so the operation is applied);
	// quick: every third single operation
	{
		recK, updK := keys.New("P-256", 501), keys.New("P-256", 502) // the keys of the worker's existing states
		nextR, nextU := keys.New("Ed25519", 530), keys.New("Ed25519", 531)
		wrap := func(listJSON string) []any {
			return []any{M{"action": "ietf-json-patch", "patches": ops.ParseJSON(listJSON)}}
		}
		lists := []string{`[{"op":"add","path":"/note","value":"x"},{"op":"remove","path":"/note"}]`, `[{"op":"add","path":"/note","value":"x"},{"op":"move","from":"/note","path":"/n2"},{"op":"remove","path":"/n2"}]`}
		for i, s := range single {
			if thorough || i%3 == 0 {
				lists = append(lists, "["+s+"]")
			}
		}
		for i, l := range lists {
			i, l := i, l
			addLazy("op", fmt.Sprintf("create-with-jsonpatch/%d", i), func() []byte { return ops.Bytes(ops.ValidCreate(recK, updK, wrap(l), 18, nil)) })
			if i%4 == 0 {
				// ... followed by a typed patch in the same delta
				addLazy("op", fmt.Sprintf("create-with-jsonpatch-and-follower/%d", i), func() []byte {
					return ops.Bytes(ops.ValidCreate(recK, updK, append(wrap(l), ops.ParseJSON(`{"action":"add-services","services":[{"id":"f1","type":"T","serviceEndpoint":"https://f.example/"}]}`)), 18, nil))
				})
			}
			if i%5 < 2 {
				addLazy("op", fmt.Sprintf("recover-with-jsonpatch/%d", i), func() []byte {
					return ops.Bytes(ops.ValidRecover("EiAbc", recK, nextR, nextU, wrap(l), 18, nil, ops.Window{}))
				})
			}
		}
	}
	// pairs: a structural first operation followed by every "short" single operation
	firsts := []string{`{"op":"add","path":"/m","value":null}`, `{"op":"add","path":"/a","value":[]}`, `{"op":"copy","from":"/m","path":"/c"}`, `{"op":"move","from":"/m","path":"/a/0"}`,
		`{"op":"remove","path":"/m"}`, `{"op":"replace","path":"/a","value":{"0":1}}`, `{"op":"copy","from":"","path":"/r"}`, `{"op":"add","path":"","value":[1]}`, `{"op":"add","path":"","value":null}`}
	for fi, f := range firsts {
		for i, s := range single {
			if !thorough && i%7 != fi%7 {
				continue
			}
			add("jsonpatch", fmt.Sprintf("jsonpatch/2/%d/%d", fi, i), []byte("["+f+","+s+"]"))
		}
	}
	// every prefix of texts that use every escape form, surrogate pairs, unpaired surrogates and every number form: input cut off at
	// any byte (a scanner that looks ahead must not look past the end)
	for ti, text := range []string{
		`{"note":"\ud83d\ude00 \u00e9\u2028 \n\t\"q\" \\ \/ x","n":[1.5e10,-0,0.1E-2,true,false,null],"o":{"k":"v","":[]}}`,
		`["\ud83d","\udc00x","\ud83d\u0041","\uD83D\uDE00"]`,
		`{"\u0061\ud83d\ude00":"\u000b\u001f","b":-1e-7}`,
	} {
		for cut := 0; cut <= len(text); cut++ {
			add("bytes", fmt.Sprintf("prefix/%d/%d", ti, cut), []byte(text[:cut]))
		}
	}
	// malformed operations
	for i, s := range []string{`[null]`, `[[]]`, `[5]`, `[{"op":null,"path":"/m"}]`, `[{"op":"add","path":null,"value":1}]`, `[{"op":"add","path":5,"value":1}]`, `[{"op":"move","path":"/m","from":null}]`,
		`[{"op":"move","path":"/m","from":5}]`, `[{"op":"copy","path":"/m"}]`, `[{"op":"add"}]`, `[{}]`, `[{"op":"frob","path":"/m"}]`, `{"op":"add"}`, `null`, `"x"`, `[{"op":["add"],"path":"/m"}]`, `[{"op":"test","path":"/m","value":1e400}]`} {
		add("jsonpatch", fmt.Sprintf("jsonpatch/malformed/%d", i), []byte(s))
	}
	return out
}

// Huge inputs.
func Huge() []Input {
	return []Input{
		{"huge", "6MB-of-open-brackets", []byte(strings.Repeat("[", 6<<20))},
		{"huge", "6MB-of-open-braces-with-names", []byte(strings.Repeat(`{"a":`, 1<<20))},
		{"huge", "million-digit-number", []byte("[" + strings.Repeat("9", 1000000) + "]")},
		{"huge", "megabyte-string", []byte(`{"a":"` + strings.Repeat("x", 1<<20) + `"}`)},
		{"huge", "deep-valid-nesting-100k", []byte(strings.Repeat("[", 100000) + strings.Repeat("]", 100000))},
		{"huge", "long-did", []byte("did:ion:" + strings.Repeat("A", 1<<20) + ":" + strings.Repeat("B", 1<<20))},
		{"huge", "many-colons", []byte("did:ion:" + strings.Repeat(":", 1<<16))},
	}
}

// Amplify returns small inputs whose handling multiplies the size of a document: n RFC 6902 copies of a member into
// itself double the document n times. The numbers of copies are chosen so that the create request fits the limits of
// the shipped long-form configuration (MaxDeltaSize 1700, MaxOperationSize 2500).
func Amplify() []Input {
	enc := base64.RawURLEncoding
	step := `{"op":"copy","from":"/m","path":"/m/-"}` // m' = m with m appended: twice the size
	list := func(n int) string {
		return `[{"op":"add","path":"/m","value":[1]}` + strings.Repeat(","+step, n) + `]`
	}
	rec, upd := keys.New("P-256", 520), keys.New("P-256", 521)
	var create ops.M
	n := 60
	for ; n > 0; n-- {
		create = ops.ValidCreate(rec, upd, []any{ops.ParseJSON(`{"action":"ietf-json-patch","patches":` + list(n) + `}`)}, 18, nil)
		if len(ops.Bytes(create["delta"])) <= 1700 && len(ops.Bytes(create)) <= 2500 {
			break
		}
	}
	long := M{"delta": create["delta"], "suffixData": create["suffixData"]}
	return []Input{
		{"jsonpatch", fmt.Sprintf("amplify/json-patch-%d-copies-into-itself", n), []byte(list(n))},
		{"op", fmt.Sprintf("amplify/create-request-%d-copies-into-itself", n), ops.Bytes(create)},
		{"did", fmt.Sprintf("amplify/long-form-did-%d-copies-into-itself", n), []byte("did:ion:" + ops.Suffix(create, 18) + ":" + enc.EncodeToString(ops.Bytes(long)))},
	}
}
