package c19

import (
	"encoding/json"
	"strings"

	"verif/gen/keys"
	"verif/gen/ops"

	"github.com/trustbloc/sidetree-go/pkg/api/operation"
	"github.com/trustbloc/sidetree-go/pkg/api/protocol"
	"github.com/trustbloc/sidetree-go/pkg/canonicalizer"
	"github.com/trustbloc/sidetree-go/pkg/commitment"
	"github.com/trustbloc/sidetree-go/pkg/document"
	"github.com/trustbloc/sidetree-go/pkg/docutil"
	"github.com/trustbloc/sidetree-go/pkg/hashing"
	"github.com/trustbloc/sidetree-go/pkg/jws"
	"github.com/trustbloc/sidetree-go/pkg/jwsutil"
	"github.com/trustbloc/sidetree-go/pkg/patch"
	"github.com/trustbloc/sidetree-go/pkg/vdr/sidetreelongform"
	"github.com/trustbloc/sidetree-go/pkg/vdr/sidetreelongform/dochandler"
	"github.com/trustbloc/sidetree-go/pkg/versions/1_0/doccomposer"
	"github.com/trustbloc/sidetree-go/pkg/versions/1_0/doctransformer/didtransformer"
	"github.com/trustbloc/sidetree-go/pkg/versions/1_0/doctransformer/doctransformer"
	"github.com/trustbloc/sidetree-go/pkg/versions/1_0/docvalidator/didvalidator"
	"github.com/trustbloc/sidetree-go/pkg/versions/1_0/docvalidator/docvalidator"
	"github.com/trustbloc/sidetree-go/pkg/versions/1_0/operationapplier"
	"github.com/trustbloc/sidetree-go/pkg/versions/1_0/operationparser"
	"github.com/trustbloc/sidetree-go/pkg/versions/1_0/operationparser/patchvalidator"
)

type entry struct {
	name  string
	kinds string // space-separated input kinds it accepts
	f     func(b []byte)
}

type env struct {
	parser  *operationparser.Parser
	applier *operationapplier.Applier
	// the same for a protocol whose algorithm list also names codes that the library cannot compute
	oddParser  *operationparser.Parser
	oddApplier *operationapplier.Applier
	composer   *doccomposer.DocumentComposer
	handler    *dochandler.DocumentHandler
	vdr        *sidetreelongform.VDR
	existing   *protocol.ResolutionModel
	jwk        *jws.JWK
	docs       []document.Document
	states     []*protocol.ResolutionModel // existing states with a string / object / list anchor origin
}

func newEnv() *env {
	p := ops.Proto()
	e := &env{parser: operationparser.New(p), composer: doccomposer.New()}
	e.applier = operationapplier.New(p, e.parser, e.composer)
	// a node whose algorithm list also names codes that the multihash tables know but the library does not compute
	odd := p
	odd.MultihashAlgorithms = []uint{18, 0x16, 0x11, 19, 0x14, 0x15, 0x17, 0x1b, 0xb220}
	e.oddParser = operationparser.New(odd)
	e.oddApplier = operationapplier.New(odd, e.oddParser, e.composer)
	var err error
	e.handler, err = dochandler.New("did:ion")
	if err != nil {
		panic(err)
	}
	e.vdr, err = sidetreelongform.New()
	if err != nil {
		panic(err)
	}
	rec, upd := keys.New("P-256", 501), keys.New("P-256", 502)
	c := ops.ValidCreate(rec, upd, []any{ops.ParseJSON(`{"action":"add-also-known-as","uris":["https://x.example/"]}`)}, 18, nil)
	e.existing, err = e.applier.Apply(&operation.AnchoredOperation{Type: operation.TypeCreate, OperationRequest: ops.Bytes(c), UniqueSuffix: ops.Suffix(c, 18), TransactionTime: 1}, &protocol.ResolutionModel{})
	if err != nil {
		panic(err)
	}
	// further existing states: the author-chosen members of a state (anchor origin) as a string, an object and a list
	for _, origin := range []any{"origin.example", map[string]any{"a": []any{1.0}}, []any{"x", 1.0}} {
		c := ops.ValidCreate(rec, upd, []any{ops.ParseJSON(`{"action":"add-also-known-as","uris":["https://x.example/"]}`)}, 18, origin)
		st, err := e.applier.Apply(&operation.AnchoredOperation{Type: operation.TypeCreate, OperationRequest: ops.Bytes(c), UniqueSuffix: ops.Suffix(c, 18), TransactionTime: 1}, &protocol.ResolutionModel{})
		if err != nil {
			panic(err)
		}
		e.states = append(e.states, st)
	}
	e.jwk = upd.JWK()
	for _, d := range []string{`{}`, `{"m":{"n":1},"a":[1,2],"publicKey":[{"id":"k1","type":"JsonWebKey2020","publicKeyJwk":{"kty":"EC","crv":"P-256","x":"eA","y":"eQ"}}],"service":[{"id":"s1","type":"T","serviceEndpoint":"https://s.example/"}]}`,
		`{"m":[{"n":[1]},[2]],"o":{"0":{"n":[1]},"00":{"n":2},"1":[2]}}`} {
		doc, _ := document.FromBytes([]byte(d))
		e.docs = append(e.docs, doc)
	}
	return e
}

func freshDoc(d document.Document) document.Document {
	b, _ := json.Marshal(d)
	out, _ := document.FromBytes(b)
	return out
}

func (e *env) entries() []entry {
	ns := "did:ion"
	applyTypes := []operation.Type{operation.TypeCreate, operation.TypeUpdate, operation.TypeRecover, operation.TypeDeactivate, "other"}
	transform := func(doc document.Document) {
		for _, published := range []bool{true, false} {
			rm := &protocol.ResolutionModel{Doc: freshDoc(doc), UpdateCommitment: "uc", RecoveryCommitment: "rc", VersionID: "v"}
			info := protocol.TransformationInfo{"id": "did:ion:abc", "published": published}
			_, _ = didtransformer.New(didtransformer.WithBase(true)).TransformDocument(rm, info)
			_, _ = didtransformer.New().TransformDocument(rm, info)
			_, _ = doctransformer.New().TransformDocument(rm, info)
		}
	}
	// typed patches that follow the patch under test in one list: whatever that patch leaves behind is what they are given
	var followers []patch.Patch
	for _, mk := range []func() (patch.Patch, error){
		func() (patch.Patch, error) {
			return patch.NewAddServiceEndpointsPatch(`[{"id":"verif-follower","type":"T","serviceEndpoint":"https://follower.example/"}]`)
		},
		func() (patch.Patch, error) { return patch.NewAddAlsoKnownAs(`["https://follower.example/aka"]`) },
		func() (patch.Patch, error) { return patch.NewRemovePublicKeysPatch(`["verif-no-such-key"]`) },
		// the ids the fixtures use (k1, k2, s1, s2) once more: the documented way of replacing an entry
		func() (patch.Patch, error) {
			return patch.NewAddServiceEndpointsPatch(`[{"id":"s1","type":"T2","serviceEndpoint":"https://again.example/"},{"id":"s2","type":"T2","serviceEndpoint":"https://again.example/"}]`)
		},
		func() (patch.Patch, error) {
			return patch.NewAddPublicKeysPatch(`[{"id":"k1","type":"Ed25519VerificationKey2018","publicKeyBase58":"GY4GunSXBPBfhLCzDL7iGmP5dR3sBDCJZkkaGK8VgYQf"},{"id":"k2","type":"Ed25519VerificationKey2018","publicKeyBase58":"GY4GunSXBPBfhLCzDL7iGmP5dR3sBDCJZkkaGK8VgYQf"}]`)
		},
		func() (patch.Patch, error) { return patch.NewRemoveServiceEndpointsPatch(`["s2","s1"]`) },
		func() (patch.Patch, error) { return patch.NewRemovePublicKeysPatch(`["k2","k1"]`) },
	} {
		if f, err := mk(); err == nil {
			followers = append(followers, f)
		}
	}
	applyPatch := func(p patch.Patch) {
		_ = patchvalidator.Validate(p)
		for _, d := range e.docs {
			if res, err := e.composer.ApplyPatches(freshDoc(d), []patch.Patch{p}); err == nil && res != nil {
				transform(res)
			}
			if res, err := e.composer.ApplyPatches(freshDoc(d), append([]patch.Patch{p}, followers...)); err == nil && res != nil {
				transform(res)
			}
		}
	}
	return []entry{
		{"Parser.Parse", "bytes op", func(b []byte) { _, _ = e.parser.Parse(ns, b) }},
		{"Parser.ParseOperation(batch)", "bytes op", func(b []byte) { _, _ = e.parser.ParseOperation(ns, b, true) }},
		{"Parser.ParseXOperation", "bytes op", func(b []byte) {
			for _, batch := range []bool{false, true} {
				_, _ = e.parser.ParseCreateOperation(b, batch)
				_, _ = e.parser.ParseUpdateOperation(b, batch)
				_, _ = e.parser.ParseRecoverOperation(b, batch)
				_, _ = e.parser.ParseDeactivateOperation(b, batch)
			}
		}},
		{"Parser(with uncomputable algorithms listed)", "bytes op", func(b []byte) {
			_, _ = e.oddParser.Parse(ns, b)
			_, _ = e.oddParser.ParseOperation(ns, b, true)
			_, _ = e.oddParser.GetRevealValue(b)
			_, _ = e.oddParser.GetCommitment(b)
			for _, typ := range []operation.Type{operation.TypeCreate, operation.TypeUpdate, operation.TypeRecover, operation.TypeDeactivate} {
				prev := &protocol.ResolutionModel{}
				if typ != operation.TypeCreate {
					prev = e.existing
				}
				_, _ = e.oddApplier.Apply(&operation.AnchoredOperation{Type: typ, OperationRequest: b, UniqueSuffix: "EiAbc", TransactionTime: 2}, prev)
			}
		}},
		{"Parser.GetRevealValue", "bytes op", func(b []byte) { _, _ = e.parser.GetRevealValue(b) }},
		{"Parser.GetCommitment", "bytes op", func(b []byte) { _, _ = e.parser.GetCommitment(b) }},
		{"Parser.ParseDID", "bytes did", func(b []byte) {
			_, _, _ = e.parser.ParseDID(ns, string(b))
			_, _, _ = e.parser.ParseDID(ns, ns+":EiAbc:"+string(b))
		}},
		{"Parser.ParseSignedData", "bytes jws", func(b []byte) {
			_, _ = e.parser.ParseSignedDataForUpdate(string(b))
			_, _ = e.parser.ParseSignedDataForRecover(string(b))
			_, _ = e.parser.ParseSignedDataForDeactivate(string(b))
		}},
		{"Applier.Apply", "bytes op", func(b []byte) {
			for _, t := range applyTypes {
				an := &operation.AnchoredOperation{Type: t, OperationRequest: b, UniqueSuffix: "EiAbc", TransactionTime: 50}
				_, _ = e.applier.Apply(an, &protocol.ResolutionModel{})
				if res, err := e.applier.Apply(an, e.existing); err == nil && res != nil && res.Doc != nil {
					transform(res.Doc)
				}
				for _, st := range e.states {
					_, _ = e.applier.Apply(an, st)
				}
			}
		}},
		{"DocumentHandler.ProcessOperation", "bytes op", func(b []byte) { _, _ = e.handler.ProcessOperation(b) }},
		{"DocumentHandler.ResolveDocument", "bytes did", func(b []byte) {
			_, _ = e.handler.ResolveDocument(string(b))
			_, _ = e.handler.ResolveDocument(ns + ":" + string(b))
			_, _ = e.handler.ResolveDocument(ns + ":EiAbc:" + string(b))
		}},
		{"VDR.Read", "bytes did", func(b []byte) { _, _ = e.vdr.Read(string(b)) }},
		{"jwsutil.ParseJWS/VerifyJWS", "bytes jws", func(b []byte) {
			_, _ = jwsutil.ParseJWS(string(b))
			_, _ = jwsutil.VerifyJWS(string(b), e.jwk)
			_ = jwsutil.IsCompactJWS(string(b))
		}},
		{"jwsutil.JWK", "bytes jwk", func(b []byte) {
			var j jwsutil.JWK
			if err := j.UnmarshalJSON(b); err == nil {
				_, _ = j.PublicKeyBytes()
				_, _ = j.MarshalJSON()
			}
			var lj jws.JWK
			if json.Unmarshal(b, &lj) == nil {
				_ = lj.Validate()
				_, _ = jwsutil.GetED25519PublicKey(&lj)
				// signatures of every length class: none, empty, one byte, each curve's width and one more
				for _, n := range []int{-1, 0, 1, 3, 63, 64, 65, 96, 132, 133} {
					var sig []byte
					if n >= 0 {
						sig = make([]byte, n)
					}
					_ = jwsutil.VerifySignature(&lj, sig, []byte("msg"))
				}
				_ = jwsutil.VerifySignature(&lj, make([]byte, 64), nil)
				// signatures shaped like the ASN.1 DER form SEQUENCE { INTEGER r, INTEGER s }, whole and cut at every structural
				// boundary, with the outer length made to fit the cut (what a verifier that also reads DER would be sent)
				for _, rl := range []int{32, 33, 1, 0, 48, 66} {
					for _, sl := range []int{32, 1, 0} {
						full := append([]byte{0x30, byte(4 + rl + sl), 0x02, byte(rl)}, make([]byte, rl)...)
						if rl > 0 {
							full[4] = 0x01
						}
						full = append(append(full, 0x02, byte(sl)), make([]byte, sl)...)
						for _, cut := range []int{1, 2, 3, 4, 4 + rl, 5 + rl, 6 + rl, len(full)} {
							if cut > len(full) {
								continue
							}
							d := append([]byte{}, full[:cut]...)
							_ = jwsutil.VerifySignature(&lj, d, []byte("msg"))
							if len(d) >= 2 {
								d[1] = byte(len(d) - 2)
								_ = jwsutil.VerifySignature(&lj, d, []byte("msg"))
							}
						}
					}
				}
				_, _ = commitment.GetCommitment(&lj, 18)
				_, _ = commitment.GetRevealValue(&lj, 18)
			}
			_, _ = jwsutil.GetED25519PublicKey(&jws.JWK{Kty: "OKP", Crv: "Ed25519", X: string(b)})
			_ = jwsutil.VerifySignature(&jws.JWK{Kty: "EC", Crv: "P-256", X: string(b), Y: string(b)}, make([]byte, 64), []byte("m"))
		}},
		{"canonicalizer/hashing/commitment", "bytes op jwk patch doc huge", func(b []byte) {
			_, _ = canonicalizer.MarshalCanonical(b)
			_, _ = hashing.CalculateModelMultihash(b, 18)
			_ = hashing.IsValidModelMultihash(b, string(b))
			_, _ = hashing.GetMultihashCode(string(b))
			_ = hashing.IsComputedUsingMultihashAlgorithms(string(b), []uint{18})
			_ = hashing.IsComputedUsingMultihashAlgorithms(string(b), []uint{0x16, 0x11, 18, 0xb220, 0x14, 0x7fffffff, 0})
			_ = hashing.IsSupportedMultihash(string(b))
			_, _ = commitment.GetCommitmentFromRevealValue(string(b))
			_, _ = docutil.CalculateID(ns, b, 18)
			_, _ = docutil.GetNamespaceFromID(string(b))
		}},
		{"patch.FromBytes/Validate/ApplyPatches", "bytes patch", func(b []byte) {
			if p, err := patch.FromBytes(b); err == nil {
				_, _ = p.Bytes()
				applyPatch(p)
			}
		}},
		{"patch.PatchesFromDocument", "bytes doc", func(b []byte) {
			if ps, err := patch.PatchesFromDocument(string(b)); err == nil {
				for _, p := range ps {
					_ = patchvalidator.Validate(p)
				}
				if res, err := e.composer.ApplyPatches(document.Document{}, ps); err == nil {
					transform(res)
				}
			}
		}},
		{"patch.New*Patch", "bytes patch doc jsonpatch", func(b []byte) {
			s := string(b)
			for _, ctor := range []func(string) (patch.Patch, error){patch.NewReplacePatch, patch.NewJSONPatch, patch.NewAddPublicKeysPatch, patch.NewRemovePublicKeysPatch,
				patch.NewAddServiceEndpointsPatch, patch.NewRemoveServiceEndpointsPatch, patch.NewAddAlsoKnownAs, patch.NewRemoveAlsoKnownAs} {
				if p, err := ctor(s); err == nil {
					applyPatch(p)
				}
			}
		}},
		{"ietf-json-patch.ApplyPatches", "jsonpatch", func(b []byte) {
			if p, err := patch.NewJSONPatch(string(b)); err == nil {
				applyPatch(p)
			}
			// as it arrives inside a delta: action + patches value of any type
			var v any
			if json.Unmarshal(b, &v) == nil {
				p := patch.Patch{"action": "ietf-json-patch", "patches": v}
				applyPatch(p)
			}
		}},
		{"validators", "bytes doc", func(b []byte) {
			_ = docvalidator.New().IsValidOriginalDocument(b)
			_ = docvalidator.New().IsValidPayload(b)
			_ = didvalidator.New().IsValidOriginalDocument(b)
			_ = didvalidator.New().IsValidPayload(b)
		}},
		{"transformers", "bytes doc", func(b []byte) {
			if d, err := document.FromBytes(b); err == nil && d != nil {
				transform(d)
			}
		}},
		{"huge", "huge", func(b []byte) {
			_, _ = e.parser.Parse(ns, b)
			_, _ = e.handler.ResolveDocument(string(b))
			_, _ = patch.FromBytes(b)
			_, _ = jwsutil.ParseJWS(string(b))
		}},
	}
}

func accepts(e entry, kind string) bool {
	for _, k := range strings.Fields(e.kinds) {
		if k == kind {
			return true
		}
	}
	return false
}
