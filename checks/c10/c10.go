// Package c10: explicit-state search over the real DocumentComposer.ApplyPatches in lock step
// with the reference patch semantics; left-fold law; unique-id invariant. Hosts the C12 oracle
// for patch application as well.
package c10

import (
	"encoding/json"
	"fmt"
	"sort"
	"strings"
	"sync"

	"verif/engine/core"
	"verif/gen/keys"
	"verif/gen/ops"
	"verif/gen/patches"
	rpatch "verif/ref/patch"

	"github.com/trustbloc/sidetree-go/pkg/document"
	"github.com/trustbloc/sidetree-go/pkg/patch"
	"github.com/trustbloc/sidetree-go/pkg/versions/1_0/doccomposer"
	"github.com/trustbloc/sidetree-go/pkg/versions/1_0/operationparser/patchvalidator"
)

type sym struct {
	patches.Sym
	p     patch.Patch
	model map[string]any
}

type node struct {
	doc   document.Document
	model map[string]any
	path  []int
	snap  string
}

func generic(doc document.Document) map[string]any {
	b, _ := json.Marshal(doc)
	var m map[string]any
	_ = json.Unmarshal(b, &m)
	return m
}

func snapshot(v any) string {
	b, err := json.Marshal(v)
	if err != nil {
		return "unmarshalable: " + err.Error()
	}
	return string(b)
}

func uniqueIDs(doc map[string]any) string {
	for _, member := range []string{"publicKey", "service"} {
		l, _ := doc[member].([]any)
		seen := map[string]bool{}
		for _, e := range l {
			m, _ := e.(map[string]any)
			id, _ := m["id"].(string)
			if seen[id] {
				return member + " id " + id
			}
			seen[id] = true
		}
	}
	return ""
}

type Options struct {
	Model, Mutation bool
	Depth           int
	Corner          bool
	FoldLawDepth    int // states up to this depth are used as starting points of the pair law
}

func Explore(r *core.Run, o Options) {
	dc := doccomposer.New()
	var alphabet []sym
	names := map[string]int{}
	for _, s := range patches.Alphabet(o.Corner) {
		p, err := patch.FromBytes([]byte(s.JSON))
		if err != nil {
			core.Engine("c10: symbol %s does not parse as a patch: %v", s.Name, err)
		}
		if err := patchvalidator.Validate(p); err != nil {
			core.Engine("c10: symbol %s is not a validated patch: %v", s.Name, err)
		}
		var m map[string]any
		_ = json.Unmarshal([]byte(s.JSON), &m)
		names[s.Name] = len(alphabet)
		alphabet = append(alphabet, sym{s, p, m})
	}
	r.Extra["alphabet_symbols"] = len(alphabet)
	r.Extra["depth_bound"] = o.Depth
	pathNames := func(path []int, extra ...int) []string {
		out := []string{"{}"}
		for _, i := range append(append([]int{}, path...), extra...) {
			out = append(out, alphabet[i].Name)
		}
		return out
	}
	// follow-up calls of the mutation mode: the first symbol of every kind, and a list that fails after a typed patch has been applied
	type followUp struct {
		name string
		ps   []patch.Patch
	}
	var followUps []followUp
	if o.Mutation {
		seenKind := map[string]bool{}
		var firstTyped patch.Patch
		for _, a := range alphabet {
			if !seenKind[a.Kind] {
				seenKind[a.Kind] = true
				followUps = append(followUps, followUp{a.Name, []patch.Patch{a.p}})
				if firstTyped == nil && (a.Kind == "services" || a.Kind == "keys" || a.Kind == "aka") {
					firstTyped = a.p
				}
			}
		}
		if failing, err := patch.NewJSONPatch(`[{"op":"remove","path":"/verif-no-such-member"}]`); err == nil && firstTyped != nil {
			followUps = append(followUps, followUp{"typed patch, then a JSON patch that fails", []patch.Patch{firstTyped, failing}})
		}
	}
	// apply runs the real composer on a list of symbols and judges it against the model.
	// (mutation mode works on shared values; once the code under test has written into one of them, what follows is no longer the
	// planned exploration - and may not even end, e.g. when a patch value grows with every call - so it stops at the first such verdict)
	corrupted := false
	apply := func(n *node, sis []int) (*node, *core.Fail) {
		if o.Mutation && corrupted {
			return nil, nil
		}
		var ps []patch.Patch
		var ms []any
		for _, si := range sis {
			ps = append(ps, alphabet[si].p)
			ms = append(ms, alphabet[si].model)
		}
		id := strings.Join(pathNames(n.path, sis...), ",")
		det := map[string]any{"case": id, "history": pathNames(n.path), "start_document": rpatch.Project(n.model), "patches": func() []string {
			var l []string
			for _, si := range sis {
				l = append(l, alphabet[si].JSON)
			}
			return l
		}()}
		var before string
		var pBefore []string
		if o.Mutation {
			before = snapshot(n.doc)
			for _, p := range ps {
				pBefore = append(pBefore, snapshot(p))
			}
		}
		input := n.doc
		if !o.Mutation {
			// parallel transitions: each call gets its own copy of the document and of the patch values (code that wrongly edits its
			// input cannot disturb the other transitions - concurrent writes to one map would kill the process instead of being judged)
			input = document.Document(rpatch.Clone(map[string]any(n.doc)).(map[string]any))
			own := make([]patch.Patch, len(ps))
			for i, p := range ps {
				b, err := json.Marshal(p)
				if err != nil {
					core.Engine("c10: patch symbol does not serialize: %v", err)
				}
				if own[i], err = patch.FromBytes(b); err != nil {
					core.Engine("c10: patch symbol does not parse back: %v", err)
				}
			}
			ps = own
		}
		var res document.Document
		var err error
		last := alphabet[sis[len(sis)-1]].Name
		if pf := func() (f *core.Fail) {
			defer func() {
				if p := recover(); p != nil {
					f = &core.Fail{Key: "panic/" + last, What: fmt.Sprintf("ApplyPatches panicked on %v: %v", pathNamesOnly(alphabet, sis), p), Detail: merge(det, map[string]any{"panic": fmt.Sprint(p)})}
				}
			}()
			res, err = dc.ApplyPatches(input, ps)
			return nil
		}(); pf != nil {
			return nil, pf
		}
		if o.Mutation {
			if after := snapshot(n.doc); after != before {
				return nil, &core.Fail{Key: "mutated-input-document/" + last, What: "ApplyPatches modified the input document", Detail: merge(det, map[string]any{"before": before, "after": after})}
			}
			for i, p := range ps {
				if after := snapshot(p); after != pBefore[i] {
					return nil, &core.Fail{Key: "mutated-patch/" + alphabet[sis[i]].Name, What: "ApplyPatches modified a patch value", Detail: merge(det, map[string]any{"before": pBefore[i], "after": after})}
				}
			}
			if err != nil && res != nil {
				return nil, &core.Fail{Key: "partial-document-on-error/" + last, What: "failing patch list returned a document together with the error", Detail: det}
			}
			if err == nil && res == nil {
				return nil, &core.Fail{Key: "nil-without-error/" + last, What: "ApplyPatches returned neither document nor error", Detail: det}
			}
		}
		if o.Mutation && err == nil && res != nil {
			// the document just returned is handed straight back to the same composer (what an applier folding a history does):
			// it is an input like any other and must come out of the next call unchanged, also when that call fails half-way
			kept := snapshot(res)
			for _, fu := range followUps {
				r2, e2 := dc.ApplyPatches(res, fu.ps)
				if after := snapshot(res); after != kept {
					return nil, &core.Fail{Key: "result-modified-when-passed-back/" + fu.name, What: "the document returned by ApplyPatches was modified when it was passed to the next ApplyPatches call on the same composer (" + fu.name + ")",
						Detail: merge(det, map[string]any{"next_call": fu.name, "before": kept, "after": after})}
				}
				if e2 != nil && r2 != nil {
					return nil, &core.Fail{Key: "partial-document-on-error/" + fu.name, What: "failing patch list returned a document together with the error", Detail: det}
				}
			}
		}
		want, werr := rpatch.Apply(n.model, ms)
		if o.Model {
			key := strings.Join(pathNamesOnly(alphabet, sis), "+")
			if len(sis) == 1 && strings.HasPrefix(alphabet[sis[0]].Kind, "json") {
				key = jsonClass(n.model, alphabet[sis[0]].model) // departures of the RFC 6902 library are keyed by class, not by symbol
			}
			if werr != nil {
				if err == nil {
					return nil, &core.Fail{Key: "applied-but-undefined/" + key, What: fmt.Sprintf("patch list %v must fail on this document (%v) but produced %s", pathNamesOnly(alphabet, sis), werr, rpatch.Project(generic(res))), Detail: det}
				}
				return nil, nil
			}
			if err != nil {
				return nil, &core.Fail{Key: "failed-but-defined/" + key, What: fmt.Sprintf("patch list %v failed (%v) but the semantics define the result %s", pathNamesOnly(alphabet, sis), err, rpatch.Project(want)), Detail: det}
			}
			got := generic(res)
			if rpatch.Project(got) != rpatch.Project(want) {
				return nil, &core.Fail{Key: "result-mismatch/" + key + "/members=" + diffMembers(got, want),
					What:   fmt.Sprintf("patches %v on %s gave %s, the per-action semantics give %s", pathNamesOnly(alphabet, sis), rpatch.Project(n.model), rpatch.Project(got), rpatch.Project(want)),
					Detail: merge(det, map[string]any{"observed": rpatch.Project(got), "expected": rpatch.Project(want)})}
			}
			if dup := uniqueIDs(got); dup != "" {
				return nil, &core.Fail{Key: "duplicate-id/" + key, What: "result has a duplicate " + dup, Detail: det}
			}
		}
		if err != nil || res == nil {
			return nil, nil
		}
		m := want
		if !o.Model || werr != nil {
			m = generic(res)
		}
		nn := &node{doc: res, model: m, path: append(append([]int{}, n.path...), sis...)}
		if o.Mutation {
			nn.snap = snapshot(res)
		}
		return nn, nil
	}

	if r.Only != "" {
		parts := strings.Split(r.Only, ",")
		cur := &node{doc: document.Document{}, model: map[string]any{}}
		// a case id is "{}", history..., then the patch list of the failing call separated by "|"
		hist, call := parts[1:], []string{}
		if i := strings.Index(r.Only, "|"); i >= 0 {
			hist = strings.Split(r.Only[:i], ",")[1:]
			call = strings.Split(r.Only[i+1:], ",")
		} else if len(hist) > 0 {
			call = hist[len(hist)-1:]
			hist = hist[:len(hist)-1]
		}
		for _, h := range hist {
			nx, f := apply(cur, []int{names[h]})
			if f != nil {
				r.Report(r.Only, *f)
				return
			}
			if nx != nil {
				cur = nx
			}
		}
		var sis []int
		for _, c := range call {
			sis = append(sis, names[c])
		}
		r.Eval(1)
		if _, f := apply(cur, sis); f != nil {
			r.Report(r.Only, *f)
		}
		return
	}

	root := &node{doc: document.Document{}, model: map[string]any{}, snap: "{}"}
	seen := map[string]bool{rpatch.Project(root.model): true}
	all := []*node{root}
	levels := [][]*node{{root}}
	frontier := []*node{root}
	// second starting point (a non-initial state with other members of both kinds), reached through the real composer
	if n1, f := apply(root, []int{names["json/add-m"]}); f == nil && n1 != nil {
		if n2, f := apply(n1, []int{names["json/add-a"]}); f == nil && n2 != nil {
			seen[rpatch.Project(n2.model)] = true
			all = append(all, n2)
			levels[0] = append(levels[0], n2)
			frontier = append(frontier, n2)
		}
	}
	var mu sync.Mutex
	par := core.Parallel
	if o.Mutation {
		par = core.Sequential // in-place mutations must be attributed to the call that made them
	}
	report := func(n *node, sis []int, f *core.Fail) {
		for k := 0; k < 2 && !o.Mutation; k++ {
			if _, g := apply(n, sis); g == nil || g.Key != f.Key {
				core.Engine("c10: verdict did not reproduce: %s", f.Key)
			}
		}
		hist := strings.Join(pathNames(n.path), ",")
		call := strings.Join(pathNamesOnly(alphabet, sis), ",")
		r.Report(hist+"|"+call, *f)
		if o.Mutation && !corrupted && (strings.HasPrefix(f.Key, "mutated-") || strings.HasPrefix(f.Key, "result-modified")) {
			corrupted = true
			r.Cap("the code under test modified a shared input value: the exploration stopped at the first such call (violation reported)")
		}
	}
	depthDone := 0
	for depth := 1; depth <= o.Depth && len(frontier) > 0; depth++ {
		if r.Expired() {
			r.Cap(fmt.Sprintf("deadline before depth %d", depth))
			break
		}
		type edge struct {
			n  *node
			si int
		}
		var edges []edge
		for _, n := range frontier {
			for si := range alphabet {
				edges = append(edges, edge{n, si})
			}
		}
		results := make([]*node, len(edges))
		par(len(edges), func(i int) {
			e := edges[i]
			nx, f := apply(e.n, []int{e.si})
			if f != nil {
				report(e.n, []int{e.si}, f)
				return
			}
			results[i] = nx
			mu.Lock()
			if nx != nil {
				r.Extra["applied_"+alphabet[e.si].Kind] = asInt(r.Extra["applied_"+alphabet[e.si].Kind]) + 1
			} else {
				r.Extra["failed_"+alphabet[e.si].Kind] = asInt(r.Extra["failed_"+alphabet[e.si].Kind]) + 1
			}
			mu.Unlock()
		})
		r.Eval(int64(len(edges)))
		r.Transitions += int64(len(edges))
		r.Traces += int64(len(edges))
		var next []*node
		for _, nx := range results {
			if nx == nil {
				continue
			}
			k := rpatch.Project(nx.model)
			if o.Mutation {
				k = nx.snap
			}
			if seen[k] {
				continue
			}
			seen[k] = true
			next = append(next, nx)
			all = append(all, nx)
		}
		frontier = next
		levels = append(levels, next)
		depthDone = depth
	}
	r.States += int64(len(all))
	r.Extra["depth_completed"] = depthDone
	r.Extra["frontier_left"] = len(frontier)
	if len(frontier) > 0 {
		r.Exhaustive = false
		r.Caps = append(r.Caps, fmt.Sprintf("depth bound %d reached with %d unexpanded documents (exhaustive for all patch sequences up to that depth)", o.Depth, len(frontier)))
	}
	for k := range seen {
		r.Observe(k)
	}

	// left-fold law: ApplyPatches(d,[p,q]) == ApplyPatches(ApplyPatches(d,[p]),[q]) for all pairs
	var starts []*node
	for d := 0; d <= o.FoldLawDepth && d < len(levels); d++ {
		starts = append(starts, levels[d]...)
	}
	var pairs int64
	foldStarts := starts
	if o.Mutation {
		foldStarts = nil // the law is C10's subject; C12 runs on shared values and judges them through apply only
	}
	par(len(foldStarts), func(i int) {
		n := foldStarts[i]
		// this worker's own copies of the start document and of every patch value (see apply)
		doc := n.doc
		own := make([]patch.Patch, len(alphabet))
		if !o.Mutation {
			doc = document.Document(rpatch.Clone(map[string]any(n.doc)).(map[string]any))
		}
		for ai := range alphabet {
			own[ai] = alphabet[ai].p
			if !o.Mutation {
				b, err := json.Marshal(alphabet[ai].p)
				if err != nil {
					core.Engine("c10: patch symbol does not serialize: %v", err)
				}
				if own[ai], err = patch.FromBytes(b); err != nil {
					core.Engine("c10: patch symbol does not parse back: %v", err)
				}
			}
		}
		for pi := range alphabet {
			mid, errMid := dc.ApplyPatches(doc, []patch.Patch{own[pi]})
			for qi := range alphabet {
				both, errBoth := dc.ApplyPatches(doc, []patch.Patch{own[pi], own[qi]})
				var seq document.Document
				var errSeq error = errMid
				if errMid == nil {
					seq, errSeq = dc.ApplyPatches(mid, []patch.Patch{own[qi]})
				}
				ok := (errBoth != nil) == (errSeq != nil)
				if ok && errBoth == nil {
					ok = rpatch.Project(generic(both)) == rpatch.Project(generic(seq))
				}
				if !ok {
					id := strings.Join(pathNames(n.path), ",") + "|" + alphabet[pi].Name + "," + alphabet[qi].Name
					r.Report(id, core.Fail{Key: "left-fold-law/" + alphabet[pi].Name + "+" + alphabet[qi].Name,
						What:   fmt.Sprintf("applying [%s, %s] at once differs from applying them one after the other", alphabet[pi].Name, alphabet[qi].Name),
						Detail: map[string]any{"start_document": rpatch.Project(n.model), "at_once": fmt.Sprint(rpatch.Project(generic(both)), errBoth), "sequentially": fmt.Sprint(rpatch.Project(generic(seq)), errSeq)}})
				}
			}
		}
		mu.Lock()
		pairs += int64(len(alphabet) * len(alphabet))
		mu.Unlock()
	})
	r.Eval(pairs)
	r.Extra["left_fold_pairs"] = pairs

	if o.Mutation {
		for _, n := range all {
			r.Eval(1)
			if n.snap != "" && snapshot(n.doc) != n.snap {
				id := strings.Join(pathNames(n.path), ",")
				r.Report(id, core.Fail{Key: "earlier-document-changed/" + id, What: "a document produced earlier was modified by later applications", Detail: map[string]any{"history": pathNames(n.path)}})
			}
		}
		// lists with runs of adjacent patches of one action (a composer that joins or batches neighbours must not do it in the
		// caller's values): every ordered pair and triple of four JSON patches, alone, behind a typed patch and before a failing one,
		// and pairs of add-key / add-service / add-aka patches
		{
			var js, typed []int
			for _, nm := range []string{"json/add-m", "json/add-a", "json/two-ops", "json/null-values"} {
				if i, ok := names[nm]; ok {
					js = append(js, i)
				}
			}
			for _, nm := range []string{"add-key/k1/v0", "add-key/k2/v0", "add-service/s1/v0", "add-service/s2/v0", "add-aka/[0]", "add-aka/[1]"} {
				if i, ok := names[nm]; ok {
					typed = append(typed, i)
				}
			}
			if len(js) < 3 || len(typed) < 4 {
				core.Engine("c10: symbols for the adjacent-patch lists are missing (%d json, %d typed)", len(js), len(typed))
			}
			var lists [][]int
			for _, a := range js {
				for _, b := range js {
					lists = append(lists, []int{a, b}, []int{typed[0], a, b}, []int{a, b, names["json/fails-second"]})
					for _, c := range js {
						lists = append(lists, []int{a, b, c})
					}
				}
			}
			for _, a := range typed {
				for _, b := range typed {
					lists = append(lists, []int{a, b})
				}
			}
			for _, n := range starts {
				for _, l := range lists {
					r.Eval(1)
					if _, f := apply(n, l); f != nil {
						report(n, l, f)
					}
					r.Class("adjacent-patches")
				}
			}
		}
		// every ordered pair of symbols as one list (a patch that puts the caller's value into the working document, and a later
		// patch of the same list that edits the working document in place, meet only here)
		for _, n := range starts {
			for a := range alphabet {
				for b := range alphabet {
					r.Eval(1)
					if _, f := apply(n, []int{a, b}); f != nil {
						report(n, []int{a, b}, f)
					}
				}
			}
			r.Class("pair-lists")
		}
		// lists of length 3 failing at the k-th patch
		failing := names["json/fails-second"]
		goodA, goodB := names["add-key/k1/v0"], names["add-aka/[0]"]
		for _, n := range starts {
			for k := 0; k < 3; k++ {
				l := []int{goodA, goodB, goodA}
				l[k] = failing
				r.Eval(1)
				if _, f := apply(n, l); f != nil {
					report(n, l, f)
				}
				res, err := dc.ApplyPatches(n.doc, []patch.Patch{alphabet[l[0]].p, alphabet[l[1]].p, alphabet[l[2]].p})
				if err == nil || res != nil {
					id := strings.Join(pathNames(n.path), ",") + "|" + strings.Join(pathNamesOnly(alphabet, l), ",")
					r.Report(id, core.Fail{Key: fmt.Sprintf("failing-list-not-atomic/k=%d", k+1), What: "a patch list with a failing patch did not fail atomically", Detail: map[string]any{"k": k + 1}})
				}
				r.Class("failing-list")
			}
		}
	}
	if o.Mutation {
		// lists whose JSON patch points into a value that an earlier patch of the same list supplied (such pointers are not
		// what the validator lets through, but the statement is about every patch list handed to the composer): the earlier
		// patch value is the caller's and must come out unchanged, also when a third patch makes the list fail
		type supplier struct {
			name, member string
			mk           func() (patch.Patch, error)
			fields       []string
		}
		suppliers := []supplier{
			{"add-public-keys", "publicKey", func() (patch.Patch, error) {
				return patch.NewAddPublicKeysPatch("[" + ops.PubKeyJSON("own9", keys.New("P-256", 39), `["authentication","assertionMethod"]`) + "]")
			}, []string{"type", "purposes/0", "publicKeyJwk/crv", "publicKeyJwk", "purposes"}},
			{"add-services", "service", func() (patch.Patch, error) {
				return patch.NewAddServiceEndpointsPatch(`[{"id":"own9","type":"T9","serviceEndpoint":{"uri":"https://own9.example/","list":["a","b"]}}]`)
			}, []string{"type", "serviceEndpoint/uri", "serviceEndpoint/list/1", "serviceEndpoint"}},
			{"replace", "publicKey", func() (patch.Patch, error) {
				return patch.NewReplacePatch(`{"publicKeys":[` + ops.PubKeyJSON("own9", keys.New("P-256", 39), `["authentication"]`) + `],"services":[{"id":"own9","type":"T9","serviceEndpoint":"https://own9.example/"}]}`)
			}, []string{"type", "publicKeyJwk/x"}},
			{"replace", "service", func() (patch.Patch, error) {
				return patch.NewReplacePatch(`{"publicKeys":[` + ops.PubKeyJSON("own9", keys.New("P-256", 39), `["authentication"]`) + `],"services":[{"id":"own9","type":"T9","serviceEndpoint":"https://own9.example/"}]}`)
			}, []string{"type", "serviceEndpoint"}},
		}
		jsonOps := []string{`{"op":"replace","path":%q,"value":"verif-other"}`, `{"op":"add","path":%q,"value":{"verif":1}}`, `{"op":"remove","path":%q}`,
			`{"op":"move","from":%q,"path":"/verifMoved"}`, `{"op":"copy","from":"/alsoKnownAs","path":%q}`}
		fail3, _ := patch.NewJSONPatch(`[{"op":"remove","path":"/verif-no-such-member"}]`)
		for _, n := range starts {
			for _, sp := range suppliers {
				probe, err := sp.mk()
				if err != nil {
					core.Engine("supplier patch %s: %v", sp.name, err)
				}
				after1, err := dc.ApplyPatches(n.doc, []patch.Patch{probe})
				if err != nil {
					continue // (an id of the start document collides: not this section's subject)
				}
				l, _ := map[string]any(after1)[sp.member].([]any)
				if len(l) == 0 {
					continue
				}
				for _, field := range sp.fields {
					ptr := fmt.Sprintf("/%s/%d/%s", sp.member, len(l)-1, field)
					for oi, tmpl := range jsonOps {
						for _, third := range []bool{false, true} {
							first, _ := sp.mk()
							jp, err := patch.NewJSONPatch("[" + fmt.Sprintf(tmpl, ptr) + "]")
							if err != nil {
								core.Engine("json patch: %v", err)
							}
							list := []patch.Patch{first, jp}
							if third {
								list = append(list, fail3)
							}
							id := fmt.Sprintf("%s|pointer-into-earlier-patch/%s%s/op%d/third=%v", strings.Join(pathNames(n.path), ","), sp.name, ptr, oi, third)
							r.Eval(1)
							docBefore, firstBefore, jpBefore := snapshot(n.doc), snapshot(first), snapshot(jp)
							var res document.Document
							func() {
								defer func() {
									if p := recover(); p != nil {
										err = fmt.Errorf("panic: %v", p)
									}
								}()
								res, err = dc.ApplyPatches(n.doc, list)
							}()
							det := map[string]any{"history": pathNames(n.path), "first_patch": firstBefore, "json_patch": jpBefore, "followed_by_failing_patch": third}
							if a := snapshot(first); a != firstBefore {
								r.Report(id, core.Fail{Key: "mutated-patch/pointer-into-earlier-patch/" + sp.name, What: "ApplyPatches modified the value of an earlier patch of the list through a later JSON patch", Detail: merge(det, map[string]any{"before": firstBefore, "after": a})})
							}
							if a := snapshot(jp); a != jpBefore {
								r.Report(id, core.Fail{Key: "mutated-patch/pointer-into-earlier-patch/json", What: "ApplyPatches modified the JSON patch value", Detail: merge(det, map[string]any{"before": jpBefore, "after": a})})
							}
							if a := snapshot(n.doc); a != docBefore {
								r.Report(id, core.Fail{Key: "mutated-input-document/pointer-into-earlier-patch", What: "ApplyPatches modified the input document", Detail: merge(det, map[string]any{"before": docBefore, "after": a})})
							}
							if third && (err == nil || res != nil) {
								r.Report(id, core.Fail{Key: "failing-list-not-atomic/pointer-into-earlier-patch", What: "a patch list with a failing patch did not fail atomically", Detail: det})
							}
							r.Class("pointer-into-earlier-patch")
						}
					}
				}
			}
		}
	}
	if len(all) > 3 {
		n := all[len(all)/2]
		r.Sample(map[string]any{"history": pathNames(n.path), "reached_document": rpatch.Project(n.model)})
		n = all[len(all)-1]
		r.Sample(map[string]any{"history": pathNames(n.path), "reached_document": rpatch.Project(n.model)})
	}
}

// diffMembers names the top-level members in which two documents differ.
func diffMembers(a, b map[string]any) string {
	set := map[string]bool{}
	for k := range a {
		set[k] = true
	}
	for k := range b {
		set[k] = true
	}
	var out []string
	for k := range set {
		if rpatch.Project(map[string]any{k: a[k]}) != rpatch.Project(map[string]any{k: b[k]}) {
			out = append(out, k)
		}
	}
	sort.Strings(out)
	return strings.Join(out, "+")
}

// jsonClass classifies an ietf-json-patch symbol for violation keys: the operation kinds, the
// kind of location the first operation writes to, and (when the reference refuses) the first
// refused operation with the reference's reason.
func jsonClass(doc map[string]any, p map[string]any) string {
	opsList, _ := p["patches"].([]any)
	var kinds []string
	var cur any = rpatch.Clone(doc)
	refused := ""
	for _, o := range opsList {
		om, _ := o.(map[string]any)
		k, _ := om["op"].(string)
		kinds = append(kinds, k)
		if refused == "" {
			var err error
			cur, err = rpatch.JSONPatchOp(cur, om)
			if err != nil {
				refused = k + ":" + strings.ReplaceAll(err.Error(), " ", "-")
			}
		}
	}
	loc := "member"
	if len(opsList) > 0 {
		om, _ := opsList[0].(map[string]any)
		ps, _ := om["path"].(string)
		if fs, ok := om["from"].(string); ok && strings.HasPrefix(ps, fs+"/") {
			loc = "own-child"
		}
		last := ps[strings.LastIndex(ps, "/")+1:]
		if loc == "own-child" {
		} else if last == "-" {
			loc = "end"
		} else if last != "" && last[0] >= '0' && last[0] <= '9' {
			loc = "index"
		}
	}
	c := "json:" + strings.Join(kinds, ",") + ":" + loc
	if refused != "" {
		c += ":ref-refuses-" + refused
	}
	return c
}

func asInt(v any) int {
	i, _ := v.(int)
	return i
}

func pathNamesOnly(alphabet []sym, sis []int) []string {
	var out []string
	for _, i := range sis {
		out = append(out, alphabet[i].Name)
	}
	return out
}

func merge(a, b map[string]any) map[string]any {
	for k, v := range b {
		a[k] = v
	}
	return a
}

func Run(r *core.Run) {
	r.Rule = "BFS over the real DocumentComposer.ApplyPatches: every validated patch symbol (8 actions; ids that collide, overlap and miss; RFC 6902 operations on other members) from every reachable document, " +
		"deduplicated on the observable projection; every transition compared with the reference fold; left-fold law for all ordered symbol pairs from every state up to the law depth; unique-id invariant; " +
		"distinct = distinct documents; non-trivial = all"
	r.Assumptions = []string{"reference per-action semantics ref/patch written from the property statement; RFC 6902 evaluated literally",
		"documents compared through the observable projection (null / absent / [] list members are one observation)"}
	Explore(r, Options{Model: true, Depth: core.Pick(r, 2, 3), Corner: true, FoldLawDepth: core.Pick(r, 1, 1)})
}
