// Package c07: the non-batch parser accepts exactly what the protocol allows and reports it faithfully.
package c07

import (
	"bytes"
	"encoding/base64"
	"encoding/json"
	"fmt"
	"reflect"
	"strings"
	"sync/atomic"

	"verif/engine/core"
	"verif/gen/keys"
	"verif/gen/ops"
	"verif/ref/jcs"
	"verif/ref/sidetree"

	"github.com/trustbloc/sidetree-go/pkg/api/operation"
	"github.com/trustbloc/sidetree-go/pkg/api/protocol"
	"github.com/trustbloc/sidetree-go/pkg/commitment"
	libjws "github.com/trustbloc/sidetree-go/pkg/jws"
	"github.com/trustbloc/sidetree-go/pkg/versions/1_0/operationparser"
)

type M = ops.M

var patchKinds = map[string]string{
	"replace":              `{"action":"replace","document":{"publicKeys":[` + ops.PubKeyJSON("k1", keys.New("P-256", 50), `["authentication"]`) + `],"services":[{"id":"s1","type":"T","serviceEndpoint":"https://s.example/"}]}}`,
	"add-public-keys":      `{"action":"add-public-keys","publicKeys":[` + ops.PubKeyJSON("k2", keys.New("Ed25519", 50), `["assertionMethod"]`) + `]}`,
	"remove-public-keys":   `{"action":"remove-public-keys","ids":["k1"]}`,
	"add-services":         `{"action":"add-services","services":[{"id":"s2","type":"T","serviceEndpoint":["https://a.example/","https://b.example/"]}]}`,
	"remove-services":      `{"action":"remove-services","ids":["s1","s2"]}`,
	"ietf-json-patch":      `{"action":"ietf-json-patch","patches":[{"op":"add","path":"/other","value":{"n":1}}]}`,
	"add-also-known-as":    `{"action":"add-also-known-as","uris":["https://aka.example/"]}`,
	"remove-also-known-as": `{"action":"remove-also-known-as","uris":["https://aka.example/"]}`,
	// (not in kindOrder) sixty numbers whose canonical text, 100000000000000000000, is five times as long as the spelling 1e20
	// (not in kindOrder) strings with characters that JSON writers other than JCS escape (& < > U+2028 U+2029): sizes are defined on the canonical form
	"html-characters": `{"action":"add-services","services":[{"id":"s9","type":"T","serviceEndpoint":"https://s.example/?a=1&b=2&c=<3>&d=e f "}]}`,
	"json-numbers":    `{"action":"ietf-json-patch","patches":[{"op":"add","path":"/n","value":[` + strings.TrimSuffix(strings.Repeat("1e20,", 60), ",") + `]}]}`,
}

var kindOrder = []string{"replace", "add-public-keys", "remove-public-keys", "add-services", "remove-services", "ietf-json-patch", "add-also-known-as", "remove-also-known-as"}

type cfgCase struct {
	name string
	p    protocol.Protocol
}

// fresh returns a copy of the configuration that shares no slice with the original: a parser that rearranged or edited
// the lists it was given would otherwise change the expectations of later cases behind the harness' back.
func fresh(p protocol.Protocol) protocol.Protocol {
	p.MultihashAlgorithms = append([]uint(nil), p.MultihashAlgorithms...)
	p.SignatureAlgorithms = append([]string(nil), p.SignatureAlgorithms...)
	p.KeyAlgorithms = append([]string(nil), p.KeyAlgorithms...)
	p.Patches = append([]string(nil), p.Patches...)
	return p
}

func toConfig(p protocol.Protocol) sidetree.Config {
	c := sidetree.Config{MaxOperationSize: uint64(p.MaxOperationSize), MaxOperationHashLength: uint64(p.MaxOperationHashLength), MaxDeltaSize: uint64(p.MaxDeltaSize),
		NonceSize: p.NonceSize, SignatureAlgorithms: p.SignatureAlgorithms, KeyAlgorithms: p.KeyAlgorithms, Patches: p.Patches}
	for _, a := range p.MultihashAlgorithms {
		c.MultihashAlgorithms = append(c.MultihashAlgorithms, uint64(a))
	}
	return c
}

func without(l []string, s string) []string {
	var out []string
	for _, x := range l {
		if x != s {
			out = append(out, x)
		}
	}
	return out
}

type reqCase struct {
	label string
	typ   string
	key   *keys.Key
	kind  string
	req   M
	bytes []byte
}

func Run(r *core.Run) {
	r.Rule = "valid requests: 4 types x 5 key types x 8 patch kinds (+ nonce-carrying keys, anchor origin variants, sha2-512 for one hash at a time) x configurations varying one axis at a time " +
		"(each size limit exactly at and one below the request's size, each list with / without the used value and with an irrelevant extra value, nonce size n/n-1/n+1, every other numeric parameter changed); " +
		"plus one labelled mutation per rule of the statement; oracle: independent acceptance predicate, both directions, and the returned operation's type, suffix, id, bytes and anchor origin; " +
		"every (request, configuration) pair also as the second call on one shared parser after each of 6 first calls (the same request through each batch-mode entry point and through Parse, the neighbouring request in both modes), and every valid request after each of the refused requests (also on a second parser built from the same configuration value); " +
		"distinct = distinct (request, configuration) pairs and two-call histories; non-trivial = all"
	r.Assumptions = []string{"independent acceptance predicate ref/sidetree.Acceptable + ref/rules written from the statement", "signature validity and delta binding of update/recover are not part of the non-batch parser's rules (C02)",
		"anchor-origin and time validators are the permissive defaults"}
	const ns = "did:sidetree"
	base := ops.Proto()
	base.MultihashAlgorithms = []uint{18, 19}
	var reqs []reqCase
	types := []string{"create", "update", "recover", "deactivate"}
	mk := func(typ string, k *keys.Key, kind string, code uint64, revealCode uint64, origin any) M {
		next, nextR := keys.New("Ed25519", 60), keys.New("Ed25519", 61)
		patches := []any{ops.ParseJSON(patchKinds[kind])}
		switch typ {
		case "create":
			return ops.ValidCreate(k, next, patches, code, origin)
		case "update":
			r := ops.ValidUpdate("EiSuffix", k, next, patches, code, ops.Window{})
			r["revealValue"] = ops.Reveal(k, revealCode)
			return r
		case "recover":
			r := ops.ValidRecover("EiSuffix", k, nextR, next, patches, code, origin, ops.Window{From: 5})
			r["revealValue"] = ops.Reveal(k, revealCode)
			return r
		}
		r := ops.ValidDeactivate("EiSuffix", k, revealCode, ops.Window{})
		return r
	}
	addReq := func(label, typ string, k *keys.Key, kind string, req M) {
		reqs = append(reqs, reqCase{label, typ, k, kind, req, ops.Bytes(req)})
	}
	for _, typ := range types {
		for _, kt := range keys.Types {
			k := keys.New(kt, 3)
			for _, kind := range kindOrder {
				if typ == "deactivate" && kind != "replace" {
					continue
				}
				addReq(fmt.Sprintf("valid/%s/%s/%s", typ, kt, kind), typ, k, kind, mk(typ, k, kind, 18, 18, "origin"))
			}
		}
		k := keys.New("P-256", 3)
		if typ != "create" {
			nk := k.WithNonce("AAAAAAAAAAAAAAAAAAAAAA")
			addReq(fmt.Sprintf("valid/%s/nonce-key", typ), typ, nk, "add-also-known-as", mk(typ, nk, "add-also-known-as", 18, 18, nil))
			addReq(fmt.Sprintf("valid/%s/sha512-reveal", typ), typ, k, "add-also-known-as", mk(typ, k, "add-also-known-as", 18, 19, nil))
		}
		if typ != "deactivate" {
			// the same request as it may arrive on the wire: numbers in exponent form, so that the request is shorter than its own
			// canonical delta (all size limits are defined on what they name: the request as received, the delta in canonical form)
			addReq(fmt.Sprintf("valid/%s/html-characters", typ), typ, k, "html-characters", mk(typ, k, "html-characters", 18, 18, nil))
			// the request as some clients send it, with a line break behind it / blanks before it: the maximum operation size is a limit on
			// the request as received, and the returned operation carries those very bytes
			padded := mk(typ, k, "add-services", 18, 18, nil)
			reqs = append(reqs, reqCase{fmt.Sprintf("valid/%s/line-break-behind", typ), typ, k, "add-services", padded, append(ops.Bytes(padded), '\n')},
				reqCase{fmt.Sprintf("valid/%s/blanks-before-and-behind", typ), typ, k, "add-services", padded, append(append([]byte(" \t"), ops.Bytes(padded)...), ' ', '\r', '\n')})
			wire := mk(typ, k, "json-numbers", 18, 18, nil)
			compact := bytes.ReplaceAll(ops.Bytes(wire), []byte("100000000000000000000"), []byte("1e20"))
			reqs = append(reqs, reqCase{fmt.Sprintf("valid/%s/numbers-in-exponent-form", typ), typ, k, "json-numbers", wire, compact})
			addReq(fmt.Sprintf("valid/%s/sha512-all", typ), typ, k, "add-also-known-as", mk(typ, k, "add-also-known-as", 19, 19, M{"o": 1.0}))
			addReq(fmt.Sprintf("valid/%s/no-origin", typ), typ, k, "add-public-keys", mk(typ, k, "add-public-keys", 18, 18, nil))
		}
	}
	nValid := len(reqs)

	// ---- labelled mutations, one per rule
	mut := func(label string, from reqCase, f func(m M)) {
		var m M
		_ = json.Unmarshal(from.bytes, &m)
		f(m)
		reqs = append(reqs, reqCase{"mutated/" + from.typ + "/" + label, from.typ, from.key, from.kind, m, ops.Bytes(m)})
	}
	find := func(label string) reqCase {
		for _, rc := range reqs {
			if rc.label == label {
				return rc
			}
		}
		panic(label)
	}
	resign := func(m M, k *keys.Key, header []byte, f func(payload M)) {
		parts := strings.Split(m["signedData"].(string), ".")
		var payload M
		pb, _ := b64dec(parts[1])
		_ = json.Unmarshal(pb, &payload)
		f(payload)
		if header == nil {
			header = k.Header()
		}
		m["signedData"] = k.SignCompact(header, ops.Canon(payload))
	}
	for _, typ := range types {
		k := keys.New("P-256", 3)
		v := find(fmt.Sprintf("valid/%s/P-256/replace", typ))
		mut("unknown-type", v, func(m M) { m["type"] = "other" })
		mut("missing-type", v, func(m M) { delete(m, "type") })
		mut("type-not-string", v, func(m M) { m["type"] = 5 })
		if typ == "create" {
			mut("missing-suffix-data", v, func(m M) { delete(m, "suffixData") })
			mut("recovery-commitment-not-multihash", v, func(m M) { m["suffixData"].(M)["recoveryCommitment"] = "abc" })
			mut("recovery-commitment-sha3", v, func(m M) { m["suffixData"].(M)["recoveryCommitment"] = "FiB" + strings.Repeat("A", 43) })
			mut("recovery-commitment-bytes-appended", v, func(m M) {
				m["suffixData"].(M)["recoveryCommitment"] = appended(m["suffixData"].(M)["recoveryCommitment"])
			})
			mut("delta-hash-bytes-appended", v, func(m M) { m["suffixData"].(M)["deltaHash"] = appended(m["suffixData"].(M)["deltaHash"]) })
			mut("delta-hash-missing", v, func(m M) { delete(m["suffixData"].(M), "deltaHash") })
			mut("delta-hash-of-other-delta", v, func(m M) { m["suffixData"].(M)["deltaHash"] = ops.HashOf(M{"x": 1}, 18) })
			mut("update-equals-recovery-commitment", v, func(m M) {
				m["delta"].(M)["updateCommitment"] = m["suffixData"].(M)["recoveryCommitment"]
				m["suffixData"].(M)["deltaHash"] = ops.HashOf(m["delta"], 18)
			})
		} else {
			mut("missing-suffix", v, func(m M) { delete(m, "didSuffix") })
			mut("empty-suffix", v, func(m M) { m["didSuffix"] = "" })
			mut("missing-signed-data", v, func(m M) { delete(m, "signedData") })
			mut("missing-reveal", v, func(m M) { delete(m, "revealValue") })
			mut("reveal-of-other-key", v, func(m M) { m["revealValue"] = ops.Reveal(keys.New("P-256", 4), 18) })
			mut("reveal-not-multihash", v, func(m M) { m["revealValue"] = "zz" })
			mut("alg-not-allowed", v, func(m M) { resign(m, k, []byte(`{"alg":"HS256"}`), func(M) {}) })
			mut("alg-empty", v, func(m M) { resign(m, k, []byte(`{"alg":""}`), func(M) {}) })
			mut("alg-missing", v, func(m M) { resign(m, k, []byte(`{"kid":"x"}`), func(M) {}) })
			mut("kid-header-ok", v, func(m M) { resign(m, k, []byte(`{"alg":"ES256","kid":"x"}`), func(M) {}) })
			for _, h := range []string{"typ", "cty", "crit", "jku", "x5u", "b64"} {
				h := h
				mut("extra-header-"+h, v, func(m M) { resign(m, k, []byte(fmt.Sprintf(`{"alg":"ES256",%q:"v"}`, h)), func(M) {}) })
				// ... with values of the other JSON types: a member that is present is present, whatever its value
				for vi, hv := range []string{`null`, `""`, `0`, `false`, `[]`, `{}`} {
					hv := hv
					mut(fmt.Sprintf("extra-header-%s-value-%d", h, vi), v, func(m M) { resign(m, k, []byte(fmt.Sprintf(`{"alg":"ES256",%q:%s}`, h, hv)), func(M) {}) })
				}
			}
			mut("extra-header-unregistered-null", v, func(m M) { resign(m, k, []byte(`{"alg":"ES256","other":null}`), func(M) {}) })
			mut("kid-header-null", v, func(m M) { resign(m, k, []byte(`{"alg":"ES256","kid":null}`), func(M) {}) })
			keyName := "recoveryKey"
			if typ == "update" {
				keyName = "updateKey"
			}
			mut("key-missing", v, func(m M) { resign(m, k, nil, func(p M) { delete(p, keyName) }) })
			mut("key-without-kty", v, func(m M) { resign(m, k, nil, func(p M) { delete(p[keyName].(M), "kty") }) })
			mut("key-without-crv", v, func(m M) { resign(m, k, nil, func(p M) { delete(p[keyName].(M), "crv") }) })
			mut("key-without-x", v, func(m M) { resign(m, k, nil, func(p M) { delete(p[keyName].(M), "x") }) })
			// a well-formed RSA key: it has no curve at all, so it is never on the list of allowed curves (the reveal value is the
			// one the library itself computes for this JWK, so that no other rule refuses the request first)
			mut("key-is-rsa", v, func(m M) {
				rsa := &libjws.JWK{Kty: "RSA", N: strings.Repeat("u7", 171), E: "AQAB"}
				resign(m, k, nil, func(p M) { p[keyName] = M{"kty": "RSA", "n": rsa.N, "e": rsa.E} })
				if rv, err := commitment.GetRevealValue(rsa, 18); err == nil {
					m["revealValue"] = rv
				}
			})
			mut("nonce-wrong-size", v, func(m M) {
				resign(m, k, nil, func(p M) { p[keyName].(M)["nonce"] = "AAAA" })
				m["revealValue"] = ops.Reveal(k.WithNonce("AAAA"), 18)
			})
			mut("nonce-not-base64url", v, func(m M) {
				resign(m, k, nil, func(p M) { p[keyName].(M)["nonce"] = "++++++++++++++++++++++" })
				m["revealValue"] = ops.Reveal(k.WithNonce("++++++++++++++++++++++"), 18)
			})
			mut("compact-two-segments", v, func(m M) { s := m["signedData"].(string); m["signedData"] = s[:strings.LastIndex(s, ".")] })
			mut("json-serialization", v, func(m M) { m["signedData"] = `{"payload":"x"}` })
		}
		if typ == "deactivate" {
			mut("signed-suffix-differs", v, func(m M) { resign(m, k, nil, func(p M) { p["didSuffix"] = "EiOther" }) })
			mut("request-suffix-differs", v, func(m M) { m["didSuffix"] = "EiOther" })
			continue
		}
		rebind := func(m M) {
			if typ == "create" {
				m["suffixData"].(M)["deltaHash"] = ops.HashOf(m["delta"], 18)
			} else {
				resign(m, k, nil, func(p M) { p["deltaHash"] = ops.HashOf(m["delta"], 18) })
			}
		}
		mut("delta-missing", v, func(m M) { delete(m, "delta") })
		mut("delta-empty-patches", v, func(m M) { m["delta"].(M)["patches"] = []any{}; rebind(m) })
		mut("delta-no-patches-member", v, func(m M) { delete(m["delta"].(M), "patches"); rebind(m) })
		mut("delta-unknown-action", v, func(m M) { m["delta"].(M)["patches"] = []any{M{"action": "frobnicate", "x": 1.0}}; rebind(m) })
		mut("delta-invalid-patch", v, func(m M) {
			m["delta"].(M)["patches"] = []any{ops.ParseJSON(patchKinds["add-public-keys"]), M{"action": "remove-public-keys", "ids": []any{"bad id"}}}
			rebind(m)
		})
		mut("delta-invalid-patch-before-valid-ones", v, func(m M) {
			m["delta"].(M)["patches"] = []any{M{"action": "remove-public-keys", "ids": []any{"bad id"}}, ops.ParseJSON(patchKinds["add-public-keys"]), ops.ParseJSON(patchKinds["add-services"])}
			rebind(m)
		})
		mut("delta-invalid-patch-between-valid-ones", v, func(m M) {
			m["delta"].(M)["patches"] = []any{ops.ParseJSON(patchKinds["add-public-keys"]), M{"action": "add-services", "services": []any{M{"id": "s", "type": strings.Repeat("t", 31), "serviceEndpoint": "https://x.example/"}}}, ops.ParseJSON(patchKinds["add-services"])}
			rebind(m)
		})
		mut("delta-second-patch-disabled-kind", v, func(m M) {
			m["delta"].(M)["patches"] = []any{ops.ParseJSON(patchKinds["add-public-keys"]), ops.ParseJSON(patchKinds["remove-also-known-as"])}
			rebind(m)
		})
		mut("update-commitment-not-multihash", v, func(m M) { m["delta"].(M)["updateCommitment"] = "abc"; rebind(m) })
		mut("update-commitment-missing", v, func(m M) { delete(m["delta"].(M), "updateCommitment"); rebind(m) })
		// a well-formed multihash of a configured algorithm with four more bytes behind the digest is not a multihash
		mut("update-commitment-bytes-appended", v, func(m M) {
			m["delta"].(M)["updateCommitment"] = appended(m["delta"].(M)["updateCommitment"])
			rebind(m)
		})
		if typ != "create" {
			mut("signed-delta-hash-not-multihash", v, func(m M) { resign(m, k, nil, func(p M) { p["deltaHash"] = "abc" }) })
			mut("signed-delta-hash-bytes-appended", v, func(m M) { resign(m, k, nil, func(p M) { p["deltaHash"] = appended(p["deltaHash"]) }) })
			mut("reveal-value-bytes-appended", v, func(m M) { m["revealValue"] = appended(m["revealValue"]) })
			mut("update-commitment-of-signing-key", v, func(m M) { m["delta"].(M)["updateCommitment"] = ops.Commitment(k, 18); rebind(m) })
			mut("update-commitment-of-signing-key-sha512", v, func(m M) { m["delta"].(M)["updateCommitment"] = ops.Commitment(k, 19); rebind(m) })
		}
		if typ == "deactivate" {
			// the signed data may carry a reveal value of its own (the model has the member): the rule is about the request's
			otherKey := keys.New("P-256", 77)
			mut("reveal-of-other-key-while-signed-data-names-the-right-one", v, func(m M) {
				resign(m, k, nil, func(p M) { p["revealValue"] = ops.Reveal(k, 18) })
				m["revealValue"] = ops.Reveal(otherKey, 18)
			})
			mut("signed-data-names-the-reveal-value-of-another-key", v, func(m M) {
				resign(m, k, nil, func(p M) { p["revealValue"] = ops.Reveal(otherKey, 18) })
			})
			mut("signed-data-names-the-reveal-value-under-sha512", v, func(m M) {
				resign(m, k, nil, func(p M) { p["revealValue"] = ops.Reveal(k, 19) })
			})
			mut("signed-data-names-no-reveal-value", v, func(m M) { resign(m, k, nil, func(p M) { delete(p, "revealValue") }) })
		}
		if typ == "update" || typ == "recover" {
			// the same request signed by the key with a nonce (another JWK, another commitment): valid as it is; committing again to
			// that JWK is key re-use, committing to the key without the nonce (or with another nonce) is not
			kn, kn2 := k.WithNonce("AQIDBAUGBwgJCgsMDQ4PEA"), k.WithNonce("EA8ODQwLCgkIBwYFBAMCAQ")
			keyMember := map[string]string{"update": "updateKey", "recover": "recoveryKey"}[typ]
			withNonceKey := func(m M) {
				m["revealValue"] = ops.Reveal(kn, 18)
				resign(m, kn, nil, func(p M) { p[keyMember] = kn.JWKMap() })
			}
			mut("signing-key-with-nonce", v, withNonceKey)
			for name, c := range map[string]string{"with-its-nonce": ops.Commitment(kn, 18), "with-its-nonce-sha512": ops.Commitment(kn, 19), "without-its-nonce": ops.Commitment(k, 18), "with-another-nonce": ops.Commitment(kn2, 18)} {
				c := c
				mut("update-commitment-of-nonce-carrying-signing-key-"+name, v, func(m M) {
					withNonceKey(m)
					m["delta"].(M)["updateCommitment"] = c
					resign(m, kn, nil, func(p M) { p["deltaHash"] = ops.HashOf(m["delta"], 18) })
				})
				if typ == "recover" {
					mut("recovery-commitment-of-nonce-carrying-signing-key-"+name, v, func(m M) {
						withNonceKey(m)
						resign(m, kn, nil, func(p M) { p["recoveryCommitment"] = c })
					})
				}
			}
		}
		if typ == "recover" {
			mut("recovery-commitment-of-signing-key", v, func(m M) { resign(m, k, nil, func(p M) { p["recoveryCommitment"] = ops.Commitment(k, 18) }) })
			mut("recovery-commitment-of-signing-key-sha512", v, func(m M) { resign(m, k, nil, func(p M) { p["recoveryCommitment"] = ops.Commitment(k, 19) }) })
			mut("recovery-commitment-not-multihash", v, func(m M) { resign(m, k, nil, func(p M) { p["recoveryCommitment"] = "abc" }) })
			mut("recovery-commitment-bytes-appended", v, func(m M) {
				resign(m, k, nil, func(p M) { p["recoveryCommitment"] = appended(p["recoveryCommitment"]) })
			})
			mut("update-equals-recovery-commitment", v, func(m M) {
				resign(m, k, nil, func(p M) { p["recoveryCommitment"] = m["delta"].(M)["updateCommitment"] })
			})
		}
	}
	r.Extra["valid_requests"] = nValid
	r.Extra["mutated_requests"] = len(reqs) - nValid

	// ---- configurations for one request
	configsFor := func(rc reqCase) []cfgCase {
		cs := []cfgCase{{"baseline", base}}
		add := func(name string, f func(p *protocol.Protocol)) {
			p := base
			p.MultihashAlgorithms = append([]uint{}, base.MultihashAlgorithms...)
			f(&p)
			cs = append(cs, cfgCase{name, p})
		}
		n := uint(len(rc.bytes))
		add("MaxOperationSize=len", func(p *protocol.Protocol) { p.MaxOperationSize = n })
		add("MaxOperationSize=len-1", func(p *protocol.Protocol) { p.MaxOperationSize = n - 1 })
		add("MaxOperationSize=len+1", func(p *protocol.Protocol) { p.MaxOperationSize = n + 1 })
		hl := uint(0)
		collectHashes(rc.req, func(h string) {
			if uint(len(h)) > hl {
				hl = uint(len(h))
			}
		})
		if hl > 0 {
			add("MaxOperationHashLength=max", func(p *protocol.Protocol) { p.MaxOperationHashLength = hl })
			add("MaxOperationHashLength=max-1", func(p *protocol.Protocol) { p.MaxOperationHashLength = hl - 1 })
		}
		if d, ok := rc.req["delta"].(M); ok {
			dl := uint(len(jcs.MustCanonGo(d)))
			add("MaxDeltaSize=size", func(p *protocol.Protocol) { p.MaxDeltaSize = dl })
			add("MaxDeltaSize=size-1", func(p *protocol.Protocol) { p.MaxDeltaSize = dl - 1 })
		}
		for _, nsz := range []uint64{15, 16, 17, 0} {
			nsz := nsz
			add(fmt.Sprintf("NonceSize=%d", nsz), func(p *protocol.Protocol) { p.NonceSize = nsz })
		}
		add("MultihashAlgorithms=[18]", func(p *protocol.Protocol) { p.MultihashAlgorithms = []uint{18} })
		add("MultihashAlgorithms=[19]", func(p *protocol.Protocol) { p.MultihashAlgorithms = []uint{19} })
		add("MultihashAlgorithms=[19,18]", func(p *protocol.Protocol) { p.MultihashAlgorithms = []uint{19, 18} })
		add("MultihashAlgorithms=[18,19,22]", func(p *protocol.Protocol) { p.MultihashAlgorithms = []uint{18, 19, 22} })
		if rc.key != nil {
			add("SignatureAlgorithms-without-used", func(p *protocol.Protocol) { p.SignatureAlgorithms = without(base.SignatureAlgorithms, rc.key.Alg()) })
			add("SignatureAlgorithms-only-used", func(p *protocol.Protocol) { p.SignatureAlgorithms = []string{rc.key.Alg()} })
			add("KeyAlgorithms-without-used", func(p *protocol.Protocol) { p.KeyAlgorithms = without(base.KeyAlgorithms, rc.key.JWK().Crv) })
			add("KeyAlgorithms-only-used", func(p *protocol.Protocol) { p.KeyAlgorithms = []string{rc.key.JWK().Crv} })
		}
		add("SignatureAlgorithms+extra", func(p *protocol.Protocol) {
			p.SignatureAlgorithms = append([]string{"XX"}, base.SignatureAlgorithms...)
		})
		add("KeyAlgorithms+extra", func(p *protocol.Protocol) { p.KeyAlgorithms = append([]string{"XX"}, base.KeyAlgorithms...) })
		add("Patches-without-used", func(p *protocol.Protocol) { p.Patches = without(base.Patches, rc.kind) })
		add("Patches-only-used", func(p *protocol.Protocol) { p.Patches = []string{rc.kind} })
		add("Patches-empty", func(p *protocol.Protocol) { p.Patches = nil })
		// every other numeric parameter: must not matter
		t := reflect.TypeOf(base)
		for i := 0; i < t.NumField(); i++ {
			f := t.Field(i)
			switch f.Name {
			case "MaxOperationSize", "MaxOperationHashLength", "MaxDeltaSize", "NonceSize":
				continue
			}
			if k := f.Type.Kind(); k == reflect.Uint || k == reflect.Uint64 {
				name := f.Name
				add(name+"=1", func(p *protocol.Protocol) { reflect.ValueOf(p).Elem().FieldByName(name).SetUint(1) })
			}
		}
		return cs
	}

	var histories atomic.Int64
	core.Parallel(len(reqs), func(i int) {
		rc := reqs[i]
		cfgs := []cfgCase{{"baseline", base}}
		if i < nValid || strings.Contains(rc.label, "sha512") || r.Thorough() {
			cfgs = configsFor(rc)
		}
		for _, cc := range cfgs {
			cc := cc
			want, ok := sidetree.Acceptable(toConfig(cc.p), rc.bytes)
			if i < nValid && cc.name == "baseline" && !ok {
				core.Engine("c07: valid request %s is not acceptable to the reference under the baseline", rc.label)
			}
			id := rc.label + "@" + cc.name
			judge := func(id string, op *operation.Operation, err error, history string) *core.Fail {
				det := M{"request": string(rc.bytes), "configuration": cc.name, "expected_acceptable": ok}
				if history != "" {
					det["calls_before_on_the_same_parser"] = history
				}
				if (err == nil) != ok {
					after := ""
					if history != "" {
						after = " (after " + history + " on the same parser)"
					}
					return &core.Fail{Key: id, What: fmt.Sprintf("request %s under %s%s: parser says %v, the protocol rules say acceptable=%v", rc.label, cc.name, after, err, ok), Detail: det}
				}
				if err != nil {
					if op != nil {
						return &core.Fail{Key: id, What: "refused request returned an operation", Detail: det}
					}
					return nil
				}
				if string(op.Type) != want.Type || op.UniqueSuffix != want.Suffix || op.ID != ns+":"+want.Suffix || !bytes.Equal(op.OperationRequest, rc.bytes) {
					return &core.Fail{Key: id, What: fmt.Sprintf("returned operation (type %s, suffix %s, id %s) differs from the request's (type %s, suffix %s)", op.Type, op.UniqueSuffix, op.ID, want.Type, want.Suffix), Detail: det}
				}
				if !jcs.Equal(norm(op.AnchorOrigin), norm(want.AnchorOrigin)) {
					return &core.Fail{Key: id, What: fmt.Sprintf("returned operation carries anchor origin %s, the request's is %s", core.J(op.AnchorOrigin), core.J(want.AnchorOrigin)), Detail: det}
				}
				return nil
			}
			r.Case(id, func() *core.Fail {
				op, err := operationparser.New(fresh(cc.p)).Parse(ns, rc.bytes)
				return judge(id, op, err, "")
			})
			r.Observe(id)
			// histories: a parser is a long-lived shared component, so the verdict on a request must not depend on the calls made
			// before on the same instance - the same request in batch mode (through each batch-mode entry point), or the neighbouring request
			prev := reqs[(i+len(reqs)-1)%len(reqs)]
			for hi, h := range []struct {
				name string
				f    func(p *operationparser.Parser)
			}{
				{"ParseOperation(batch) of the same request", func(p *operationparser.Parser) { _, _ = p.ParseOperation(ns, rc.bytes, true) }},
				{"GetRevealValue of the same request", func(p *operationparser.Parser) { _, _ = p.GetRevealValue(rc.bytes) }},
				{"GetCommitment of the same request", func(p *operationparser.Parser) { _, _ = p.GetCommitment(rc.bytes) }},
				{"Parse of the same request", func(p *operationparser.Parser) { _, _ = p.Parse(ns, rc.bytes) }},
				{"Parse of the previous request " + prev.label, func(p *operationparser.Parser) { _, _ = p.Parse(ns, prev.bytes) }},
				{"ParseOperation(batch) of the previous request " + prev.label, func(p *operationparser.Parser) { _, _ = p.ParseOperation(ns, prev.bytes, true) }},
			} {
				h := h
				hid := fmt.Sprintf("%s/after-%d", id, hi)
				r.Case(hid, func() *core.Fail {
					p := operationparser.New(fresh(cc.p))
					h.f(p)
					op, err := p.Parse(ns, rc.bytes)
					return judge(hid, op, err, h.name)
				})
			}
			histories.Add(6)
			// a valid request after each refused request (one per rule of the statement): whatever a refusal leaves behind in the parser
			// (or in the configuration it was built from) must not change the verdict on, or the report about, the next request
			if i < nValid {
				for mi := nValid; mi < len(reqs); mi++ {
					first := reqs[mi]
					hid := fmt.Sprintf("%s/after-refused-%d", id, mi-nValid)
					r.Case(hid, func() *core.Fail {
						cfg := fresh(cc.p)
						p := operationparser.New(cfg)
						_, _ = p.Parse(ns, first.bytes)
						op, err := p.Parse(ns, rc.bytes)
						if f := judge(hid, op, err, "Parse of "+first.label); f != nil {
							return f
						}
						// and a second parser built from the same configuration value
						op, err = operationparser.New(cfg).Parse(ns, rc.bytes)
						return judge(hid, op, err, "Parse of "+first.label+" on another parser built from the same configuration value")
					})
				}
				histories.Add(int64(len(reqs) - nValid))
			}
			if ok {
				r.Class("acceptable")
			} else {
				r.Class("not-acceptable")
			}
		}
	})
	r.Sample(M{"request_label": reqs[3].label, "request": string(reqs[3].bytes), "configuration": "MaxOperationSize=len-1"})
	r.Sample(M{"request_label": reqs[len(reqs)-1].label, "request": string(reqs[len(reqs)-1].bytes), "configuration": "baseline"})
	r.Extra["two_call_histories_on_one_parser"] = histories.Load()
	r.AddDistinct(histories.Load())
	r.Require("acceptable", 500)
	r.Require("not-acceptable", 300)
}

func norm(v any) any {
	b, _ := json.Marshal(v)
	p, _ := jcs.Parse(b)
	return p
}

func b64dec(s string) ([]byte, error) { return base64Raw.DecodeString(s) }

// collectHashes visits every multihash-valued member of a request (including those in the signed payload).
func collectHashes(m M, f func(string)) {
	for _, k := range []string{"revealValue"} {
		if s, ok := m[k].(string); ok {
			f(s)
		}
	}
	if sd, ok := m["suffixData"].(M); ok {
		for _, k := range []string{"deltaHash", "recoveryCommitment"} {
			if s, ok := sd[k].(string); ok {
				f(s)
			}
		}
	}
	if d, ok := m["delta"].(M); ok {
		if s, ok := d["updateCommitment"].(string); ok {
			f(s)
		}
	}
	if s, ok := m["signedData"].(string); ok {
		parts := strings.Split(s, ".")
		if len(parts) == 3 {
			pb, _ := b64dec(parts[1])
			var p M
			if json.Unmarshal(pb, &p) == nil {
				for _, k := range []string{"deltaHash", "recoveryCommitment"} {
					if s, ok := p[k].(string); ok {
						f(s)
					}
				}
			}
		}
	}
}

// appended returns the multihash text with four bytes appended behind the digest (not a multihash any more).
func appended(h any) string {
	s, _ := h.(string)
	raw, err := base64.RawURLEncoding.DecodeString(s)
	if err != nil || len(raw) == 0 {
		core.Engine("appended: %q is not a multihash text", s)
	}
	return base64.RawURLEncoding.EncodeToString(append(raw, 0xde, 0xad, 0xbe, 0xef))
}
