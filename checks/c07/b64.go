package c07

import "encoding/base64"

var base64Raw = base64.RawURLEncoding
