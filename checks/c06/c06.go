// Package c06: model hashes are content addresses.
package c06

import (
	"encoding/base64"
	"fmt"
	"strings"

	"verif/engine/core"
	"verif/gen/vals"
	"verif/ref/jcs"
	"verif/ref/mh"

	"github.com/trustbloc/sidetree-go/pkg/docutil"
	"github.com/trustbloc/sidetree-go/pkg/hashing"
)

type val struct {
	text   string
	parsed any
	canon  []byte
	goVal  any
}

func Run(r *core.Run) {
	r.Rule = "~400 JSON texts (trees depth<=2, strings over boundary code points, boundary numbers, re-serializations) as []byte and as Go values; " +
		"all ordered pairs x {sha2-256, sha2-512}: validate(v, hash(w)) succeeds <=> v == w; every code 0..0x120 + table entries; every subset of {17,18,19,22} in every order and with repeated entries; " +
		"malformed encodings: every position x 7 foreign characters, length field +-1, digest truncated at every length, appended bytes, empty, unknown/unsupported code; " +
		"distinct = distinct (value pair class, algorithm, verdict) and distinct malformed strings; non-trivial = pairs of different texts"
	r.Assumptions = []string{"reference multihash and JCS (ref/mh, ref/jcs) are correct", "JSON value equality decided on encoding/json-decoded values (numbers as doubles)"}
	vals.Thorough = r.Thorough()
	set := vals.Set()
	vs := make([]val, len(set))
	for i, s := range set {
		p, err := jcs.Parse([]byte(s.Text))
		if err != nil {
			core.Engine("c06: bad generated value %q: %v", s.Text, err)
		}
		c, _ := jcs.Canon(p)
		vs[i] = val{text: s.Text, parsed: p, canon: c, goVal: p}
	}
	r.Extra["values"] = len(vs)
	codes := []uint{18, 19}

	// (i) calculation agrees with the reference, bytes and Go value path
	hashes := make([][2]string, len(vs))
	for i, v := range vs {
		for ci, code := range codes {
			want := mh.MustHash(uint64(code), v.canon)
			hashes[i][ci] = want
			i, v, code := i, v, code
			id := fmt.Sprintf("calc/%d/%d", code, i)
			r.Case(id, func() *core.Fail {
				got, err := hashing.CalculateModelMultihash([]byte(v.text), code)
				got2, err2 := hashing.CalculateModelMultihash(v.goVal, code)
				if err != nil || err2 != nil || got != want || got2 != want {
					return &core.Fail{Key: id, What: fmt.Sprintf("model multihash of %s with code %d: bytes path %q (%v), value path %q (%v), expected %q", v.text, code, got, err, got2, err2, want),
						Detail: map[string]any{"value": v.text, "code": code}}
				}
				idv, err := docutil.CalculateID("did:ns", []byte(v.text), code)
				if err != nil || idv != "did:ns:"+want {
					return &core.Fail{Key: id, What: fmt.Sprintf("CalculateID gave %q (%v), expected did:ns:%s", idv, err, want), Detail: map[string]any{"value": v.text}}
				}
				return nil
			})
			r.Observe("calc", want)
		}
	}
	// wide values (content of any size is addressed by its hash): 9999 / 10001 strings, members and numbers at one level, as text,
	// in a second member order / spacing, and as a Go value; the hash of one form validates the other
	for _, n := range []int{9999, 10001} {
		var strsA, mem, memRev []string
		for k := 0; k < n; k++ {
			strsA = append(strsA, fmt.Sprintf(`"key-%d"`, k))
			mem = append(mem, fmt.Sprintf(`"m%06d":"v%d"`, k, k))
		}
		for k := n - 1; k >= 0; k-- {
			memRev = append(memRev, mem[k])
		}
		for wi, pair := range [][2]string{{`{"ids":[` + strings.Join(strsA, ",") + `]}`, `{ "ids" : [` + strings.Join(strsA, " , ") + `] }`},
			{"{" + strings.Join(mem, ",") + "}", "{" + strings.Join(memRev, ",") + "}"}} {
			pair := pair
			for _, code := range codes {
				code := code
				id := fmt.Sprintf("calc-wide/%d/%d/%d", n, wi, code)
				r.Case(id, func() *core.Fail {
					p, err := jcs.Parse([]byte(pair[0]))
					if err != nil {
						core.Engine("c06: bad wide value: %v", err)
					}
					canon, _ := jcs.Canon(p)
					want := mh.MustHash(uint64(code), canon)
					det := map[string]any{"value": pair[0][:100] + " ...", "entries": n, "code": code}
					for fi, form := range []any{[]byte(pair[0]), []byte(pair[1]), p} {
						got, err := hashing.CalculateModelMultihash(form, code)
						if err != nil || got != want {
							return &core.Fail{Key: id, What: fmt.Sprintf("model multihash of a value with %d entries (form %d): %q (%v), expected %q", n, fi, got, err, want), Detail: det}
						}
						if err := hashing.IsValidModelMultihash(form, want); err != nil {
							return &core.Fail{Key: id, What: fmt.Sprintf("the hash of a value with %d entries does not validate its form %d: %v", n, fi, err), Detail: det}
						}
					}
					return nil
				})
				r.Observe(id)
			}
		}
	}
	// unsupported codes
	for code := uint(0); code <= 0x120; code++ {
		if code == 18 || code == 19 {
			continue
		}
		code := code
		id := fmt.Sprintf("calc-unsupported/%d", code)
		r.Case(id, func() *core.Fail {
			got, err := hashing.CalculateModelMultihash([]byte(`{"a":1}`), code)
			if err == nil {
				return &core.Fail{Key: id, What: fmt.Sprintf("unsupported code %d produced hash %q", code, got), Detail: map[string]any{"code": code}}
			}
			return nil
		})
	}
	for _, code := range []uint{0xb220, 0x1012, 0x56, 0xd5, 0x1b, 0x22} {
		code := code
		id := fmt.Sprintf("calc-unsupported/%d", code)
		r.Case(id, func() *core.Fail {
			if got, err := hashing.CalculateModelMultihash([]byte(`{"a":1}`), code); err == nil {
				return &core.Fail{Key: id, What: fmt.Sprintf("unsupported code %d produced hash %q", code, got), Detail: map[string]any{"code": code}}
			}
			return nil
		})
	}

	// (ii) all ordered pairs
	core.Parallel(len(vs), func(i int) {
		v := vs[i]
		for j, w := range vs {
			eq := jcs.Equal(v.parsed, w.parsed)
			for ci := range codes {
				h := hashes[j][ci]
				check := func(model any) error { return hashing.IsValidModelMultihash(model, h) }
				e1, e2 := check([]byte(v.text)), check(v.goVal)
				if (e1 == nil) != eq || (e2 == nil) != eq {
					id := fmt.Sprintf("pair/%d/%d/%d", i, j, codes[ci])
					r.Case(id, func() *core.Fail {
						e1, e2 := check([]byte(v.text)), check(v.goVal)
						if (e1 == nil) == eq && (e2 == nil) == eq {
							return nil
						}
						return &core.Fail{Key: id, What: fmt.Sprintf("validate(%s, hash(%s)): bytes path %v, value path %v, values equal = %v", v.text, w.text, e1, e2, eq),
							Detail: map[string]any{"value": v.text, "hashed_value": w.text, "hash": h, "equal": eq}}
					})
				} else {
					r.Eval(1)
				}
				if eq && i != j {
					r.Class("equal-different-text")
				}
				if !eq {
					r.Class("unequal")
				}
			}
			if i != j {
				r.Observe("pair", fmt.Sprint(set[i].Group, set[j].Group, eq))
			}
		}
	})
	r.Sample(map[string]any{"kind": "pair", "value": vs[40].text, "hashed_value": vs[41].text, "equal": jcs.Equal(vs[40].parsed, vs[41].parsed), "hash": hashes[41][0]})

	// (ii-b) a Go string handed over as the model is a JSON value of its own (a string): it never validates against the hash of the
	// object or array whose text it holds, and where it hashes at all it hashes as the string
	for i, v := range vs {
		if i%5 != 0 {
			continue
		}
		v := v
		text := string(v.canon)
		for ci, code := range codes {
			code := code
			id := fmt.Sprintf("string-model/%d/%d", i, code)
			objHash := hashes[i][ci]
			r.Case(id, func() *core.Fail {
				det := map[string]any{"string_model": text, "code": code}
				if err := hashing.IsValidModelMultihash(text, objHash); err == nil {
					return &core.Fail{Key: "string-model-validates-as-the-document-it-spells", What: fmt.Sprintf("the string %q validates against the hash of the JSON value whose text it holds", text), Detail: det}
				}
				if h, err := hashing.CalculateModelMultihash(text, code); err == nil && h == objHash {
					return &core.Fail{Key: "string-model-hashes-as-the-document-it-spells", What: fmt.Sprintf("the string %q hashes to the hash of the JSON value whose text it holds", text), Detail: det}
				}
				return nil
			})
		}
	}
	r.Class("string-models")
	// (iii) prefix agreement
	subsets := [][]uint{}
	all := []uint{17, 18, 19, 22}
	for m := 0; m < 16; m++ {
		var s []uint
		for b := 0; b < 4; b++ {
			if m&(1<<b) != 0 {
				s = append(s, all[b])
			}
		}
		subsets = append(subsets, s)
	}
	// ... in every order (a protocol lists its algorithms in order of preference, not of code), and with repeated entries
	var arrange func(prefix []uint, rest []uint)
	arrange = func(prefix []uint, rest []uint) {
		if len(prefix) > 1 {
			subsets = append(subsets, append([]uint{}, prefix...))
		}
		for i, x := range rest {
			arrange(append(append([]uint{}, prefix...), x), append(append([]uint{}, rest[:i]...), rest[i+1:]...))
		}
	}
	arrange(nil, all)
	subsets = append(subsets, []uint{18, 18}, []uint{19, 18, 19}, []uint{22, 22, 17, 17}, []uint{19, 19, 18})
	sha1 := mh.Enc(mh.Raw(17, make([]byte, 20)))
	blake := mh.Enc(mh.Raw(22, make([]byte, 64))) // sha3-256 code 0x16
	probes := []struct {
		h    string
		code uint64
	}{{hashes[3][0], 18}, {hashes[3][1], 19}, {hashes[77][0], 18}, {hashes[77][1], 19}, {sha1, 17}, {blake, 22}}
	for pi, p := range probes {
		p := p
		id := fmt.Sprintf("prefix/%d", pi)
		r.Case(id, func() *core.Fail {
			c, err := hashing.GetMultihashCode(p.h)
			if err != nil || c != p.code {
				return &core.Fail{Key: id, What: fmt.Sprintf("GetMultihashCode(%s) = %d (%v), prefix says %d", p.h, c, err, p.code), Detail: map[string]any{"hash": p.h}}
			}
			for _, s := range subsets {
				want := false
				for _, x := range s {
					if uint64(x) == p.code {
						want = true
					}
				}
				if got := hashing.IsComputedUsingMultihashAlgorithms(p.h, s); got != want {
					return &core.Fail{Key: id, What: fmt.Sprintf("IsComputedUsingMultihashAlgorithms(%s, %v) = %v, prefix says %d", p.h, s, got, p.code), Detail: map[string]any{"hash": p.h, "codes": s}}
				}
			}
			if p.code != 18 && p.code != 19 {
				// well-formed but unsupported: validation must fail
				if err := hashing.IsValidModelMultihash([]byte(`{}`), p.h); err == nil {
					return &core.Fail{Key: id, What: "validation against a hash of an unsupported algorithm succeeded", Detail: map[string]any{"hash": p.h}}
				}
			}
			return nil
		})
		r.Observe("prefix", p.h)
	}

	// (iv) malformed encodings
	type bad struct{ s, why string }
	var bads []bad
	for ci := range codes {
		h := hashes[5][ci]
		for pos := 0; pos < len(h); pos++ {
			for _, ch := range []string{"+", "/", "=", ".", " ", "*", "\xc3\xa9"} {
				bads = append(bads, bad{h[:pos] + ch + h[pos+1:], fmt.Sprintf("character %d replaced by %q", pos, ch)})
			}
		}
		raw, _ := base64.RawURLEncoding.DecodeString(h)
		for _, d := range []int{-1, 1} {
			m := append([]byte{}, raw...)
			m[1] = byte(int(m[1]) + d)
			bads = append(bads, bad{mh.Enc(m), fmt.Sprintf("length field %+d", d)})
		}
		for l := 0; l < len(raw); l++ {
			if l == len(raw) {
				continue
			}
			bads = append(bads, bad{mh.Enc(raw[:l]), fmt.Sprintf("truncated to %d bytes", l)})
		}
		bads = append(bads, bad{mh.Enc(append(append([]byte{}, raw...), 0)), "one byte appended"})
		bads = append(bads, bad{mh.Enc(append(append([]byte{}, raw...), raw...)), "doubled"})
		bads = append(bads, bad{h + "=", "padded"}, bad{h + "==", "padded twice"}, bad{"=" + h, "leading pad"})
	}
	bads = append(bads, bad{"", "empty string"}, bad{"A", "one character"}, bad{"AA", "one byte"}, bad{"!!!!", "not base64"},
		bad{mh.Enc([]byte{0xff, 0xff, 0xff}), "non-terminated code varint"}, bad{mh.Enc([]byte{0x12, 0xff, 0xff}), "non-terminated length varint"})
	for bi, b := range bads {
		b := b
		id := fmt.Sprintf("malformed/%d", bi)
		r.Case(id, func() *core.Fail {
			det := map[string]any{"hash": b.s, "why": b.why}
			if c, err := hashing.GetMultihashCode(b.s); err == nil {
				return &core.Fail{Key: id, What: fmt.Sprintf("malformed multihash (%s) %q: GetMultihashCode reports code %d", b.why, b.s, c), Detail: det}
			}
			if hashing.IsComputedUsingMultihashAlgorithms(b.s, []uint{17, 18, 19, 22}) {
				return &core.Fail{Key: id, What: fmt.Sprintf("malformed multihash (%s) %q passes the algorithm test", b.why, b.s), Detail: det}
			}
			if err := hashing.IsValidModelMultihash(vs[5].goVal, b.s); err == nil {
				return &core.Fail{Key: id, What: fmt.Sprintf("malformed multihash (%s) %q validates", b.why, b.s), Detail: det}
			}
			if hashing.IsSupportedMultihash(b.s) {
				return &core.Fail{Key: id, What: fmt.Sprintf("malformed multihash (%s) %q reported as supported", b.why, b.s), Detail: det}
			}
			return nil
		})
		r.Observe("malformed", b.s)
		r.Class("malformed")
	}
	// (v) right digest under a wrong prefix: the digest of the value computed with one algorithm,
	// wrapped with the code of another, must never validate
	for i, v := range vs {
		if i%7 != 0 {
			continue
		}
		d256, _ := mh.Digest(18, v.canon)
		d512, _ := mh.Digest(19, v.canon)
		for wi, w := range []string{mh.Enc(mh.Raw(17, d256)), mh.Enc(mh.Raw(19, d256)), mh.Enc(mh.Raw(22, d256)), mh.Enc(mh.Raw(0x7777, d256)), mh.Enc(mh.Raw(0, d256)),
			mh.Enc(mh.Raw(18, d512)), mh.Enc(mh.Raw(17, d512)), mh.Enc(mh.Raw(20, d512)), mh.Enc(mh.Raw(18, d256[:31])), mh.Enc(mh.Raw(18, d512[:32]))} {
			v, w := v, w
			id := fmt.Sprintf("wrong-prefix/%d/%d", i, wi)
			r.Case(id, func() *core.Fail {
				if err := hashing.IsValidModelMultihash([]byte(v.text), w); err == nil {
					return &core.Fail{Key: id, What: fmt.Sprintf("value %s validates against %q whose prefix does not name the algorithm that produced the digest", v.text, w),
						Detail: map[string]any{"value": v.text, "hash": w}}
				}
				return nil
			})
			r.Class("wrong-prefix")
		}
	}
	// (vi) other spellings of the right hash: the hash of a value is one string; a string that merely decodes to the same
	// bytes (unused low bits of the last character set, line breaks the decoder skips) is not that hash
	const b64alpha = "ABCDEFGHIJKLMNOPQRSTUVWXYZabcdefghijklmnopqrstuvwxyz0123456789-_"
	for i, v := range vs {
		if i%11 != 0 {
			continue
		}
		for ci := range codes {
			h := hashes[i][ci]
			var aliases []string
			for _, ch := range b64alpha {
				if a := h[:len(h)-1] + string(ch); a != h {
					aliases = append(aliases, a)
				}
			}
			aliases = append(aliases, h+"\n", h+"\r\n", h[:10]+"\n"+h[10:], "\n"+h, h[:len(h)-2]+"\r"+h[len(h)-2:])
			for ai, a := range aliases {
				v, a := v, a
				id := fmt.Sprintf("alias/%d/%d/%d", i, codes[ci], ai)
				r.Case(id, func() *core.Fail {
					if err := hashing.IsValidModelMultihash([]byte(v.text), a); err == nil {
						return &core.Fail{Key: id, What: fmt.Sprintf("value %s validates against %q, which is not its hash %q (another spelling decoding to the same bytes)", v.text, a, h),
							Detail: map[string]any{"value": v.text, "hash": h, "alias": a}}
					}
					return nil
				})
				r.Class("alias")
			}
		}
	}
	// unknown-to-the-table code with consistent structure: observed, not judged for GetMultihashCode;
	// it must still never validate nor pass the algorithm test for supported algorithms.
	unk := mh.Enc(mh.Raw(0x7777, make([]byte, 32)))
	r.Case("unknown-code", func() *core.Fail {
		if hashing.IsComputedUsingMultihashAlgorithms(unk, []uint{18, 19}) || hashing.IsValidModelMultihash([]byte(`{}`), unk) == nil {
			return &core.Fail{Key: "unknown-code", What: "hash with unknown algorithm code accepted", Detail: map[string]any{"hash": unk}}
		}
		return nil
	})
	c, err := hashing.GetMultihashCode(unk)
	r.Extra["observed_not_judged"] = fmt.Sprintf("GetMultihashCode on structurally consistent multihash with table-unknown code 0x7777: code=%d err=%v", c, err)
	r.Sample(map[string]any{"kind": "malformed", "hash": bads[3].s, "why": bads[3].why})
	r.Require("equal-different-text", 50)
	r.Require("unequal", 1000)
	r.Require("malformed", 500)
	r.Require("alias", 500)
}
