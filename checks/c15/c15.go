// Package c15: JWS signatures verify iff produced by the matching key over the same bytes.
package c15

import (
	"bytes"
	"crypto/ecdsa"
	"crypto/sha256"
	"crypto/sha512"
	"encoding/base64"
	"encoding/json"
	"fmt"
	"math/big"
	"strings"

	"verif/engine/core"
	"verif/gen/keys"
	rjws "verif/ref/jws"

	"github.com/trustbloc/sidetree-go/pkg/jws"
	"github.com/trustbloc/sidetree-go/pkg/jwsutil"
	"github.com/trustbloc/sidetree-go/pkg/util/ecsigner"
	"github.com/trustbloc/sidetree-go/pkg/util/edsigner"
	"github.com/trustbloc/sidetree-go/pkg/util/pubkey"
	"github.com/trustbloc/sidetree-go/pkg/util/signutil"
)

var enc = base64.RawURLEncoding

func signer(k *keys.Key) signutil.Signer {
	if k.Ed != nil {
		return edsigner.New(k.Ed, k.Alg(), "")
	}
	return ecsigner.New(k.EC, k.Alg(), "")
}

// leadingZeroKey returns the first derived key of the type with a coordinate starting with a zero byte.
func leadingZeroKey(t string) *keys.Key {
	for i := 0; i < 5000; i++ {
		k := keys.New(t, i)
		x, y := k.XY()
		if x[0] == 0 || (y != nil && y[0] == 0) {
			return k
		}
	}
	core.Engine("no leading-zero key found for %s", t)
	return nil
}

func jwkOf(m map[string]any) *jws.JWK {
	b, _ := json.Marshal(m)
	var j jws.JWK
	_ = json.Unmarshal(b, &j)
	return &j
}

type item struct {
	k       *keys.Key
	payload []byte
	compact string
	note    string
}

func Run(r *core.Run) {
	r.Rule = "keys: 3 per type x 5 types (one with a leading-zero coordinate); payloads {1 byte, JSON, 300 bytes, bytes >= 0x80}; signatures by the library's signers under a constant rand.Reader, plus searched signatures with short r, short s; " +
		"per JWS: own key, every other key, every byte x 3 masks (thorough: every bit) of decoded header / payload / signature, every character of the encoded form x 2 substitutions, segment surgery, signature length changes, unsupported key types; " +
		"oracle: independent verifier decides every mutated string; flips changing decoded header/payload content must be rejected; distinct = distinct (JWS, key) pairs judged; non-trivial = all"
	r.Assumptions = []string{"independent verifier ref/jws (crypto/ed25519, crypto/ecdsa, dcrd secp256k1)", "crypto/rand.Reader is replaced by a constant byte stream so that library signatures are reproducible"}
	var ks []*keys.Key
	for _, t := range keys.Types {
		ks = append(ks, keys.New(t, 0), keys.New(t, 1), leadingZeroKey(t))
	}
	payloads := [][]byte{{0x7b}, []byte(`{"deltaHash":"EiB","updateKey":{"kty":"EC"}}`), bytes.Repeat([]byte("0123456789abcdef"), 19)[:300], {0x80, 0xff, 0x00, 0xfe, 0xc3, 0x28}}
	var items []item
	for _, k := range ks {
		for pi, p := range payloads {
			keys.FixRand(byte(0x40 + pi))
			c, err := signutil.SignPayload(p, signer(k))
			if err != nil {
				r.Report("sign/"+k.String(), core.Fail{Key: "sign/" + k.String(), What: "library signer failed: " + err.Error()})
				continue
			}
			items = append(items, item{k, p, c, "regular"})
		}
	}
	// search for short r / short s / (P-521) per curve: signatures whose integer has a leading zero byte
	for _, t := range []string{"P-256", "secp256k1", "P-384", "P-521"} {
		k := keys.New(t, 1)
		w := keys.Width(t)
		found := map[string]bool{}
		tries := 0
	search:
		for c := 0; c < 256; c++ {
			for n := 0; n < 8; n++ {
				keys.FixRand(byte(c))
				p := []byte(fmt.Sprintf(`{"n":%d}`, n))
				cs, err := signutil.SignPayload(p, signer(k))
				tries++
				if err != nil {
					continue
				}
				sig, _ := enc.DecodeString(strings.Split(cs, ".")[2])
				if len(sig) != 2*w {
					r.Report("siglen/"+t, core.Fail{Key: "siglen/" + t, What: fmt.Sprintf("library signature for %s has %d bytes, expected %d", t, len(sig), 2*w), Detail: map[string]any{"jws": cs}})
					break search
				}
				kind := ""
				if sig[0] == 0 && (t != "P-521" || sig[1] == 0) {
					kind = "short-r"
				} else if sig[w] == 0 && (t != "P-521" || sig[w+1] == 0) {
					kind = "short-s"
				}
				if kind != "" && !found[kind] {
					found[kind] = true
					items = append(items, item{k, p, cs, kind})
					r.Class(kind)
				}
				if len(found) == 2 {
					break search
				}
			}
		}
		r.Extra["short_rs_search_tries_"+t] = tries
	}
	keys.FixRand(0x42)
	r.Extra["jws_under_test"] = len(items)

	// the alg label of a library signer is free text (the protocol lists algorithm names and curves independently, the verifier picks
	// the digest by the curve of the key): whatever the label, what the signer produces verifies under its key
	for _, t := range []string{"P-256", "P-384", "P-521", "secp256k1"} {
		for _, label := range []string{"ES256", "ES384", "ES512", "ES256K", "ES521", "alg"} {
			t, label := t, label
			id := "alg-label/" + t + "/" + label
			r.Case(id, func() *core.Fail {
				k := keys.New(t, 931)
				compact, err := signutil.SignPayload([]byte(`{"label":"`+label+`"}`), ecsigner.New(k.EC, label, "kid-1"))
				if err != nil {
					return &core.Fail{Key: id, What: "SignPayload failed: " + err.Error()}
				}
				own := k.JWKMap()
				det := map[string]any{"jws": compact, "jwk": own, "alg_label": label}
				if res, err := jwsutil.VerifyJWS(compact, jwkOf(own)); err != nil || string(res.Payload) != `{"label":"`+label+`"}` {
					return &core.Fail{Key: id, What: fmt.Sprintf("JWS made by a library signer for a %s key with the label %q does not verify under that key: %v", t, label, err), Detail: det}
				}
				if _, err := jwsutil.VerifyJWS(compact, jwkOf(keys.New(t, 932).JWKMap())); err == nil {
					return &core.Fail{Key: id, What: "JWS verifies under another key of the same curve", Detail: det}
				}
				return nil
			})
			r.Observe(id)
		}
	}
	// the public JWK as the library itself derives it from the key (pubkey.GetPublicKeyJWK), for ordinary keys and for keys one of
	// whose coordinates begins with one or two zero bytes: what the library's signer produces verifies under it
	{
		var lk []*keys.Key
		for _, t := range keys.Types {
			lk = append(lk, keys.New(t, 2), leadingZeroKey(t))
			if t != "Ed25519" {
				lk = append(lk, keys.WithTwoLeadingZeros(t, 0), keys.WithTwoLeadingZeros(t, 1), keys.WithBothLeadingZeros(t))
			}
		}
		for _, k := range lk {
			k := k
			id := "library-made-jwk/" + k.String()
			r.Case(id, func() *core.Fail {
				jwk, err := pubkey.GetPublicKeyJWK(k.Public())
				if err != nil {
					return &core.Fail{Key: id, What: "GetPublicKeyJWK failed for a supported key: " + err.Error(), Detail: map[string]any{"jwk": k.JWKMap()}}
				}
				payload := []byte(`{"made-by":"library"}`)
				compact, err := signutil.SignPayload(payload, signer(k))
				if err != nil {
					return &core.Fail{Key: id, What: "SignPayload failed: " + err.Error()}
				}
				det := map[string]any{"jws": compact, "library_jwk": jwk, "expected_jwk": k.JWKMap()}
				if res, err := jwsutil.VerifyJWS(compact, jwk); err != nil || string(res.Payload) != string(payload) {
					return &core.Fail{Key: id, What: fmt.Sprintf("JWS made by the library signer does not verify under the JWK the library derives from the same key: %v", err), Detail: det}
				}
				if _, err := jwsutil.VerifyJWS(compact, jwkOf(k.JWKMap())); err != nil {
					return &core.Fail{Key: id, What: "JWS made by the library signer does not verify under the key's JWK: " + err.Error(), Detail: det}
				}
				return nil
			})
			r.Observe(id)
			r.Class("library-made-jwk")
		}
	}
	// a "signature" that needs no key: r = s = Qx mod n verifies for the public point Q wherever the digest of the signing input
	// is taken to be empty; under every algorithm name of the five key types, unknown names and none
	for _, t := range []string{"secp256k1", "P-256", "P-384", "P-521"} {
		t := t
		k := keys.New(t, 3)
		n, w := keys.Curve(t).Params().N, keys.Width(t)
		qx := new(big.Int).Mod(k.EC.X, n).FillBytes(make([]byte, w))
		sig := append(append([]byte{}, qx...), qx...)
		for _, a := range []string{"EdDSA", "ES256", "ES256K", "ES384", "ES512", "none", "HS256", "RS256", ""} {
			a := a
			id := fmt.Sprintf("digest-free-signature/%s/alg-%s", t, a)
			r.Case(id, func() *core.Fail {
				input := enc.EncodeToString([]byte(fmt.Sprintf(`{"alg":%q}`, a))) + "." + enc.EncodeToString([]byte(`{"forged":true}`))
				compact := input + "." + enc.EncodeToString(sig)
				det := map[string]any{"jwk": k.JWKMap(), "jws": compact}
				if _, err := jwsutil.VerifyJWS(compact, jwkOf(k.JWKMap())); err == nil {
					return &core.Fail{Key: "digest-free-signature/" + t, What: fmt.Sprintf("a JWS whose signature is the key's own x coordinate written twice verifies under the header algorithm %q", a), Detail: det}
				}
				if err := jwsutil.VerifySignature(jwkOf(k.JWKMap()), sig, []byte(input)); err == nil {
					return &core.Fail{Key: "digest-free-signature/" + t, What: "a signature that is the key's own x coordinate written twice verifies", Detail: det}
				}
				return nil
			})
			r.Observe(id)
		}
	}
	// signature halves written as the residue plus the group order, where that still fits the width (always on P-521; on the other
	// curves for a small s, so the key is made to measure: d = (s*k - e) / r for a chosen nonce k and s): (r, s) verifies, the
	// respelled halves are other bytes and must not
	for _, t := range []string{"secp256k1", "P-256", "P-384", "P-521"} {
		t := t
		curve := keys.Curve(t)
		n, w := curve.Params().N, keys.Width(t)
		hdr := keys.New(t, 0).Header()
		input := enc.EncodeToString(hdr) + "." + enc.EncodeToString([]byte(`{"respelled":true}`))
		var dg []byte
		switch t {
		case "P-384":
			h := sha512.Sum384([]byte(input))
			dg = h[:]
		case "P-521":
			h := sha512.Sum512([]byte(input))
			dg = h[:]
		default:
			h := sha256.Sum256([]byte(input))
			dg = h[:]
		}
		e := new(big.Int).SetBytes(dg)
		if excess := len(dg)*8 - n.BitLen(); excess > 0 {
			e.Rsh(e, uint(excess))
		}
		k := big.NewInt(7)
		rx, _ := curve.ScalarBaseMult(k.Bytes())
		rr := new(big.Int).Mod(rx, n)
		s0 := big.NewInt(0x5eeded)
		d := new(big.Int).Mul(s0, k)
		d.Sub(d, e).Mul(d, new(big.Int).ModInverse(rr, n)).Mod(d, n)
		qx, qy := curve.ScalarBaseMult(d.Bytes())
		if !ecdsa.Verify(&ecdsa.PublicKey{Curve: curve, X: qx, Y: qy}, dg, rr, s0) {
			core.Engine("c15: made-to-measure key for %s does not verify its own signature", t)
		}
		jwk := map[string]any{"kty": "EC", "crv": t, "x": enc.EncodeToString(qx.FillBytes(make([]byte, w))), "y": enc.EncodeToString(qy.FillBytes(make([]byte, w)))}
		type variant struct {
			name string
			r, s *big.Int
			ok   bool
		}
		vs := []variant{{"as-made", rr, s0, true}, {"s-plus-n", rr, new(big.Int).Add(s0, n), false}, {"s-plus-2n", rr, new(big.Int).Add(s0, new(big.Int).Lsh(n, 1)), false},
			{"r-plus-n", new(big.Int).Add(rr, n), s0, false}, {"both-plus-n", new(big.Int).Add(rr, n), new(big.Int).Add(s0, n), false}, {"s-negated", rr, new(big.Int).Sub(n, s0), true}}
		for _, v := range vs {
			v := v
			if v.r.BitLen() > 8*w || v.s.BitLen() > 8*w {
				continue
			}
			sig := append(v.r.FillBytes(make([]byte, w)), v.s.FillBytes(make([]byte, w))...)
			compact := input + "." + enc.EncodeToString(sig)
			id := fmt.Sprintf("respelled-signature-halves/%s/%s", t, v.name)
			r.Case(id, func() *core.Fail {
				_, err := jwsutil.VerifyJWS(compact, jwkOf(jwk))
				err2 := jwsutil.VerifySignature(jwkOf(jwk), sig, []byte(input))
				if (err == nil) != v.ok || (err2 == nil) != v.ok {
					return &core.Fail{Key: "respelled-signature-halves/" + t + "/" + v.name, What: fmt.Sprintf("signature variant %s: VerifyJWS says %v, VerifySignature says %v, expected verifies=%v", v.name, err, err2, v.ok), Detail: map[string]any{"jwk": jwk, "jws": compact}}
				}
				return nil
			})
			r.Observe(id)
		}
		r.Class("respelled-signature-halves")
	}
	// a JWK that names a point (X, 0) - on none of the curves, of order two for the doubling formulas - and a signature made from
	// public values alone (r = x(k*G) mod n, s = e/k mod n, k = 1..16): nobody holds a key for it, so nothing verifies under it
	for _, t := range []string{"secp256k1", "P-256", "P-384", "P-521"} {
		t := t
		curve := keys.Curve(t)
		n, w := curve.Params().N, keys.Width(t)
		hashOf := func(b []byte) []byte {
			switch t {
			case "P-384":
				h := sha512.Sum384(b)
				return h[:]
			case "P-521":
				h := sha512.Sum512(b)
				return h[:]
			}
			h := sha256.Sum256(b)
			return h[:]
		}
		for xi, x := range []*big.Int{big.NewInt(1), big.NewInt(5), new(big.Int).Set(keys.New(t, 0).EC.X)} {
			jwk := map[string]any{"kty": "EC", "crv": t, "x": enc.EncodeToString(x.FillBytes(make([]byte, w))), "y": enc.EncodeToString(make([]byte, w))}
			payload := []byte(`{"forged":true}`)
			input := enc.EncodeToString(keys.New(t, 0).Header()) + "." + enc.EncodeToString(payload)
			dg := hashOf([]byte(input))
			e := new(big.Int).SetBytes(dg)
			if excess := len(dg)*8 - n.BitLen(); excess > 0 {
				e.Rsh(e, uint(excess))
			}
			for k := int64(1); k <= 16; k++ {
				rx, _ := curve.ScalarBaseMult(big.NewInt(k).Bytes())
				rr := new(big.Int).Mod(rx, n)
				ss := new(big.Int).Mul(e, new(big.Int).ModInverse(big.NewInt(k), n))
				ss.Mod(ss, n)
				if rr.Sign() == 0 || ss.Sign() == 0 {
					continue
				}
				sig := append(rr.FillBytes(make([]byte, w)), ss.FillBytes(make([]byte, w))...)
				compact := input + "." + enc.EncodeToString(sig)
				id := fmt.Sprintf("keyless-point/%s/x%d/k%d", t, xi, k)
				r.Case(id, func() *core.Fail {
					det := map[string]any{"jwk": jwk, "jws": compact}
					if _, err := jwsutil.VerifyJWS(compact, jwkOf(jwk)); err == nil {
						return &core.Fail{Key: "keyless-point/" + t, What: "a JWS verifies under a JWK that names a point which is not on the curve (nobody holds a key for it)", Detail: det}
					}
					if err := jwsutil.VerifySignature(jwkOf(jwk), sig, []byte(input)); err == nil {
						return &core.Fail{Key: "keyless-point/" + t, What: "a signature verifies under a JWK that names a point which is not on the curve", Detail: det}
					}
					return nil
				})
				r.Observe(id)
			}
		}
		r.Class("keyless-point")
	}
	// one signer, several signatures held at the same time: each JWS / signature made by the matching key over its own bytes must
	// still verify (library and independent verifier) after the same signer has signed other payloads
	for _, t := range keys.Types {
		t := t
		id := "one-signer-several-signatures/" + t
		r.Case(id, func() *core.Fail {
			k := keys.New(t, 930)
			sg := signer(k)
			own := k.JWKMap()
			payloads := [][]byte{[]byte(`{"n":1}`), []byte(`payload two, a little longer than the first`), []byte(`3`), []byte(`{"n":1}`)}
			var held []*jwsutil.JSONWebSignature
			var raw [][]byte
			for _, p := range payloads {
				j, err := jwsutil.NewJWS(sg.Headers(), nil, p, sg)
				if err != nil {
					return &core.Fail{Key: id, What: "NewJWS failed: " + err.Error()}
				}
				held = append(held, j)
				sig, err := sg.Sign(p)
				if err != nil {
					return &core.Fail{Key: id, What: "Sign failed: " + err.Error()}
				}
				raw = append(raw, sig)
			}
			for i, j := range held {
				c, err := j.SerializeCompact(false)
				if err != nil {
					return &core.Fail{Key: id, What: "SerializeCompact failed: " + err.Error()}
				}
				det := map[string]any{"jws": c, "jwk": own, "position": i}
				if res, err := jwsutil.VerifyJWS(c, jwkOf(own)); err != nil || !bytes.Equal(res.Payload, payloads[i]) {
					return &core.Fail{Key: id, What: fmt.Sprintf("JWS number %d made by one signer no longer verifies under its key after the signer signed other payloads: %v", i, err), Detail: det}
				}
				if _, ok := rjws.Verify(c, own); !ok {
					return &core.Fail{Key: id, What: fmt.Sprintf("JWS number %d made by one signer does not verify under the independent verifier after the signer signed other payloads", i), Detail: det}
				}
				if err := jwsutil.VerifySignature(jwkOf(own), raw[i], payloads[i]); err != nil {
					return &core.Fail{Key: id, What: fmt.Sprintf("signature number %d returned by Sign no longer verifies after later Sign calls on the same signer: %v", i, err), Detail: det}
				}
			}
			return nil
		})
		r.Observe(id)
	}

	type mutation struct {
		id      string
		compact string
		content bool // the mutation changes decoded header or payload content (must be rejected outright)
	}
	masks := []byte{0x01, 0x10, 0x80}
	if r.Thorough() {
		masks = []byte{1, 2, 4, 8, 16, 32, 64, 128}
	}
	const alpha = "ABCDEFGHIJKLMNOPQRSTUVWXYZabcdefghijklmnopqrstuvwxyz0123456789-_"
	core.Parallel(len(items), func(ii int) {
		it := items[ii]
		base := fmt.Sprintf("%s/p%d/%s", it.k, len(it.payload), it.note)
		own := it.k.JWKMap()
		// matching key: verifies and returns the payload
		r.Case(base+"/own-key", func() *core.Fail {
			got, err := jwsutil.VerifyJWS(it.compact, jwkOf(own))
			if err != nil {
				return &core.Fail{Key: base + "/own-key", What: "library-signed JWS does not verify under its own key: " + err.Error(), Detail: map[string]any{"jws": it.compact, "jwk": own}}
			}
			if !bytes.Equal(got.Payload, it.payload) {
				return &core.Fail{Key: base + "/own-key", What: "verified payload differs from the signed payload", Detail: map[string]any{"jws": it.compact}}
			}
			if _, ok := rjws.Verify(it.compact, own); !ok {
				return &core.Fail{Key: base + "/own-key", What: "library-signed JWS does not verify under the independent verifier", Detail: map[string]any{"jws": it.compact, "jwk": own}}
			}
			return nil
		})
		r.Observe(it.compact, "own")
		judge := func(id, compact string, jwk map[string]any, content bool) {
			r.Case(id, func() *core.Fail {
				_, want := rjws.Verify(compact, jwk)
				res, err := jwsutil.VerifyJWS(compact, jwkOf(jwk))
				got := err == nil && res != nil
				det := map[string]any{"jws": compact, "jwk": jwk, "original": it.compact}
				if content && got {
					return &core.Fail{Key: id, What: "JWS verifies although decoded header/payload content was changed", Detail: det}
				}
				if got != want {
					return &core.Fail{Key: id, What: fmt.Sprintf("library verdict %v (%v) differs from the independent verifier's %v", got, err, want), Detail: det}
				}
				return nil
			})
			r.Observe(compact, jwk["x"].(string))
		}
		// the mirror point (x, p-y): another valid key of the same curve with the same x
		if it.k.EC != nil {
			m := it.k.JWKMap()
			p := keys.Curve(it.k.Type).Params().P
			ny := new(big.Int).Sub(p, it.k.EC.Y).Bytes()
			pad := make([]byte, keys.Width(it.k.Type)-len(ny))
			m["y"] = enc.EncodeToString(append(pad, ny...))
			judge(base+"/mirror-point-key", it.compact, m, false)
			// and the genuine key again afterwards (a verdict must not depend on what was verified before)
			judge(base+"/own-key-after-mirror", it.compact, own, false)
		}
		// every other key
		for _, o := range ks {
			if o == it.k {
				continue
			}
			judge(base+"/other-key/"+o.String(), it.compact, o.JWKMap(), false)
		}
		// the signer's own public key named in the protected header (as publicKeyJwk, jwk): the key that decides is the one the
		// verifier was given, so under every other key of the type the JWS still fails
		for _, member := range []string{"publicKeyJwk", "jwk"} {
			hdr := map[string]any{"alg": it.k.Alg(), member: it.k.JWKMap()}
			hb, _ := json.Marshal(hdr)
			named := it.k.SignCompact(hb, it.payload)
			for _, o := range ks {
				if o == it.k || o.Type != it.k.Type {
					continue
				}
				judge(base+"/key-named-in-header-"+member+"/other-key/"+o.String(), named, o.JWKMap(), false)
				r.Class("key-named-in-header")
			}
		}
		seg := strings.Split(it.compact, ".")
		dec := make([][]byte, 3)
		for i := range seg {
			dec[i], _ = enc.DecodeString(seg[i])
		}
		names := []string{"header", "payload", "signature"}
		for si := 0; si < 3; si++ {
			for bi := range dec[si] {
				for _, mk := range masks {
					d := append([]byte{}, dec[si]...)
					d[bi] ^= mk
					s2 := append([]string{}, seg...)
					s2[si] = enc.EncodeToString(d)
					judge(fmt.Sprintf("%s/%s-byte-%d-%02x", base, names[si], bi, mk), strings.Join(s2, "."), own, si < 2)
				}
			}
		}
		// encoded-form character substitutions
		for ci := 0; ci < len(it.compact); ci++ {
			ch := it.compact[ci]
			subs := []byte{'='}
			if i := strings.IndexByte(alpha, ch); i >= 0 {
				subs = append(subs, alpha[(i+1)%64])
			} else {
				subs = append(subs, 'A')
			}
			for _, s := range subs {
				m := it.compact[:ci] + string(s) + it.compact[ci+1:]
				judge(fmt.Sprintf("%s/char-%d-%c", base, ci, s), m, own, false)
			}
		}
		// segment surgery and signature length changes
		sig := dec[2]
		half := len(sig) / 2
		surgery := map[string]string{
			"two-segments":              seg[0] + "." + seg[1],
			"four-segments":             it.compact + "." + seg[2],
			"empty-signature":           seg[0] + "." + seg[1] + ".",
			"empty-payload":             seg[0] + ".." + seg[2],
			"empty-header":              "." + seg[1] + "." + seg[2],
			"sig-truncated-1":           seg[0] + "." + seg[1] + "." + enc.EncodeToString(sig[:len(sig)-1]),
			"sig-extended-1":            seg[0] + "." + seg[1] + "." + enc.EncodeToString(append(append([]byte{}, sig...), 0)),
			"sig-leading-zero":          seg[0] + "." + seg[1] + "." + enc.EncodeToString(append([]byte{0}, sig...)),
			"sig-zero-inserted-at-half": seg[0] + "." + seg[1] + "." + enc.EncodeToString(append(append(append([]byte{}, sig[:half]...), 0), sig[half:]...)),
			"sig-zero-before-both":      seg[0] + "." + seg[1] + "." + enc.EncodeToString(append(append(append([]byte{0}, sig[:half]...), 0), sig[half:]...)),
			"sig-zero-inserted-after-1": seg[0] + "." + seg[1] + "." + enc.EncodeToString(append(append(append([]byte{}, sig[:1]...), 0), sig[1:]...)),
			"sig-zero-inserted-half-1":  seg[0] + "." + seg[1] + "." + enc.EncodeToString(append(append(append([]byte{}, sig[:half-1]...), 0), sig[half-1:]...)),
			"sig-zero-inserted-half+1":  seg[0] + "." + seg[1] + "." + enc.EncodeToString(append(append(append([]byte{}, sig[:half+1]...), 0), sig[half+1:]...)),
			"sig-doubled":               seg[0] + "." + seg[1] + "." + enc.EncodeToString(append(append([]byte{}, sig...), sig...)),
			"sig-halves-swapped":        seg[0] + "." + seg[1] + "." + enc.EncodeToString(append(append([]byte{}, sig[half:]...), sig[:half]...)),
			"sig-all-zero":              seg[0] + "." + seg[1] + "." + enc.EncodeToString(make([]byte, len(sig))),
			"padded-signature":          it.compact + "=",
			"json-serialization":        `{"protected":"` + seg[0] + `"}`,
			"payload-of-other":          seg[0] + "." + enc.EncodeToString([]byte("other")) + "." + seg[2],
		}
		for name, c := range surgery {
			judge(base+"/"+name, c, own, false)
		}
		// the detached form (header..signature, payload handed over separately): verifies with the right payload only, and a string
		// that is not made of exactly three segments is refused whatever is handed over with it
		{
			k, compact, payload := it.k, it.compact, it.payload
			detached := seg[0] + ".." + seg[2]
			id := base + "/detached"
			r.Case(id, func() *core.Fail {
				jwk := jwkOf(k.JWKMap())
				det := map[string]any{"jws": compact, "detached_form": detached, "jwk": k.JWKMap()}
				if res, err := jwsutil.VerifyJWS(detached, jwk, jwsutil.WithJWSDetachedPayload(payload)); err != nil || string(res.Payload) != string(payload) {
					return &core.Fail{Key: "detached/" + k.Type, What: fmt.Sprintf("detached form does not verify with its payload: %v", err), Detail: det}
				}
				if _, err := jwsutil.VerifyJWS(detached, jwk, jwsutil.WithJWSDetachedPayload(append([]byte("x"), payload...))); err == nil {
					return &core.Fail{Key: "detached-other-payload/" + k.Type, What: "detached form verifies with another payload", Detail: det}
				}
				for _, form := range [][2]string{
					{"four-segments-empty", seg[0] + "..." + seg[2]},
					{"four-segments-payload", seg[0] + "." + seg[1] + "." + seg[1] + "." + seg[2]},
					{"five-segments", seg[0] + ".a.b.c." + seg[2]},
					{"junk-between", seg[0] + "..!!junk!!." + seg[2]},
					{"two-segments", seg[0] + "." + seg[2]},
					{"one-segment", seg[0]},
					{"trailing-separator", detached + "."},
					{"leading-separator", "." + detached},
					{"attached-and-extra-part", compact + "." + seg[2]},
				} {
					name, bad := form[0], form[1]
					if _, err := jwsutil.VerifyJWS(bad, jwk, jwsutil.WithJWSDetachedPayload(payload)); err == nil {
						return &core.Fail{Key: "detached-malformed/" + name, What: fmt.Sprintf("a string that is not a compact JWS (%s) verifies when the payload is handed over separately", name), Detail: merge(det, map[string]any{"input": bad})}
					}
					if _, err := jwsutil.ParseJWS(bad, jwsutil.WithJWSDetachedPayload(payload)); err == nil {
						return &core.Fail{Key: "detached-malformed-parse/" + name, What: fmt.Sprintf("a string that is not a compact JWS (%s) parses when the payload is handed over separately", name), Detail: merge(det, map[string]any{"input": bad})}
					}
				}
				return nil
			})
			r.Observe(id)
			r.Class("detached")
		}
		// protected-header surgery on the decoded JSON: a member added (with an empty, ordinary, null, numeric, boolean and structured
		// value), at either end: the decoded header content changes
		{
			var hdr map[string]any
			if json.Unmarshal(dec[0], &hdr) == nil {
				vals := []string{`""`, `"a"`, `null`, `0`, `false`, `[]`, `{}`}
				for _, k := range []string{"kid", "typ", "cty", "b64x", "zz"} {
					if _, has := hdr[k]; has {
						continue
					}
					for vi, v := range vals {
						inner := strings.TrimSuffix(strings.TrimSpace(string(dec[0])), "}")
						for pi, text := range []string{inner + `,"` + k + `":` + v + `}`, `{"` + k + `":` + v + `,` + strings.TrimPrefix(inner, "{") + `}`} {
							judge(fmt.Sprintf("%s/header-member-added-%s-%d-%d", base, k, vi, pi), enc.EncodeToString([]byte(text))+"."+seg[1]+"."+seg[2], own, true)
						}
					}
				}
				// (a header that is only re-spaced has the same decoded content: the statement does not say whether it verifies - an
				// implementation may verify over the received octets, RFC 7515, or over the decoded content - so it is not judged)
			}
		}
		// unsupported / malformed keys
		for name, f := range map[string]func(m map[string]any){
			"kty-RSA": func(m map[string]any) { m["kty"] = "RSA" }, "kty-oct": func(m map[string]any) { m["kty"] = "oct" }, "kty-empty": func(m map[string]any) { m["kty"] = "" },
			"kty-unknown": func(m map[string]any) { m["kty"] = "XYZ" }, "crv-unknown": func(m map[string]any) { m["crv"] = "P-999" }, "crv-empty": func(m map[string]any) { m["crv"] = "" },
			"x-empty": func(m map[string]any) { m["x"] = "" }, "x-not-base64": func(m map[string]any) { m["x"] = "!!" },
		} {
			m := it.k.JWKMap()
			f(m)
			judge(base+"/key-"+name, it.compact, m, false)
		}
		if ii == 5 {
			r.Sample(map[string]any{"jws": it.compact, "jwk": own, "mutations": "every byte x masks of the three decoded segments, every character, 14 other keys, surgery"})
		}
	})
	_ = ecdsa.PublicKey{}
	r.Require("short-r", 3)
	r.Require("short-s", 3)
}

func merge(a, b map[string]any) map[string]any {
	out := map[string]any{}
	for k, v := range a {
		out[k] = v
	}
	for k, v := range b {
		out[k] = v
	}
	return out
}
