// Package c12: applying operations and patches never mutates inputs; failures are atomic.
// Piggy-backed on the C01 (applier) and C10 (composer) graphs: every transition is bracketed
// by deep snapshots of all inputs, and every state object ever produced is re-compared with
// its creation-time snapshot at the end (earlier versions stay valid).
package c12

import (
	"verif/checks/c01"
	"verif/checks/c10"
	"verif/engine/core"
)

func Run(r *core.Run) {
	r.Rule = "every transition of the applier graph (alphabet of valid and invalidated operations, 2 initial states) and of the composer graph (validated patch alphabet incl. lists failing at the k-th patch): " +
		"deep snapshots of previous model / document, anchored operation and patch values before = after; error => nil result; all produced states re-checked against creation-time snapshots; " +
		"distinct = distinct state snapshots; non-trivial = all"
	r.Assumptions = []string{"snapshots are JSON dumps of every exported field plus nil-ness of slices and maps (field order and slice order preserved)",
		"no aliasing requirement is imposed (an out-of-window update may return the previous document object)"}
	c01.Explore(r, c01.Options{Mutation: true, Depth: core.Pick(r, 3, 4), SigTypes: []string{"Ed25519"}})
	// the same graph with an applier whose protocol has a non-zero genesis time (the operations still say version 0)
	first := map[string]any{}
	for k, v := range r.Extra {
		first[k] = v
	}
	c01.Explore(r, c01.Options{Mutation: true, Depth: core.Pick(r, 2, 3), SigTypes: []string{"Ed25519"}, GenesisTime: 7})
	for k, v := range r.Extra {
		if old, ok := first[k]; ok {
			r.Extra["genesis_time_7_"+k] = v
			r.Extra[k] = old
		}
	}
	c10.Explore(r, c10.Options{Mutation: true, Depth: core.Pick(r, 2, 3), Corner: false, FoldLawDepth: 0})
	r.Require("failing-list", 3)
	r.Require("pointer-into-earlier-patch", 100)
	r.Require("adjacent-patches", 100)
}
