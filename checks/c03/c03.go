// Package c03: DIDs are self-certifying.
package c03

import (
	"encoding/json"
	"fmt"
	"math"
	"sort"
	"strings"

	"verif/engine/core"
	"verif/gen/keys"
	"verif/gen/ops"
	"verif/ref/jcs"
	"verif/ref/mh"

	"github.com/trustbloc/sidetree-go/pkg/docutil"
	"github.com/trustbloc/sidetree-go/pkg/versions/1_0/operationparser"
)

type M = map[string]any

// bigValue fills a member so that the canonical delta is longer than n bytes (every byte of it is bound by the delta hash,
// however many digest blocks it spans; the update commitment is the last member of the canonical form).
func bigValue(n int) string { return strings.Repeat("0123456789abcdef", n/16+1) }

var patchJSON = []string{
	`{"action":"ietf-json-patch","patches":[{"op":"add","path":"/big","value":"` + bigValue(1100) + `"}]}`,
	`{"action":"ietf-json-patch","patches":[{"op":"add","path":"/bigger","value":"` + bigValue(2300) + `"}]}`,
	`{"action":"ietf-json-patch","patches":[{"op":"add","path":"/biggest","value":"` + bigValue(5000) + `"}]}`,
	`{"action":"replace","document":{"publicKeys":[` + ops.PubKeyJSON("k1", keys.New("P-256", 80), `["authentication"]`) + `],"services":[{"id":"s1","type":"T","serviceEndpoint":"https://s.example/"}]}}`,
	`{"action":"add-public-keys","publicKeys":[` + ops.PubKeyJSON("k2", keys.New("Ed25519", 80), `["assertionMethod"]`) + `]}`,
	`{"action":"remove-public-keys","ids":["k1"]}`,
	`{"action":"add-services","services":[{"id":"s2","type":"T","serviceEndpoint":"https://b.example/"}]}`,
	`{"action":"remove-services","ids":["s1"]}`,
	`{"action":"ietf-json-patch","patches":[{"op":"add","path":"/other","value":{"n":1}}]}`,
	`{"action":"add-also-known-as","uris":["https://aka.example/"]}`,
	`{"action":"remove-also-known-as","uris":["https://aka.example/"]}`,
	// values that are valid but not spelled the way a URL library prints them: they are data, bound by the delta hash as written
	`{"action":"add-also-known-as","uris":["HTTPS://Upper.example/Me%7e","https://x.example/me#"]}`,
	`{"action":"add-services","services":[{"id":"s3","type":"T","serviceEndpoint":["HTTP://Upper.example/%7e"]}]}`,
	// numbers are data as well: whole numbers beyond 2^53 / 2^64, a fraction, a priority
	`{"action":"ietf-json-patch","patches":[{"op":"add","path":"/n","value":[20000000000000000000,4611686018427387904,0.1,7]}]}`,
	"{\"action\":\"ietf-json-patch\",\"patches\":[{\"op\":\"add\",\"path\":\"/u\",\"value\":{\"\ufb33\":1,\"\U0001F600\":2}}]}",
	"{\"action\":\"ietf-json-patch\",\"patches\":[{\"op\":\"add\",\"path\":\"/w\",\"value\":\"a\u2028b\u2029c & <d> \\u000b\\u001f\"}]}",
}

// ser serializes a generic value; order gives, for the object at path p, a permutation of its sorted keys.
func ser(v any, path string, order map[string][]int, ws map[int]string, counter *int) string {
	tok := func(s string) string {
		out := ws[*counter] + s
		*counter++
		return out
	}
	switch t := v.(type) {
	case map[string]any:
		ks := make([]string, 0, len(t))
		for k := range t {
			ks = append(ks, k)
		}
		sort.Strings(ks)
		if p, ok := order[path]; ok && len(p) == len(ks) {
			n := make([]string, len(ks))
			for i, j := range p {
				n[i] = ks[j]
			}
			ks = n
		}
		s := tok("{")
		for i, k := range ks {
			if i > 0 {
				s += tok(",")
			}
			kb, _ := json.Marshal(k)
			s += tok(string(kb)) + tok(":") + ser(t[k], path+"/"+k, order, ws, counter)
		}
		return s + tok("}")
	case []any:
		s := tok("[")
		for i, e := range t {
			if i > 0 {
				s += tok(",")
			}
			s += ser(e, fmt.Sprintf("%s/%d", path, i), order, ws, counter)
		}
		return s + tok("]")
	default:
		b, _ := json.Marshal(t)
		return tok(string(b))
	}
}

func objectPaths(v any, path string, out *[]string, sizes map[string]int) {
	switch t := v.(type) {
	case map[string]any:
		*out = append(*out, path)
		sizes[path] = len(t)
		for k, e := range t {
			objectPaths(e, path+"/"+k, out, sizes)
		}
	case []any:
		for i, e := range t {
			objectPaths(e, fmt.Sprintf("%s/%d", path, i), out, sizes)
		}
	}
}

func perms(n int) [][]int {
	var out [][]int
	p := make([]int, n)
	for i := range p {
		p[i] = i
	}
	var rec func(k int)
	rec = func(k int) {
		if k == n {
			out = append(out, append([]int{}, p...))
			return
		}
		for i := k; i < n; i++ {
			p[k], p[i] = p[i], p[k]
			rec(k + 1)
			p[k], p[i] = p[i], p[k]
		}
	}
	rec(0)
	return out
}

func Run(r *core.Run) {
	r.Rule = "create requests: patch lists of length 1-2 over all 8 actions (+ 2 patches with unusually spelled URIs) x anchor origin {absent,string,object,number beyond 2^64,object with a number beyond 2^53, empty string, false, 0, [], {}} x type {absent,set} x hash code x multihash configuration {[18],[19],[18,19],[19,18]} x 2 namespaces (every 4th request: 6, incl. namespaces ending in the delimiter and the empty one); " +
		"(i) suffix = mh(first configured algorithm, JCS(suffix data)), id = namespace:suffix; (ii) every member order of every object (<= 4! each), whitespace at every token boundary (<= 2 insertions), \\u spellings: same DID; " +
		"(iii) every single-field modification of suffix data or delta, and every string of the delta respelled (case, scheme case, blanks, empty fragment, percent-escape case) and every number of the delta replaced by its neighbouring doubles, +1 and whole numbers beyond 2^64: DID changes or request rejected; distinct = distinct request texts; non-trivial = all"
	r.Assumptions = []string{"reference suffix from ref/mh + ref/jcs over the suffix data model {deltaHash, recoveryCommitment, anchorOrigin, type}", "unknown extra members are out of scope (dropped by the decoder by design; rejected on the long-form path, C17)"}
	type cfg struct {
		algs []uint
	}
	cfgs := []cfg{{[]uint{18}}, {[]uint{19}}, {[]uint{18, 19}}, {[]uint{19, 18}}}
	nss := []string{"did:sidetree", "did:a:b"}
	var patchLists [][]any
	for i := range patchJSON {
		patchLists = append(patchLists, []any{ops.ParseJSON(patchJSON[i])})
	}
	for i := range patchJSON {
		for j := range patchJSON {
			if i != j && (r.Thorough() || (i+j)%3 == 0) {
				patchLists = append(patchLists, []any{ops.ParseJSON(patchJSON[i]), ops.ParseJSON(patchJSON[j])})
			}
		}
	}
	// (the anchor origin is author-chosen JSON of any type; whole numbers beyond 2^53 and 2^64 exercise the number formatting of the canonical form)
	origins := []any{nil, "origin.example", M{"a": 1.0, "b": []any{"x"}}, 2e19, M{"n": []any{4611686018427387904.0, 0.1}},
		"line\u2028separator\u2029 & <html> \u007f",                                          // characters that JSON writers other than JCS escape
		M{"\ufb33": 1.0, "\U0001F600": 2.0, "\ufb33a": M{"\U0001F600a": "x", "\uffff": "y"}}, // member names whose UTF-16 order differs from their code point order
		// values that are "empty" in some sense but present all the same: they are part of the suffix data and of the DID
		"", false, 0.0, []any{}, M{},
		// a backslash with nothing else that needs escaping, beside the control character its two-character escape would denote
		"o\\n", "o\n", M{"k\\": "v\\", "k\\\\": "\\\\"}}
	rec, upd := keys.New("Ed25519", 81), keys.New("P-256", 81)
	type reqT struct {
		label string
		m     M
		code  uint64
	}
	var reqs []reqT
	for pi, pl := range patchLists {
		for oi, o := range origins {
			for ti, typ := range []string{"", "x", "a\\b"} {
				if ti == 2 && oi != 1 && oi != len(origins)-3 {
					continue
				}
				for _, code := range []uint64{18, 19} {
					c := ops.ValidCreate(rec, upd, pl, code, o)
					if typ != "" {
						c["suffixData"].(M)["type"] = typ
					}
					reqs = append(reqs, reqT{fmt.Sprintf("p%d/o%d/t%d/h%d", pi, oi, ti, code), c, code})
				}
			}
		}
	}
	r.Extra["create_requests"] = len(reqs)
	allowed := func(c cfg, code uint64) bool {
		for _, a := range c.algs {
			if uint64(a) == code {
				return true
			}
		}
		return false
	}
	core.Parallel(len(reqs), func(ri int) {
		rq := reqs[ri]
		canon := ops.Bytes(rq.m)
		for ci, c := range cfgs {
			p := ops.Proto()
			p.MultihashAlgorithms = c.algs
			parser := operationparser.New(p)
			all := nss
			if ri%4 == 0 {
				// namespaces that end in the delimiter, are empty or are the delimiter alone: the DID is the namespace, a colon and the suffix, whatever the namespace
				all = append(append([]string{}, nss...), "did:sidetree:", "did:a:b::", "", ":")
			}
			for _, ns := range all {
				id := fmt.Sprintf("suffix/%s/cfg%d/%s", rq.label, ci, ns)
				if !allowed(c, rq.code) {
					// hashes of a non-configured algorithm: must be rejected
					r.Case(id, func() *core.Fail {
						if op, err := parser.Parse(ns, canon); err == nil {
							return &core.Fail{Key: id, What: "create request whose hashes use a non-configured algorithm accepted with id " + op.ID, Detail: M{"request": string(canon), "algorithms": c.algs}}
						}
						return nil
					})
					continue
				}
				want := mh.MustHash(uint64(c.algs[0]), jcs.MustCanonGo(rq.m["suffixData"]))
				r.Case(id, func() *core.Fail {
					op, err := parser.Parse(ns, canon)
					det := M{"request": string(canon), "algorithms": c.algs, "namespace": ns}
					if err != nil {
						return &core.Fail{Key: id, What: "valid create request refused: " + err.Error(), Detail: det}
					}
					if op.UniqueSuffix != want || op.ID != ns+":"+want {
						return &core.Fail{Key: id, What: fmt.Sprintf("suffix %s / id %s, expected hash of canonical suffix data %s", op.UniqueSuffix, op.ID, want), Detail: det}
					}
					if cid, err := docutil.CalculateID(ns, rq.m["suffixData"], c.algs[0]); err != nil || cid != ns+":"+want {
						return &core.Fail{Key: id, What: fmt.Sprintf("docutil.CalculateID gives %q (%v), expected %q", cid, err, ns+":"+want), Detail: det}
					}
					return nil
				})
				r.Observe(id)
			}
		}
		// (ii) and (iii) under the single configuration [18,19], namespace did:sidetree (quick: every 3rd request; thorough: all)
		if !r.Thorough() && ri%3 != 0 {
			return
		}
		p := ops.Proto()
		p.MultihashAlgorithms = []uint{18, 19}
		parser := operationparser.New(p)
		baseOp, err := parser.Parse("did:sidetree", canon)
		if err != nil {
			return // reported above
		}
		same := func(id string, text []byte, what string) {
			r.Case(id, func() *core.Fail {
				op, err := parser.Parse("did:sidetree", text)
				if err != nil || op.ID != baseOp.ID || op.UniqueSuffix != baseOp.UniqueSuffix {
					got := ""
					if op != nil {
						got = op.ID
					}
					return &core.Fail{Key: id, What: fmt.Sprintf("%s of the same request denotes %q (%v) instead of %s", what, got, err, baseOp.ID), Detail: M{"request": string(text), "canonical_request": string(canon)}}
				}
				return nil
			})
			r.Observe(string(text))
		}
		var paths []string
		sizes := map[string]int{}
		objectPaths(rq.m, "", &paths, sizes)
		sort.Strings(paths)
		for _, op := range paths {
			if sizes[op] < 2 || sizes[op] > 4 {
				continue
			}
			for pi, pm := range perms(sizes[op]) {
				n := 0
				text := ser(rq.m, "", map[string][]int{op: pm}, nil, &n)
				same(fmt.Sprintf("order/%s%s/%d", rq.label, op, pi), []byte(text), "member re-ordering")
			}
			r.Class("reordered")
		}
		if ri%9 == 0 || r.Thorough() {
			n := 0
			ser(rq.m, "", nil, nil, &n)
			tokens := n
			for i := 0; i <= tokens; i++ {
				for _, w := range []string{" ", "\n", "\t\r"} {
					n := 0
					same(fmt.Sprintf("ws/%s/%d/%q", rq.label, i, w), []byte(ser(rq.m, "", nil, map[int]string{i: w}, &n)+map[bool]string{true: w, false: ""}[i == tokens]), "whitespace insertion")
				}
				if ri == 0 {
					for j := i + 1; j <= tokens; j += 7 {
						n := 0
						same(fmt.Sprintf("ws2/%s/%d/%d", rq.label, i, j), []byte(ser(rq.m, "", nil, map[int]string{i: " ", j: "\n"}, &n)), "double whitespace insertion")
					}
				}
			}
			r.Class("whitespace")
		}
		// \u escape spelling of one string: the recovery commitment's first character
		esc := strings.Replace(string(canon), `"recoveryCommitment":"E`, `"recoveryCommitment":"\u0045`, 1)
		if esc != string(canon) {
			same("escape/"+rq.label, []byte(esc), "escape spelling")
		}
		esc2 := strings.Replace(string(canon), `"suffixData"`, `"\u0073uffixDat\u0061"`, 1)
		same("escape-name/"+rq.label, []byte(esc2), "escaped member name")

		// (iii) single-field modifications (no re-hashing)
		differs := func(id string, mod M, what string) {
			text := ops.Bytes(mod)
			r.Case(id, func() *core.Fail {
				op, err := parser.Parse("did:sidetree", text)
				if err == nil && op.ID == baseOp.ID {
					return &core.Fail{Key: id, What: fmt.Sprintf("modification (%s) accepted with an unchanged DID %s", what, op.ID), Detail: M{"modified_request": string(text), "original_request": string(canon)}}
				}
				return nil
			})
			r.Observe(string(text))
			r.Class("modified")
		}
		clone := func() M {
			var m M
			_ = json.Unmarshal(canon, &m)
			return m
		}
		other := keys.New("P-384", 82)
		for li, leaf := range []struct {
			path []string
			vals []any
		}{
			{[]string{"suffixData", "recoveryCommitment"}, []any{ops.Commitment(other, 18), ops.Commitment(other, 19)}},
			{[]string{"suffixData", "deltaHash"}, []any{ops.HashOf(M{"x": 1.0}, 18), ops.HashOf(M{"x": 1.0}, 19)}},
			{[]string{"suffixData", "anchorOrigin"}, []any{"other-origin", M{"a": 2.0}, []any{"x"}, nil, "", false, 0.0, []any{}, M{}, "o\\n", "o\n", "o\\\\n", 2e19, 3e19, 18446744073709551616.0, 9007199254740993.0, M{"n": []any{4611686018427388928.0, 0.1}}, M{"n": []any{4611686018427387904.0, 0.2}}}},
			{[]string{"suffixData", "type"}, []any{"y", "xx", "a\\b", "a\b", "a\\\\b", nil}},
			{[]string{"delta", "updateCommitment"}, []any{ops.Commitment(other, 18), ops.Commitment(other, 19)}},
		} {
			for vi, v := range leaf.vals {
				m := clone()
				obj := m[leaf.path[0]].(M)
				cur, has := obj[leaf.path[1]]
				if v == nil {
					if !has {
						continue
					}
					delete(obj, leaf.path[1])
				} else {
					if has && jcs.Equal(norm(cur), norm(v)) {
						continue
					}
					obj[leaf.path[1]] = v
				}
				differs(fmt.Sprintf("modify/%s/%d/%d", rq.label, li, vi), m, strings.Join(leaf.path, ".")+" changed")
			}
		}
		// the delta must hash to the recorded delta hash: a recorded hash that is a truncation of the right digest
		// (well-formed multihash of a configured algorithm, shorter digest) does not bind the delta and must be refused
		{
			dh := rq.m["suffixData"].(M)["deltaHash"].(string)
			code, digest, _ := mh.Decode(dh)
			for _, n := range []int{0, 1, len(digest) / 2, len(digest) - 1} {
				m := clone()
				m["suffixData"].(M)["deltaHash"] = mh.Enc(mh.Raw(code, digest[:n]))
				text := ops.Bytes(m)
				id := fmt.Sprintf("truncated-delta-hash/%s/%d", rq.label, n)
				r.Case(id, func() *core.Fail {
					if op, err := parser.Parse("did:sidetree", text); err == nil {
						return &core.Fail{Key: id, What: fmt.Sprintf("create request whose recorded delta hash is only the first %d digest bytes accepted as %s: the delta is not bound", n, op.ID), Detail: M{"request": string(text)}}
					}
					return nil
				})
				r.Observe(string(text))
			}
		}
		// ... and a recorded hash that is another spelling of the right bytes (the last base64url character of a sha2-256 multihash
		// has four bits that no byte uses; padding) is not the delta's hash either: "the delta hashes to the recorded delta hash"
		// is a statement about the recorded string
		{
			dh := rq.m["suffixData"].(M)["deltaHash"].(string)
			var variants []string
			for _, ch := range "ABCDEFGHIJKLMNOPQRSTUVWXYZabcdefghijklmnopqrstuvwxyz0123456789-_" {
				if byte(ch) != dh[len(dh)-1] {
					variants = append(variants, dh[:len(dh)-1]+string(ch))
				}
			}
			variants = append(variants, dh+"=", dh+"==", dh+"A", dh[:len(dh)-1])
			for vi, v := range variants {
				m := clone()
				m["suffixData"].(M)["deltaHash"] = v
				text := ops.Bytes(m)
				id := fmt.Sprintf("respelled-delta-hash/%s/%d", rq.label, vi)
				v := v
				r.Case(id, func() *core.Fail {
					if op, err := parser.Parse("did:sidetree", text); err == nil {
						return &core.Fail{Key: "respelled-delta-hash/" + rq.label, What: fmt.Sprintf("create request whose recorded delta hash %q is not the hash %q of its delta accepted as %s", v, dh, op.ID), Detail: M{"request": string(text)}}
					}
					return nil
				})
				r.Observe(string(text))
			}
			r.Class("respelled-delta-hash")
		}
		pl := clone()["delta"].(M)["patches"].([]any)
		extra := ops.ParseJSON(`{"action":"add-also-known-as","uris":["https://added.example/"]}`)
		{
			m := clone()
			m["delta"].(M)["patches"] = append(append([]any{}, pl...), extra)
			differs("modify/"+rq.label+"/patch-added", m, "patch appended")
			m = clone()
			m["delta"].(M)["patches"] = append([]any{extra}, pl...)
			differs("modify/"+rq.label+"/patch-prepended", m, "patch prepended")
			if len(pl) > 1 {
				m = clone()
				m["delta"].(M)["patches"] = pl[:1]
				differs("modify/"+rq.label+"/patch-removed", m, "patch removed")
				m = clone()
				m["delta"].(M)["patches"] = []any{pl[1], pl[0]}
				differs("modify/"+rq.label+"/patches-swapped", m, "patches reordered")
			}
			// leaf inside the first patch
			m = clone()
			first := m["delta"].(M)["patches"].([]any)[0].(M)
			switch first["action"] {
			case "remove-public-keys", "remove-services":
				first["ids"] = []any{"zz"}
			case "add-also-known-as", "remove-also-known-as":
				first["uris"] = []any{"https://changed.example/"}
			case "ietf-json-patch":
				first["patches"].([]any)[0].(M)["value"] = M{"n": 2.0}
			case "add-public-keys":
				first["publicKeys"].([]any)[0].(M)["id"] = "changed"
			case "add-services":
				first["services"].([]any)[0].(M)["type"] = "Changed"
			case "replace":
				first["document"].(M)["services"].([]any)[0].(M)["serviceEndpoint"] = "https://changed.example/"
			}
			differs("modify/"+rq.label+"/patch-leaf", m, "value inside the first patch changed")
		}
		// every string inside the delta, respelled the way a normalising step might consider "the same" (case of the whole string or of
		// a URI scheme only, surrounding blanks, an empty fragment, case of a percent escape): the delta is data and is bound as written
		{
			var leaves, numLeaves [][]any // paths of string leaves / of number leaves
			var walk func(v any, path []any)
			walk = func(v any, path []any) {
				switch t := v.(type) {
				case M:
					for k, e := range t {
						walk(e, append(append([]any{}, path...), k))
					}
				case []any:
					for i, e := range t {
						walk(e, append(append([]any{}, path...), i))
					}
				case string:
					leaves = append(leaves, path)
				case float64:
					numLeaves = append(numLeaves, path)
				}
			}
			walk(clone()["delta"], nil)
			// every number inside the delta replaced by its neighbours: next double up and down, +1, and two whole numbers beyond 2^64
			sort.Slice(numLeaves, func(i, j int) bool { return fmt.Sprint(numLeaves[i]) < fmt.Sprint(numLeaves[j]) })
			for li, path := range numLeaves {
				locate := func(root any) (parent any, last any, cur float64) {
					v := root
					for _, step := range path[:len(path)-1] {
						switch k := step.(type) {
						case string:
							v = v.(M)[k]
						case int:
							v = v.([]any)[k]
						}
					}
					last = path[len(path)-1]
					switch k := last.(type) {
					case string:
						cur = v.(M)[k].(float64)
					case int:
						cur = v.([]any)[k].(float64)
					}
					return v, last, cur
				}
				_, _, cur := locate(clone()["delta"])
				seen := map[float64]bool{cur: true}
				for vi, nv := range []float64{math.Nextafter(cur, math.Inf(1)), math.Nextafter(cur, math.Inf(-1)), cur + 1, 2e19, 3e19} {
					if seen[nv] {
						continue
					}
					seen[nv] = true
					m := clone()
					parent, last, _ := locate(m["delta"])
					switch k := last.(type) {
					case string:
						parent.(M)[k] = nv
					case int:
						parent.([]any)[k] = nv
					}
					differs(fmt.Sprintf("renumber/%s/%d/%d", rq.label, li, vi), m, fmt.Sprintf("delta number at %v changed from %v to %v", path, cur, nv))
					r.Class("renumbered")
				}
			}
			sort.Slice(leaves, func(i, j int) bool { return fmt.Sprint(leaves[i]) < fmt.Sprint(leaves[j]) })
			for li, path := range leaves {
				if len(path) > 0 && path[len(path)-1] == "action" {
					continue // another action is another patch; covered by the patch-level modifications
				}
				get := func(root any) (parent any, last any, cur string) {
					v := root
					for _, step := range path[:len(path)-1] {
						switch k := step.(type) {
						case string:
							v = v.(M)[k]
						case int:
							v = v.([]any)[k]
						}
					}
					last = path[len(path)-1]
					switch k := last.(type) {
					case string:
						cur = v.(M)[k].(string)
					case int:
						cur = v.([]any)[k].(string)
					}
					return v, last, cur
				}
				_, _, cur := get(clone()["delta"])
				variants := []string{strings.ToUpper(cur), strings.ToLower(cur), cur + " ", " " + cur, cur + "#"}
				if i := strings.Index(cur, "://"); i > 0 {
					variants = append(variants, strings.ToUpper(cur[:i])+cur[i:], strings.ToLower(cur[:i])+cur[i:], cur+"%7e", cur+"/.")
				}
				if strings.Contains(cur, "%7e") {
					variants = append(variants, strings.Replace(cur, "%7e", "%7E", 1), strings.Replace(cur, "%7e", "~", 1))
				}
				seen := map[string]bool{cur: true}
				for vi, nv := range variants {
					if seen[nv] {
						continue
					}
					seen[nv] = true
					m := clone()
					parent, last, _ := get(m["delta"])
					switch k := last.(type) {
					case string:
						parent.(M)[k] = nv
					case int:
						parent.([]any)[k] = nv
					}
					differs(fmt.Sprintf("respell/%s/%d/%d", rq.label, li, vi), m, fmt.Sprintf("delta string at %v respelled from %q to %q", path, cur, nv))
					r.Class("respelled")
				}
			}
		}
	})
	r.Sample(M{"request": string(ops.Bytes(reqs[4].m)), "checks": "suffix under 4 multihash configurations x 2 namespaces; all member orders; whitespace; single-field modifications"})
	r.Require("reordered", 50)
	r.Require("modified", 200)
	r.Require("respelled", 500)
	r.Require("renumbered", 50)
	r.Require("whitespace", 5)
}

func norm(v any) any {
	b, _ := json.Marshal(v)
	p, _ := jcs.Parse(b)
	return p
}
