// Package c13: patch validation enforces the documented constraints (both directions).
package c13

import (
	"encoding/json"
	"fmt"
	"strings"
	"sync/atomic"

	"verif/engine/core"
	"verif/ref/rules"

	"verif/gen/keys"
	"verif/gen/ops"

	"github.com/trustbloc/sidetree-go/pkg/patch"
	"github.com/trustbloc/sidetree-go/pkg/versions/1_0/model"
	"github.com/trustbloc/sidetree-go/pkg/versions/1_0/operationparser"
	"github.com/trustbloc/sidetree-go/pkg/versions/1_0/docvalidator/didvalidator"
	"github.com/trustbloc/sidetree-go/pkg/versions/1_0/docvalidator/docvalidator"
	"github.com/trustbloc/sidetree-go/pkg/versions/1_0/operationparser/patchvalidator"
)

type M = map[string]any

func clone(v any) any {
	b, _ := json.Marshal(v)
	var o any
	_ = json.Unmarshal(b, &o)
	return o
}

var keyTypes = []string{"Bls12381G2Key2020", "JsonWebKey2020", "EcdsaSecp256k1VerificationKey2019", "X25519KeyAgreementKey2019", "Ed25519VerificationKey2018", "Ed25519VerificationKey2020"}
var purposes = []string{"authentication", "assertionMethod", "keyAgreement", "capabilityDelegation", "capabilityInvocation"}

func jwk() M { return M{"kty": "EC", "crv": "P-256", "x": "eHg", "y": "eXk"} }

func key(id, typ string, material string, purp []any) M {
	k := M{"id": id, "type": typ}
	if material == "jwk" {
		k["publicKeyJwk"] = jwk()
	} else {
		k["publicKeyBase58"] = "GY4GunSXBPBfhLCzDL7iGmP5dR3sBDCJZkkaGK8VgYQf"
	}
	if purp != nil {
		k["purposes"] = purp
	}
	return k
}

func svc(id, typ string, ep any) M {
	s := M{"id": id, "type": typ}
	if ep != nil {
		s["serviceEndpoint"] = ep
	}
	return s
}

type tc struct {
	label string
	p     M
	want  *bool // declared expectation (vacuity guard on the reference); nil = let the reference decide
}

func Run(r *core.Run) {
	r.Rule = "valid patches of all actions and shapes + one labelled mutation per constraint: id lengths 0/1/50/51 and each forbidden character class, every code point of the BMP (thorough: planes 0-2) as an id character in 3 actions, duplicates, every missing/extra member, JWK members, " +
		"the full matrix 6 key types x (32 purpose subsets in thorough / 5 single purposes + general + pairs in quick) x {JWK, base58}, service type lengths 0/1/30/31, endpoint shapes incl. lists with a bad i-th entry (i=1..3) and all 258 lists of length 1-3 over {URI, empty, unparsable, object, number, list} entries, " +
		"also-known-as, remove lists, replace documents; IsValidOriginalDocument of both validators; oracle both directions; distinct = distinct patch texts; non-trivial = all"
	r.Assumptions = []string{"independent predicate ref/rules written from the statement and the documented type x purpose table",
		"URIs are chosen so that every reasonable definition of 'valid URI' agrees (absolute URIs vs unparsable strings)", "non-string entries in id / also-known-as / purpose lists are not generated (the statement does not define them); endpoint lists do mix string and non-string entries (only string entries are constrained)",
		"service types are ASCII: the statement limits the type to 30 characters and the library counts bytes, which is the same thing only for ASCII; types between 31 bytes and 30 characters are not judged"}
	yes, no := true, false
	var cases []tc
	add := func(label string, p M, want *bool) { cases = append(cases, tc{label, clone(p).(M), want}) }
	addKeys := func(label string, ks []any, want *bool) {
		add("add-public-keys/"+label, M{"action": "add-public-keys", "publicKeys": ks}, want)
	}
	addSvcs := func(label string, ss []any, want *bool) {
		add("add-services/"+label, M{"action": "add-services", "services": ss}, want)
	}

	good := key("key-1", "JsonWebKey2020", "jwk", []any{"authentication"})
	addKeys("valid", []any{good}, &yes)
	addKeys("valid-two", []any{good, key("key_2", "Ed25519VerificationKey2018", "b58", []any{"assertionMethod"})}, &yes)
	addKeys("empty-list", []any{}, &no)
	// ids
	ids := map[string]*bool{"": &no, "a": &yes, strings.Repeat("a", 50): &yes, strings.Repeat("a", 51): &no, "with space": &no, "dot.ted": &no, "hash#": &no,
		"sl/ash": &no, "ünï": &no, "trailing\n": &no, "A-Z_a-z0-9": &yes, "-": &yes, "_": &yes, "tab\t": &no, "colon:": &no, "plus+": &no, "pct%41": &no}
	for id, w := range ids {
		k := clone(good).(M)
		k["id"] = id
		addKeys(fmt.Sprintf("id=%q", id), []any{k}, w)
		addSvcs(fmt.Sprintf("id=%q", id), []any{svc(id, "T", "https://ok.example/")}, w)
		add(fmt.Sprintf("remove-public-keys/id=%q", id), M{"action": "remove-public-keys", "ids": []any{"ok", id}}, w)
		add(fmt.Sprintf("remove-services/id=%q", id), M{"action": "remove-services", "ids": []any{id, "ok"}}, w)
		add(fmt.Sprintf("replace/key-id=%q", id), M{"action": "replace", "document": M{"publicKeys": []any{k}}}, w)
	}
	addKeys("duplicate-id", []any{good, clone(good)}, &no)
	addKeys("duplicate-id-nonadjacent", []any{good, key("other", "JsonWebKey2020", "jwk", nil), clone(good)}, &no)
	// every ordered selection of three purposes that contains keyAgreement, for every key type and material (a rule looked up per
	// purpose must hold wherever in the list the purpose stands)
	{
		verification := []string{"authentication", "assertionMethod", "capabilityDelegation", "capabilityInvocation"}
		n := 0
		for _, t := range keyTypes {
			for _, mat := range []string{"jwk", "base58"} {
				for ai, a := range verification {
					for bi, b := range verification {
						if ai == bi {
							continue
						}
						for pos := 0; pos < 3; pos++ {
							l := []any{a, b}
							l = append(l[:pos], append([]any{"keyAgreement"}, l[pos:]...)...)
							addKeys(fmt.Sprintf("purpose-order-%d", n), []any{key("key-1", t, mat, l)}, nil)
							n++
						}
					}
				}
			}
		}
	}
	// the same id twice over every ordered pair of key shapes (JWK / base58 material, four types), adjacent and with a key in between,
	// in an add-public-keys patch and in a replace document
	{
		shapes := []func(id string) M{
			func(id string) M { return key(id, "JsonWebKey2020", "jwk", []any{"authentication"}) },
			func(id string) M { return key(id, "Ed25519VerificationKey2018", "base58", []any{"assertionMethod"}) },
			func(id string) M { return key(id, "EcdsaSecp256k1VerificationKey2019", "jwk", nil) },
			func(id string) M { return key(id, "X25519KeyAgreementKey2019", "base58", []any{"keyAgreement"}) },
		}
		for i, a := range shapes {
			for j, b := range shapes {
				addKeys(fmt.Sprintf("duplicate-id-shapes-%d-%d", i, j), []any{a("dup"), b("dup")}, &no)
				addKeys(fmt.Sprintf("duplicate-id-shapes-%d-%d-nonadjacent", i, j), []any{a("dup"), shapes[(i+1)%4]("between"), b("dup")}, &no)
				add(fmt.Sprintf("replace/duplicate-key-shapes-%d-%d", i, j), M{"action": "replace", "document": M{"publicKeys": []any{a("dup"), shapes[(j+1)%4]("between"), b("dup")}}}, &no)
				addKeys(fmt.Sprintf("distinct-id-shapes-%d-%d", i, j), []any{a("one"), b("two")}, &yes)
			}
		}
	}
	// members
	for _, m := range []string{"id", "type"} {
		k := clone(good).(M)
		delete(k, m)
		addKeys("missing-"+m, []any{k}, &no)
	}
	{
		k := clone(good).(M)
		k["publicKeyBase58"] = "GY4G"
		addKeys("both-jwk-and-base58", []any{k}, &no)
		k2 := clone(good).(M)
		delete(k2, "publicKeyJwk")
		addKeys("neither-jwk-nor-base58", []any{k2}, &no)
	}
	// both material members present, one of them with a value of another JSON type (present is present, whatever the value)
	for vi, v := range []any{"", 5.0, M{}, nil, []any{}, false} {
		k := clone(good).(M)
		k["publicKeyBase58"] = v
		addKeys(fmt.Sprintf("jwk-and-odd-base58-%d", vi), []any{k}, &no)
		add(fmt.Sprintf("replace/jwk-and-odd-base58-%d", vi), M{"action": "replace", "document": M{"publicKeys": []any{k}}}, &no)
	}
	for vi, v := range []any{"a string", []any{}, nil, 5.0, false} {
		k := key("key-1", "Ed25519VerificationKey2018", "base58", []any{"authentication"})
		k["publicKeyJwk"] = v
		addKeys(fmt.Sprintf("base58-and-odd-jwk-%d", vi), []any{k}, &no)
		add(fmt.Sprintf("replace/base58-and-odd-jwk-%d", vi), M{"action": "replace", "document": M{"publicKeys": []any{k}}}, &no)
	}
	for _, extra := range []string{"controller", "publicKeyMultibase", "publicKeyHex", "x", "Purposes", "ID"} {
		k := clone(good).(M)
		k[extra] = "v"
		addKeys("unknown-member-"+extra, []any{k}, &no)
	}
	for _, miss := range []string{"kty", "crv", "x"} {
		k := clone(good).(M)
		delete(k["publicKeyJwk"].(M), miss)
		addKeys("jwk-missing-"+miss, []any{k}, &no)
	}
	{
		k := clone(good).(M)
		delete(k["publicKeyJwk"].(M), "y")
		addKeys("jwk-without-y", []any{k}, &yes)
		k = clone(good).(M)
		k["publicKeyJwk"] = M{"kty": "RSA", "n": "bg", "e": "AQAB"}
		addKeys("jwk-rsa", []any{k}, &yes)
		for _, miss := range []string{"n", "e"} {
			k = clone(good).(M)
			j := M{"kty": "RSA", "n": "bg", "e": "AQAB"}
			delete(j, miss)
			k["publicKeyJwk"] = j
			addKeys("jwk-rsa-missing-"+miss, []any{k}, &no)
		}
		k = clone(good).(M)
		k["publicKeyJwk"] = "not-an-object"
		addKeys("jwk-not-object", []any{k}, &no)
	}
	// purposes
	{
		k := clone(good).(M)
		k["purposes"] = []any{}
		addKeys("purposes-empty", []any{k}, &no)
		k = clone(good).(M)
		k["purposes"] = []any{"authentication", "invalid"}
		addKeys("purposes-unknown", []any{k}, &no)
		k = clone(good).(M)
		k["purposes"] = []any{"authentication", "assertionMethod", "keyAgreement", "capabilityDelegation", "capabilityInvocation", "authentication"}
		addKeys("purposes-six", []any{k}, &no)
		k = clone(good).(M)
		k["purposes"] = []any{"authentication", "assertionMethod", "keyAgreement", "capabilityDelegation", "capabilityInvocation"}
		addKeys("purposes-five", []any{k}, &yes)
	}
	// type x purpose x material matrix
	var subsets [][]any
	subsets = append(subsets, nil)
	for i, p := range purposes {
		subsets = append(subsets, []any{p})
		for _, q := range purposes[i+1:] {
			subsets = append(subsets, []any{p, q})
		}
	}
	if r.Thorough() {
		subsets = [][]any{nil}
		for m := 1; m < 32; m++ {
			var s []any
			for b := 0; b < 5; b++ {
				if m&(1<<b) != 0 {
					s = append(s, purposes[b])
				}
			}
			subsets = append(subsets, s)
		}
	}
	for _, t := range append(append([]string{}, keyTypes...), "UnknownKeyType2021", "") {
		for _, mat := range []string{"jwk", "b58"} {
			for _, s := range subsets {
				addKeys(fmt.Sprintf("matrix/%s/%s/%v", t, mat, s), []any{key("k", t, mat, s)}, nil)
			}
		}
	}
	// several keys in one patch: every ordered pair of representative keys (valid and invalid, with and without purposes):
	// the verdict on a key must not depend on its neighbours
	{
		reps := []M{
			key("p1", "JsonWebKey2020", "jwk", []any{"authentication"}),
			key("p2", "JsonWebKey2020", "jwk", nil),
			key("p3", "X25519KeyAgreementKey2019", "b58", []any{"keyAgreement"}),
			key("p4", "X25519KeyAgreementKey2019", "b58", nil),
			key("p5", "Ed25519VerificationKey2018", "b58", nil),
			key("p6", "Ed25519VerificationKey2018", "jwk", []any{"assertionMethod", "capabilityInvocation"}),
			key("p7", "Ed25519VerificationKey2020", "b58", []any{"keyAgreement"}),  // invalid: not an agreement type
			key("p8", "X25519KeyAgreementKey2019", "b58", []any{"authentication"}), // invalid: not a verification type
			key("p9", "EcdsaSecp256k1VerificationKey2019", "jwk", []any{"keyAgreement", "authentication"}),
			key("pa", "Bls12381G2Key2020", "b58", nil),
			key("pb", "JsonWebKey2020", "b58", []any{"authentication"}), // invalid: JWK required
			key("pc", "UnknownType", "jwk", nil),                        // invalid
		}
		for i, a := range reps {
			for j, b := range reps {
				if i != j {
					addKeys(fmt.Sprintf("pair/%s+%s", a["id"], b["id"]), []any{a, b}, nil)
					if (i+j)%3 == 0 {
						add(fmt.Sprintf("replace/pair/%s+%s", a["id"], b["id"]), M{"action": "replace", "document": M{"publicKeys": []any{a, b}}}, nil)
					}
				}
			}
		}
		addKeys("triple/p3+p2+p5", []any{reps[2], reps[1], reps[4]}, &yes)
		addKeys("triple/p1+p4+p3", []any{reps[0], reps[3], reps[2]}, &yes)
		svcs := []M{svc("q1", "T", "https://a.example/"), svc("q2", "T", []any{"https://a.example/"}), svc("q3", "T", ""), svc("q4", "T", M{"o": 1.0}), svc("q5", strings.Repeat("t", 31), "https://a.example/")}
		for i, a := range svcs {
			for j, b := range svcs {
				if i != j {
					addSvcs(fmt.Sprintf("pair/%s+%s", a["id"], b["id"]), []any{a, b}, nil)
				}
			}
		}
	}
	// services
	addSvcs("valid-string-endpoint", []any{svc("svc-1", "LinkedDomains", "https://ok.example/x")}, &yes)
	addSvcs("valid-did-endpoint", []any{svc("svc-1", "T", "did:example:123")}, &yes)
	addSvcs("valid-object-endpoint", []any{svc("svc-1", "T", M{"origins": []any{"https://a.example"}})}, &yes)
	addSvcs("valid-list-endpoint", []any{svc("svc-1", "T", []any{"https://a.example/", "https://b.example/"})}, &yes)
	addSvcs("valid-list-with-object", []any{svc("svc-1", "T", []any{M{"uri": "x"}, "https://b.example/"})}, &yes)
	addSvcs("valid-extra-members", []any{M{"id": "svc-1", "type": "T", "serviceEndpoint": "https://ok.example/", "priority": 1.0, "routingKeys": []any{"k"}}}, &yes)
	addSvcs("empty-list", []any{}, &no)
	addSvcs("missing-endpoint", []any{svc("svc-1", "T", nil)}, &no)
	addSvcs("endpoint-empty-string", []any{svc("svc-1", "T", "")}, &no)
	addSvcs("endpoint-not-uri", []any{svc("svc-1", "T", "::bad")}, &no)
	addSvcs("endpoint-bad-escape", []any{svc("svc-1", "T", "http://ok.example/%zz")}, &no)
	addSvcs("missing-type", []any{M{"id": "svc-1", "serviceEndpoint": "https://ok.example/"}}, &no)
	addSvcs("missing-id", []any{M{"type": "T", "serviceEndpoint": "https://ok.example/"}}, &no)
	for n, w := range map[int]*bool{0: &no, 1: &yes, 30: &yes, 31: &no} {
		addSvcs(fmt.Sprintf("type-length-%d", n), []any{svc("svc-1", strings.Repeat("t", n), "https://ok.example/")}, w)
	}
	addSvcs("duplicate-id", []any{svc("svc-1", "T", "https://a.example/"), svc("svc-1", "U", "https://b.example/")}, &no)
	addSvcs("duplicate-id-nonadjacent", []any{svc("svc-1", "T", "https://a.example/"), svc("svc-2", "T", "https://a.example/"), svc("svc-1", "U", "https://b.example/")}, &no)
	addSvcs("three-distinct", []any{svc("svc-1", "T", "https://a.example/"), svc("svc-2", "T", "https://a.example/"), svc("svc-3", "U", "https://b.example/")}, &yes)
	for i := 0; i < 3; i++ {
		for _, bad := range []string{"", "::bad"} {
			l := []any{"https://a.example/", "https://b.example/", "https://c.example/"}
			l[i] = bad
			addSvcs(fmt.Sprintf("list-entry-%d-bad=%q", i+1, bad), []any{svc("svc-1", "T", l)}, &no)
		}
	}
	// every endpoint list of length 1..3 over string and non-string entries: only the string entries are constrained, wherever they stand
	{
		entries := []any{"https://a.example/", "", "::bad", M{"uri": "https://x.example/"}, 7.0, []any{"::bad"}}
		names := []string{"uri", "empty", "unparsable", "object", "number", "list"}
		var rec func(l []any, label string)
		rec = func(l []any, label string) {
			if len(l) > 0 {
				var want *bool
				switch label {
				case "object,empty", "number,uri,unparsable", "list,object,empty":
					want = &no
				case "object,uri", "number,list,object", "list":
					want = &yes
				}
				addSvcs("mixed-list/"+label, []any{svc("svc-1", "T", clone(l))}, want)
			}
			if len(l) == 3 {
				return
			}
			for i, e := range entries {
				sep := ","
				if label == "" {
					sep = ""
				}
				rec(append(append([]any{}, l...), e), label+sep+names[i])
			}
		}
		rec(nil, "")
	}
	// a good URI with blanks or control characters around it (or after the host) is not the URI it contains: the endpoint is
	// validated as written, because it is stored as written
	for pi, pad := range []string{" ", "\t", "\n", "\r\n", "\u00a0", "\u2028", "\x00"} {
		for vi, padded := range []string{pad + "https://ok.example/x", "https://ok.example/x" + pad, "https://ok.example" + pad + "/x", pad} {
			addSvcs(fmt.Sprintf("padded-endpoint/%d/%d", pi, vi), []any{svc("svc-1", "T", padded)}, nil)
			addSvcs(fmt.Sprintf("padded-endpoint-in-list/%d/%d", pi, vi), []any{svc("svc-1", "T", []any{"https://a.example/", padded})}, nil)
			add(fmt.Sprintf("replace/padded-endpoint/%d/%d", pi, vi), M{"action": "replace", "document": M{"services": []any{svc("s", "T", padded)}}}, nil)
		}
	}
	// members that are present with the value null: a key's material, a service's endpoint, type and id, the purposes
	{
		sv := svc("svc-1", "T", "https://a.example/")
		sv["serviceEndpoint"] = nil
		addSvcs("endpoint-null", []any{sv}, &no)
		addSvcs("endpoint-null-second", []any{svc("svc-0", "T", "https://a.example/"), sv}, &no)
		add("replace/endpoint-null", M{"action": "replace", "document": M{"services": []any{sv}}}, &no)
		for _, m := range []string{"type", "id"} {
			s2 := svc("svc-1", "T", "https://a.example/")
			s2[m] = nil
			addSvcs(m+"-null", []any{s2}, &no)
		}
		for _, ep := range []any{false, 0.0, M{}, []any{}, []any{nil}, M{"uri": nil}} {
			addSvcs(fmt.Sprintf("endpoint-%s", core.J(ep)), []any{svc("svc-1", "T", ep)}, nil)
		}
	}
	addSvcs("second-service-bad", []any{svc("svc-1", "T", "https://a.example/"), svc("svc-2", "T", "")}, &no)
	// also-known-as
	for _, a := range []string{"add-also-known-as", "remove-also-known-as"} {
		add(a+"/valid", M{"action": a, "uris": []any{"https://a.example/", "did:example:b"}}, &yes)
		add(a+"/empty-list", M{"action": a, "uris": []any{}}, &no)
		add(a+"/unparsable", M{"action": a, "uris": []any{"https://a.example/", "::bad"}}, &no)
		add(a+"/bad-escape", M{"action": a, "uris": []any{"http://a.example/%zz"}}, &no)
		add(a+"/duplicate", M{"action": a, "uris": []any{"https://a.example/", "did:x:y", "https://a.example/"}}, &no)
		// the same URI twice, written in a form a URL library would print differently (the very same string is a duplicate however it is spelled)
		// (... including the shortest URI references there are: the empty one, a bare fragment sign, a bare query sign, a bare slash, a dot)
		for ui, u := range []string{"HTTPS://Upper.example/Me", "https://x.example/zo\u00eb", "https://x.example/a b", "did:example:123#", "https://x.example/%7euser", "", "#", "?", "/", ".", "0", "a"} {
			add(fmt.Sprintf("%s/duplicate-of-unusual-spelling-%d", a, ui), M{"action": a, "uris": []any{u, u}}, &no)
			add(fmt.Sprintf("%s/duplicate-of-unusual-spelling-after-another-%d", a, ui), M{"action": a, "uris": []any{"https://first.example/", u, u}}, &no)
			add(fmt.Sprintf("%s/unusual-spelling-once-%d", a, ui), M{"action": a, "uris": []any{u, "https://other.example/"}}, nil)
		}
		add(a+"/not-a-list", M{"action": a, "uris": "https://a.example/"}, &no)
	}
	// remove lists
	for _, a := range []string{"remove-public-keys", "remove-services"} {
		add(a+"/valid", M{"action": a, "ids": []any{"a", "b"}}, &yes)
		add(a+"/empty", M{"action": a, "ids": []any{}}, &no)
		add(a+"/not-a-list", M{"action": a, "ids": "a"}, &no)
		for pos := 0; pos < 3; pos++ {
			l := []any{"a", "b", "c"}
			l[pos] = "bad id"
			add(fmt.Sprintf("%s/invalid-at-%d", a, pos), M{"action": a, "ids": l}, &no)
		}
	}
	// replace
	add("replace/valid-both", M{"action": "replace", "document": M{"publicKeys": []any{good}, "services": []any{svc("s", "T", "https://a.example/")}}}, &yes)
	add("replace/valid-empty", M{"action": "replace", "document": M{}}, &yes)
	add("replace/valid-keys-only", M{"action": "replace", "document": M{"publicKeys": []any{good}}}, &yes)
	for _, extra := range []string{"alsoKnownAs", "id", "publicKey", "service", "@context", "other"} {
		add("replace/extra-member-"+extra, M{"action": "replace", "document": M{"publicKeys": []any{good}, extra: []any{}}}, &no)
	}
	add("replace/invalid-key-inside", M{"action": "replace", "document": M{"publicKeys": []any{key("bad id", "JsonWebKey2020", "jwk", nil)}}}, &no)
	add("replace/invalid-service-inside", M{"action": "replace", "document": M{"services": []any{svc("s", "T", "")}}}, &no)
	add("replace/duplicate-service-inside", M{"action": "replace", "document": M{"services": []any{svc("s", "T", "https://a.example/"), svc("s", "T", "https://a.example/")}}}, &no)
	add("replace/document-not-object", M{"action": "replace", "document": []any{}}, &no)

	// deltas around an invalid patch (nil marks its place)
	deltaParser := operationparser.New(ops.Proto())
	deltaCommitment := ops.Commitment(keys.New("Ed25519", 1300), 18)
	vAka := []byte(`{"action":"add-also-known-as","uris":["https://delta.example/"]}`)
	vReplace, _ := json.Marshal(M{"action": "replace", "document": M{"publicKeys": []any{good}}})
	deltaLists := [][][]byte{{nil, vReplace}, {vAka, nil, vReplace}, {vReplace, nil}, {nil, vAka}, {vAka, nil}, {nil, vReplace, vAka}}
	deltaListNames := []string{"before-replace", "between-valid-and-replace", "behind-replace", "before-valid", "behind-valid", "before-replace-and-valid"}
	for li, l := range deltaLists {
		// vacuity: the surrounding patches alone make a valid delta
		var ps []patch.Patch
		for _, t := range l {
			if t != nil {
				p, err := patch.FromBytes(t)
				if err != nil {
					core.Engine("c13: delta fixture does not parse: %v", err)
				}
				ps = append(ps, p)
			}
		}
		if err := deltaParser.ValidateDelta(&model.DeltaModel{UpdateCommitment: deltaCommitment, Patches: ps}); err != nil {
			core.Engine("c13: delta fixture %s is not valid without the invalid patch: %v", deltaListNames[li], err)
		}
	}
	core.Parallel(len(cases), func(i int) {
		c := cases[i]
		text, _ := json.Marshal(c.p)
		want := rules.ValidPatch(c.p)
		if c.want != nil && *c.want != want {
			core.Engine("c13: reference predicate says valid=%v for case %q declared %v: %s", want, c.label, *c.want, text)
		}
		r.Case(c.label, func() *core.Fail {
			p, err := patch.FromBytes(text)
			if err != nil {
				core.Engine("c13: generated patch does not parse: %s: %v", text, err)
			}
			verr := patchvalidator.Validate(p)
			if (verr == nil) != want {
				return &core.Fail{Key: c.label, What: fmt.Sprintf("patch %s: validation says %v, the documented constraints say valid=%v", text, verr, want),
					Detail: M{"patch": string(text), "expected_valid": want, "validation_error": fmt.Sprint(verr)}}
			}
			return nil
		})
		r.Observe(string(text))
		if want {
			r.Class("valid")
		} else {
			r.Class("invalid")
			// the same constraints hold for every patch of a delta, wherever it stands: before, between and behind valid patches
			// and a valid replace patch (which resets the document, not the rules)
			for li, l := range deltaLists {
				label := fmt.Sprintf("%s/in-delta/%s", c.label, deltaListNames[li])
				r.Case(label, func() *core.Fail {
					var ps []patch.Patch
					for _, t := range l {
						if t == nil {
							t = text
						}
						p, err := patch.FromBytes(t)
						if err != nil {
							core.Engine("c13: generated patch does not parse: %s: %v", t, err)
						}
						ps = append(ps, p)
					}
					if err := deltaParser.ValidateDelta(&model.DeltaModel{UpdateCommitment: deltaCommitment, Patches: ps}); err == nil {
						return &core.Fail{Key: label, What: fmt.Sprintf("a delta with the invalid patch %s (%s) passed ValidateDelta", text, deltaListNames[li]), Detail: M{"patch": string(text), "position": deltaListNames[li]}}
					}
					return nil
				})
				r.Class("invalid-in-delta")
			}
		}
	})
	// the id alphabet, character by character: every code point of the Basic Multilingual Plane (thorough: planes 0-2), alone and
	// after an allowed character, as key id, service id and in a remove list; only [A-Za-z0-9_-] may pass
	{
		last := rune(0xFFFF)
		if r.Thorough() {
			last = 0x2FFFF
		}
		const chunk = 1024
		var swept atomic.Int64
		core.Parallel(int(last+1)/chunk, func(ci int) {
			var n int64
			for cp := rune(ci * chunk); cp < rune((ci+1)*chunk); cp++ {
				if cp >= 0xD800 && cp <= 0xDFFF {
					continue // surrogates are not characters
				}
				for _, id := range []string{string(cp), "a" + string(cp)} {
					want := rules.ValidID(id)
					for ai, p := range []M{
						{"action": "add-public-keys", "publicKeys": []any{key(id, "JsonWebKey2020", "jwk", []any{"authentication"})}},
						{"action": "add-services", "services": []any{svc(id, "T", "https://ok.example/")}},
						{"action": "remove-public-keys", "ids": []any{"ok", id}},
					} {
						text, _ := json.Marshal(p)
						label := fmt.Sprintf("id-character/U+%04X/%d/%d", cp, len(id), ai)
						n++
						r.Case(label, func() *core.Fail {
							pp, err := patch.FromBytes(text)
							if err != nil {
								core.Engine("c13: generated patch does not parse: %s: %v", text, err)
							}
							verr := patchvalidator.Validate(pp)
							if (verr == nil) != want {
								return &core.Fail{Key: label, What: fmt.Sprintf("id %q (U+%04X) in %s: validation says %v, the id alphabet says valid=%v", id, cp, p["action"], verr, want),
									Detail: M{"patch": string(text), "expected_valid": want, "validation_error": fmt.Sprint(verr)}}
							}
							return nil
						})
					}
				}
			}
			swept.Add(n)
		})
		r.Extra["id_character_cases"] = swept.Load()
		r.AddDistinct(swept.Load())
	}
	// original documents
	type od struct {
		label, doc string
		docOK      bool // generic document validator
		didOK      bool // DID document validator
	}
	for _, c := range []od{
		{"plain", `{"publicKey":[],"service":[]}`, true, true},
		{"empty", `{}`, true, true},
		{"with-id", `{"id":"did:example:1","publicKey":[]}`, false, false},
		{"with-context", `{"@context":["https://www.w3.org/ns/did/v1"],"publicKey":[]}`, true, false},
		{"with-id-and-context", `{"@context":["https://www.w3.org/ns/did/v1"],"id":"x"}`, false, false},
		{"not-json", `{"publicKey":`, false, false},
	} {
		c := c
		r.Case("original/"+c.label, func() *core.Fail {
			e1 := docvalidator.New().IsValidOriginalDocument([]byte(c.doc))
			e2 := didvalidator.New().IsValidOriginalDocument([]byte(c.doc))
			if (e1 == nil) != c.docOK || (e2 == nil) != c.didOK {
				return &core.Fail{Key: "original/" + c.label, What: fmt.Sprintf("original document %s: document validator %v (want ok=%v), DID validator %v (want ok=%v)", c.doc, e1, c.docOK, e2, c.didOK), Detail: M{"document": c.doc}}
			}
			return nil
		})
	}
	r.Sample(M{"label": cases[len(cases)/2].label, "patch": cases[len(cases)/2].p})
	r.Sample(M{"label": "add-services/list-entry-2-bad", "patch": M{"action": "add-services", "services": []any{svc("svc-1", "T", []any{"https://a.example/", "", "https://c.example/"})}}})
	r.Require("valid", 50)
	r.Require("invalid", 100)
}
