#!/bin/bash
# Offline setup: build the framework once (warms the Go build cache).
set -e
cd "$(dirname "$0")"
export GOFLAGS=-mod=mod GOPROXY=off GOSUMDB=off GOTOOLCHAIN=local CGO_ENABLED=0
mkdir -p .work/bin evidence replays
go build -o .work/bin/vcheck ./cmd/vcheck
echo "setup ok"
