#!/bin/bash
# Offline setup: build the framework once (warms the Go build cache, incl. the instrumented build).
set -e
cd "$(dirname "$0")"
export GOFLAGS=-mod=mod GOPROXY=off GOSUMDB=off GOTOOLCHAIN=local CGO_ENABLED=0
mkdir -p .work/bin evidence replays
go build -o .work/bin/vcheck ./cmd/vcheck
(cd vinst && go build -o ../.work/bin/vinst .)
.work/bin/vinst -repo /repo -rt "$PWD/rt" -out "$PWD/.work/setup-inst" -seams MSA > .work/setup-vinst.log 2>&1
go build -tags verif -overlay "$PWD/.work/setup-inst/overlay.json" -o .work/bin/vcheck-verif ./cmd/vcheck
echo "setup ok"
