// Package explore is the stateless, deviation-bounded depth-first explorer (E1): the body asks
// Choose at every branching point; the engine re-executes the body, replaying a recorded prefix
// (an out-of-range replayed choice is a hard error: lost determinism) and taking alternative 0
// afterwards, then backtracks over every alternative whose accumulated cost stays within the bound.
package explore

import "fmt"

type point struct {
	n     int
	costs []int
	label string
}

type Ctx struct {
	prefix  []int
	Choices []int
	points  []point
	Labels  []string
}

// Choose returns an alternative in [0,n). cost(i) is the deviation cost of alternative i
// (alternative 0 must cost 0); nil means all alternatives are free.
func (c *Ctx) Choose(n int, label string, cost func(i int) int) int {
	if n <= 0 {
		panic("explore: Choose with n <= 0")
	}
	i := len(c.Choices)
	pick := 0
	if i < len(c.prefix) {
		pick = c.prefix[i]
		if pick >= n {
			panic(fmt.Sprintf("explore: replayed choice %d out of range %d at point %d (%s): execution is not deterministic", pick, n, i, label))
		}
	}
	p := point{n: n, label: label}
	if cost != nil {
		p.costs = make([]int, n)
		for k := 0; k < n; k++ {
			p.costs[k] = cost(k)
		}
	}
	c.points = append(c.points, p)
	c.Choices = append(c.Choices, pick)
	c.Labels = append(c.Labels, label)
	return pick
}

type Stats struct {
	Executions int64
	Points     int64
	MaxDepth   int
	Bound      int
	CapHit     bool
}

// Run explores all executions of body with total deviation cost <= bound (bound < 0: unbounded).
// after is called once per complete execution; returning false stops the exploration.
// maxExec > 0 caps the number of executions (CapHit is reported).
func Run(bound int, maxExec int64, body func(c *Ctx), after func(c *Ctx) bool) Stats {
	st := Stats{Bound: bound}
	stack := [][]int{{}}
	for len(stack) > 0 {
		prefix := stack[len(stack)-1]
		stack = stack[:len(stack)-1]
		c := &Ctx{prefix: prefix}
		body(c)
		st.Executions++
		st.Points += int64(len(c.points))
		if len(c.points) > st.MaxDepth {
			st.MaxDepth = len(c.points)
		}
		if after != nil && !after(c) {
			return st
		}
		if maxExec > 0 && st.Executions >= maxExec {
			st.CapHit = len(stack) > 0
			return st
		}
		// cost of the choices taken up to each point
		spent := 0
		costAt := make([]int, len(c.points)+1)
		for i, p := range c.points {
			costAt[i] = spent
			if p.costs != nil {
				spent += p.costs[c.Choices[i]]
			}
		}
		for i := len(c.points) - 1; i >= len(prefix); i-- {
			p := c.points[i]
			for alt := p.n - 1; alt >= 1; alt-- {
				cst := 0
				if p.costs != nil {
					cst = p.costs[alt]
				}
				if bound >= 0 && costAt[i]+cst > bound {
					continue
				}
				np := append(append([]int{}, c.Choices[:i]...), alt)
				stack = append(stack, np)
			}
		}
	}
	return st
}

// Replay runs body once with the given choices.
func Replay(choices []int, body func(c *Ctx)) *Ctx {
	c := &Ctx{prefix: choices}
	body(c)
	return c
}
