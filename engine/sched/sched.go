//go:build verif

// Package sched is the cooperative scheduler and happens-before race detector (E4). Harness
// threads are goroutines that run one at a time; control changes hands only at the scheduling
// points of the sync shims (acquire-type operations). The scheduler models lock, once and
// wait-group state itself, so enabledness is known (no enabled thread and some unfinished =>
// deadlock), and asks the explorer which enabled thread runs next (switching away from a
// still-enabled thread costs one preemption). Access events feed a vector-clock detector.
package sched

import (
	"fmt"
	"runtime/debug"
	"sort"

	"verif/engine/explore"

	rt "github.com/trustbloc/sidetree-go/pkg/verifrt"
)

type vclock []int

func (v vclock) join(o vclock) {
	for i := range o {
		if o[i] > v[i] {
			v[i] = o[i]
		}
	}
}

func (v vclock) clone() vclock { return append(vclock{}, v...) }

type op struct {
	kind   rt.OpKind
	obj    any
	arg    int
	result int
	// announced: a Lock call that found the mutex taken and now waits inside sync.RWMutex.Lock (from then on it holds back new
	// readers). A thread standing at Lock that has not been scheduled since is still before the call.
	announced bool
}

type thread struct {
	id       int
	resume   chan struct{}
	pending  *op
	started  bool
	done     bool
	vc       vclock
	panicVal any
}

type lockState struct {
	writer  int // thread id or -1
	readers map[int]int
	relW    vclock // released by writers
	relR    vclock // released by readers
}

type onceState struct {
	state int // 0 new, 1 running, 2 done
	by    int
	vc    vclock
}

type wgState struct {
	n  int
	vc vclock
}

type accessRec struct {
	tid   int
	clock int
	site  string
}

type locState struct {
	write *accessRec
	reads map[int]accessRec
}

type Race struct {
	Name, A, B string
	AWrite     bool
	BWrite     bool
}

func (r Race) Key() string {
	s := []string{r.A, r.B}
	sort.Strings(s)
	return r.Name + "@" + s[0] + "~" + s[1]
}

type Call struct {
	Thread           int
	Name             string
	Result           string
	CallAt, ReturnAt int
}

type Result struct {
	Deadlock    bool
	Blocked     []string
	Races       []Race
	Panics      map[int]any
	Unmodelled  []string
	Steps       int
	Contended   bool // some acquire operation found its lock held (the lock really mattered)
	Preemptions int
	History     []Call
}

type Sched struct {
	ctx     *explore.Ctx
	threads []*thread
	cur     int
	yield   chan int
	locks   map[any]*lockState
	onces   map[any]*onceState
	wgs     map[any]*wgState
	atomics map[any]vclock
	locs    map[string]*locState
	res     Result
	clock   int
}

func newVC(n int) vclock { return make(vclock, n) }

// Run executes the bodies as threads under the explorer's control and returns what happened.
func Run(ctx *explore.Ctx, bodies []func(s *Sched, tid int)) Result {
	n := len(bodies)
	s := &Sched{ctx: ctx, yield: make(chan int), locks: map[any]*lockState{}, onces: map[any]*onceState{}, wgs: map[any]*wgState{},
		atomics: map[any]vclock{}, locs: map[string]*locState{}, cur: -1}
	s.res.Panics = map[int]any{}
	rt.ResetKeep()
	old := debug.SetGCPercent(-1) // no address reuse inside one execution
	defer debug.SetGCPercent(old)
	for i := 0; i < n; i++ {
		t := &thread{id: i, resume: make(chan struct{}), vc: newVC(n)}
		t.vc[i] = 1
		s.threads = append(s.threads, t)
		body := bodies[i]
		go func() {
			<-t.resume
			defer func() {
				if p := recover(); p != nil {
					t.panicVal = p
				}
				t.done = true
				s.yield <- t.id
			}()
			body(s, t.id)
		}()
	}
	rt.H = s
	defer func() { rt.H = nil }()
	for {
		enabled := s.enabled()
		if len(enabled) == 0 {
			all := true
			for _, t := range s.threads {
				if !t.done {
					all = false
					s.res.Blocked = append(s.res.Blocked, fmt.Sprintf("thread %d blocked at %s", t.id, opName(t.pending)))
				}
			}
			if !all {
				s.res.Deadlock = true
			}
			break
		}
		// canonical order: the running thread first if still enabled, then ascending ids
		order := enabled
		curEnabled := false
		for _, e := range enabled {
			if e == s.cur {
				curEnabled = true
			}
		}
		if curEnabled {
			order = []int{s.cur}
			for _, e := range enabled {
				if e != s.cur {
					order = append(order, e)
				}
			}
		}
		pick := 0
		if len(order) > 1 {
			pick = ctx.Choose(len(order), "sched", func(i int) int {
				if curEnabled && i > 0 {
					return 1
				}
				return 0
			})
			if curEnabled && pick > 0 {
				s.res.Preemptions++
			}
		}
		t := s.threads[order[pick]]
		s.cur = t.id
		s.perform(t)
		s.res.Steps++
		if t.pending != nil {
			continue // the step only entered a Lock call that has to wait
		}
		t.started = true
		t.resume <- struct{}{}
		<-s.yield
	}
	for _, t := range s.threads {
		if t.panicVal != nil {
			s.res.Panics[t.id] = t.panicVal
		}
	}
	return s.res
}

func opName(o *op) string {
	if o == nil {
		return "start"
	}
	return fmt.Sprintf("%v(%p)", []string{"Lock", "Unlock", "RLock", "RUnlock", "OnceDo", "OnceDone", "WGAdd", "WGWait", "Atomic", "TryLock", "TryRLock", "Unmodelled"}[o.kind], o.obj)
}

func (s *Sched) lock(obj any) *lockState {
	l, ok := s.locks[obj]
	if !ok {
		l = &lockState{writer: -1, readers: map[int]int{}, relW: newVC(len(s.threads)), relR: newVC(len(s.threads))}
		s.locks[obj] = l
	}
	return l
}

func (s *Sched) isEnabled(t *thread) bool {
	if t.done {
		return false
	}
	o := t.pending
	if o == nil {
		return true
	}
	switch o.kind {
	case rt.OpLock:
		l := s.lock(o.obj)
		ok := l.writer == -1 && len(l.readers) == 0
		if !ok {
			s.res.Contended = true
		}
		return ok || !o.announced // entering the call (and starting to wait) is a step of its own
	case rt.OpRLock:
		l := s.lock(o.obj)
		if l.writer != -1 {
			s.res.Contended = true
		}
		// sync.RWMutex prefers writers: once a goroutine waits in Lock, no RLock succeeds before that writer has had its turn -
		// not even the RLock of a goroutine that already holds the lock for reading (a recursive read lock, then, deadlocks).
		// Only a Lock call that has begun and waits counts (op.announced): entering the call is a scheduling step of its own.
		return l.writer == -1 && !s.writerWaiting(o.obj, t.id)
	case rt.OpOnceDo:
		if st, ok := s.onces[o.obj]; ok && st.state == 1 && st.by != t.id {
			return false
		}
		return true
	case rt.OpWGWait:
		if w, ok := s.wgs[o.obj]; ok && w.n > 0 {
			return false
		}
		return true
	}
	return true
}

// writerWaiting reports whether a thread other than self stands at Lock of obj.
func (s *Sched) writerWaiting(obj any, self int) bool {
	for _, t := range s.threads {
		if t.id != self && !t.done && t.pending != nil && t.pending.kind == rt.OpLock && t.pending.obj == obj && t.pending.announced {
			return true
		}
	}
	return false
}

func (s *Sched) enabled() []int {
	var out []int
	for _, t := range s.threads {
		if s.isEnabled(t) {
			out = append(out, t.id)
		}
	}
	return out
}

// perform applies the pending (acquire-type) operation of the chosen thread to the model.
func (s *Sched) perform(t *thread) {
	o := t.pending
	if o == nil {
		return
	}
	if o.kind == rt.OpLock {
		if l := s.lock(o.obj); l.writer != -1 || len(l.readers) != 0 {
			o.announced = true // the call has begun and waits; the thread stays at this operation
			return
		}
	}
	t.pending = nil
	switch o.kind {
	case rt.OpLock:
		l := s.lock(o.obj)
		l.writer = t.id
		t.vc.join(l.relW)
		t.vc.join(l.relR)
	case rt.OpRLock:
		l := s.lock(o.obj)
		l.readers[t.id]++
		t.vc.join(l.relW)
	case rt.OpTryLock:
		l := s.lock(o.obj)
		if l.writer == -1 && len(l.readers) == 0 {
			l.writer = t.id
			t.vc.join(l.relW)
			t.vc.join(l.relR)
			o.result = 1
		}
	case rt.OpTryRLock:
		l := s.lock(o.obj)
		if l.writer == -1 && !s.writerWaiting(o.obj, t.id) {
			l.readers[t.id]++
			t.vc.join(l.relW)
			o.result = 1
		}
	case rt.OpOnceDo:
		st, ok := s.onces[o.obj]
		if !ok {
			st = &onceState{vc: newVC(len(s.threads))}
			s.onces[o.obj] = st
		}
		switch st.state {
		case 0:
			st.state, st.by = 1, t.id
			o.result = 1
		case 2:
			t.vc.join(st.vc)
		}
	case rt.OpWGWait:
		if w, ok := s.wgs[o.obj]; ok {
			t.vc.join(w.vc)
		}
	case rt.OpAtomic:
		a, ok := s.atomics[o.obj]
		if !ok {
			a = newVC(len(s.threads))
		}
		t.vc.join(a)
		s.atomics[o.obj] = t.vc.clone()
		t.vc[t.id]++
	}
}

// Sync implements verifrt.Hook. Acquire-type operations are scheduling points; release-type
// operations are applied at once (a preemption just before a release adds no behaviour that a
// preemption just after it does not have).
func (s *Sched) Sync(kind rt.OpKind, obj any, arg int) int {
	t := s.threads[s.cur]
	switch kind {
	case rt.OpUnlock:
		l := s.lock(obj)
		if l.writer != t.id {
			panic("sync: unlock of unlocked mutex (model)")
		}
		l.writer = -1
		l.relW = t.vc.clone()
		t.vc[t.id]++
		return 0
	case rt.OpRUnlock:
		l := s.lock(obj)
		if l.readers[t.id] == 0 {
			panic("sync: RUnlock of unlocked RWMutex (model)")
		}
		l.readers[t.id]--
		if l.readers[t.id] == 0 {
			delete(l.readers, t.id)
		}
		l.relR.join(t.vc)
		t.vc[t.id]++
		return 0
	case rt.OpOnceDone:
		st := s.onces[obj]
		st.state = 2
		st.vc = t.vc.clone()
		t.vc[t.id]++
		return 0
	case rt.OpWGAdd:
		w, ok := s.wgs[obj]
		if !ok {
			w = &wgState{vc: newVC(len(s.threads))}
			s.wgs[obj] = w
		}
		w.n += arg
		if arg < 0 {
			w.vc.join(t.vc)
			t.vc[t.id]++
		}
		return 0
	case rt.OpUnmodelled:
		s.res.Unmodelled = append(s.res.Unmodelled, fmt.Sprint(obj))
		return 0
	}
	o := &op{kind: kind, obj: obj, arg: arg}
	t.pending = o
	s.yield <- t.id
	<-t.resume
	return o.result
}

// Access implements verifrt.Hook: vector-clock race detection on (identity, name).
func (s *Sched) Access(id uintptr, name string, write bool, site string) {
	if s.cur < 0 {
		return
	}
	t := s.threads[s.cur]
	key := fmt.Sprintf("%x/%s", id, name)
	l, ok := s.locs[key]
	if !ok {
		l = &locState{reads: map[int]accessRec{}}
		s.locs[key] = l
	}
	report := func(prev accessRec, prevWrite bool) {
		for _, r := range s.res.Races {
			if r.Name == name && ((r.A == prev.site && r.B == site) || (r.A == site && r.B == prev.site)) {
				return
			}
		}
		s.res.Races = append(s.res.Races, Race{Name: name, A: prev.site, B: site, AWrite: prevWrite, BWrite: write})
	}
	if w := l.write; w != nil && w.tid != t.id && w.clock > t.vc[w.tid] {
		report(*w, true)
	}
	if write {
		for _, r := range l.reads {
			if r.tid != t.id && r.clock > t.vc[r.tid] {
				report(r, false)
			}
		}
		l.write = &accessRec{tid: t.id, clock: t.vc[t.id], site: site}
		l.reads = map[int]accessRec{}
	} else {
		l.reads[t.id] = accessRec{tid: t.id, clock: t.vc[t.id], site: site}
	}
}

// Record notes a completed call of a thread for the linearizability check.
func (s *Sched) Begin() int { s.clock++; return s.clock }

func (s *Sched) End(tid int, name, result string, callAt int) {
	s.clock++
	s.res.History = append(s.res.History, Call{Thread: tid, Name: name, Result: result, CallAt: callAt, ReturnAt: s.clock})
}
