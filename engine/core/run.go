// Package core is the bookkeeping shared by all checks: case counting, distinct-observation
// counting, violation classification against known_findings.txt, triple replay of a failing
// case, evidence and replay files, exit codes (0 held / 1 violation / 2 engine error).
package core

import (
	"crypto/sha256"
	"encoding/binary"
	"encoding/json"
	"fmt"
	"os"
	"path/filepath"
	"runtime"
	"runtime/debug"
	"sort"
	"strconv"
	"strings"
	"sync"
	"time"
)

// Root is the verification directory (run.sh exports VERIF_ROOT; default /verif).
func Root() string {
	if d := os.Getenv("VERIF_ROOT"); d != "" {
		return d
	}
	return "/verif"
}

// Fail describes one failing case. Key identifies the specific failing input/history (used to
// match known findings); What is one line for humans; Detail is written to the replay file.
type Fail struct {
	Key    string
	What   string
	Detail any
}

type known struct {
	key, what string
	seen      bool
}

type Run struct {
	Prop, Tier, Level string
	Seed              int64
	Rule              string
	Only              string // when set: execute only the case with this id (replay)
	Assumptions       []string
	Extra             map[string]any
	Exhaustive        bool
	Caps              []string

	mu            sync.Mutex
	start         time.Time
	evaluations   int64
	distinct      map[[8]byte]struct{}
	samples       []any
	maxSamples    int
	fails         []Fail
	failKeys      map[string]bool
	known         []*known
	States        int64
	Transitions   int64
	Traces        int64
	Deadline      time.Time
	classCount    map[string]int64
	distinctExtra int64
	unreproduced  int // failures whose case did not fail again when executed a second time (state kept by the code under test)
}

func New(prop, level string) *Run {
	r := &Run{Prop: prop, Level: level, Tier: "quick", start: time.Now(), Exhaustive: true,
		distinct: map[[8]byte]struct{}{}, failKeys: map[string]bool{}, Extra: map[string]any{},
		maxSamples: 6, classCount: map[string]int64{}}
	if t := os.Getenv("VERIF_TIER"); t == "quick" || t == "thorough" {
		r.Tier = t
	}
	if s := os.Getenv("VERIF_SEED"); s != "" {
		if v, err := strconv.ParseInt(s, 10, 64); err == nil {
			r.Seed = v
		}
	}
	r.Only = os.Getenv("VERIF_ONLY")
	if d := os.Getenv("VERIF_BUDGET_S"); d != "" {
		if v, err := strconv.Atoi(d); err == nil && v > 0 {
			r.Deadline = r.start.Add(time.Duration(v) * time.Second)
		}
	}
	r.loadKnown()
	current = r
	return r
}

func (r *Run) Thorough() bool { return r.Tier == "thorough" }

// Pick returns q in the quick tier and t in the thorough tier.
func Pick[T any](r *Run, q, t T) T {
	if r.Thorough() {
		return t
	}
	return q
}

func (r *Run) loadKnown() {
	b, err := os.ReadFile(filepath.Join(Root(), "known_findings.txt"))
	if err != nil {
		return
	}
	for _, line := range strings.Split(string(b), "\n") {
		line = strings.TrimSpace(line)
		if !strings.HasPrefix(line, "known:") {
			continue // "fixed:" lines and comments suppress nothing
		}
		f := strings.Fields(line)
		if len(f) < 3 || f[1] != "property="+r.Prop || !strings.HasPrefix(f[2], "key=") {
			continue
		}
		r.known = append(r.known, &known{key: strings.TrimPrefix(f[2], "key="), what: strings.Join(f[3:], " ")})
	}
}

// Expired reports whether the optional internal deadline has passed; a check that stops
// because of it must call Cap(...) so the run is reported as not exhaustive (exit code stays 0).
func (r *Run) Expired() bool { return !r.Deadline.IsZero() && time.Now().After(r.Deadline) }

func (r *Run) Cap(what string) {
	r.mu.Lock()
	defer r.mu.Unlock()
	r.Exhaustive = false
	for _, c := range r.Caps {
		if c == what {
			return
		}
	}
	r.Caps = append(r.Caps, what)
}

// Eval counts n executed cases.
func (r *Run) Eval(n int64) {
	r.mu.Lock()
	r.evaluations += n
	r.mu.Unlock()
}

// Class counts a case of a named outcome class (vacuity guards use Count/Require).
func (r *Run) Class(name string) {
	r.mu.Lock()
	r.classCount[name]++
	r.mu.Unlock()
}

func (r *Run) Count(name string) int64 {
	r.mu.Lock()
	defer r.mu.Unlock()
	return r.classCount[name]
}

// Require is a vacuity guard: the enumeration must have produced at least min cases of the
// class, otherwise the generator is broken (engine error, exit 2), never a verdict.
func (r *Run) Require(name string, min int64) {
	if r.Only != "" || r.Violations() > 0 {
		return // with violations reported the enumeration's outcome classes are legitimately skewed
	}
	if r.Count(name) < min {
		Engine("%s: vacuity guard: class %q seen %d times, need >= %d", r.Prop, name, r.Count(name), min)
	}
}

// Observe records a non-trivial observation; distinct ones are counted by hash.
func (r *Run) Observe(parts ...string) {
	h := sha256.New()
	for _, p := range parts {
		var l [4]byte
		binary.LittleEndian.PutUint32(l[:], uint32(len(p)))
		h.Write(l[:])
		h.Write([]byte(p))
	}
	var k [8]byte
	copy(k[:], h.Sum(nil))
	r.mu.Lock()
	r.distinct[k] = struct{}{}
	r.mu.Unlock()
}

// AddDistinct adds n cases that are distinct by construction (the check's rule says why).
func (r *Run) AddDistinct(n int64) {
	r.mu.Lock()
	r.distinctExtra += n
	r.mu.Unlock()
}

func (r *Run) Sample(v any) {
	r.mu.Lock()
	if len(r.samples) < r.maxSamples {
		r.samples = append(r.samples, v)
	}
	r.mu.Unlock()
}

// SampleN keeps a sample only when fewer than n samples with this tag were kept.
func (r *Run) SampleTag(tag string, n int, v any) {
	r.mu.Lock()
	k := "sample:" + tag
	if r.classCount[k] < int64(n) && len(r.samples) < 40 {
		r.classCount[k]++
		r.samples = append(r.samples, v)
	}
	r.mu.Unlock()
}

// Want tells whether the case with this id is to be executed (always, unless replaying one).
func (r *Run) Want(id string) bool { return r.Only == "" || r.Only == id }

// Case executes one case. fn returns nil when the property held. A failure is re-executed
// twice and must reproduce with the same key, otherwise it is an engine error (lost
// determinism), not a violation.
func (r *Run) Case(id string, fn func() *Fail) {
	if !r.Want(id) {
		return
	}
	r.Eval(1)
	inner := fn
	fn = func() (f *Fail) {
		// a panic of the code under test while answering a case is a failure of that case
		defer func() {
			if p := recover(); p != nil {
				f = &Fail{Key: id, What: fmt.Sprintf("panic while executing the case: %v", p), Detail: map[string]any{"panic": fmt.Sprint(p), "stack": string(debug.Stack())}}
			}
		}()
		return inner()
	}
	f := fn()
	if f == nil {
		return
	}
	if f.Detail == nil {
		f.Detail = map[string]any{}
	}
	for i := 0; i < 2; i++ {
		g := fn()
		if g == nil || g.Key != f.Key {
			// The inputs of a case are constants of the harness, so a verdict that changes when the same case is executed again
			// means that the code under test keeps state between calls (a pool, a cache, a remembered result): the failure that
			// was observed is real, it just depends on what the process did before. It is reported as observed, and marked.
			f.What += fmt.Sprintf(" [observed once; executing the same case again gave %v: the verdict depends on earlier calls in this process]", map[bool]string{true: "no failure", false: "another failure"}[g == nil])
			f.Detail = map[string]any{"reproduced_when_executed_again": false, "detail": f.Detail}
			r.mu.Lock()
			r.unreproduced++
			r.mu.Unlock()
			break
		}
	}
	r.Report(id, *f)
}

// Report records an already confirmed failure.
func (r *Run) Report(caseID string, f Fail) {
	r.mu.Lock()
	defer r.mu.Unlock()
	if r.failKeys[f.Key] {
		return
	}
	r.failKeys[f.Key] = true
	for _, k := range r.known {
		if k.key == f.Key {
			if !k.seen {
				k.seen = true
				fmt.Printf("KNOWN-FINDING: property=%s %s\n", r.Prop, k.what)
			}
			return
		}
	}
	f.Detail = map[string]any{"case": caseID, "detail": f.Detail}
	r.fails = append(r.fails, f)
}

func (r *Run) Evaluations() int64 { r.mu.Lock(); defer r.mu.Unlock(); return r.evaluations }

func (r *Run) Violations() int { r.mu.Lock(); defer r.mu.Unlock(); return len(r.fails) }

// Engine reports an engine / harness error: exit 2, never confused with a verdict.
func Engine(format string, a ...any) {
	fmt.Fprintf(os.Stderr, "ENGINE-ERROR: "+format+"\n", a...)
	os.Exit(2)
}

// Finish writes evidence and replay files, prints the verdict lines and exits.
func (r *Run) Finish() {
	root := Root()
	wall := time.Since(r.start).Seconds()
	if r.Only != "" {
		// replay mode: no evidence rewrite
		if len(r.fails) > 0 {
			for _, f := range r.fails {
				fmt.Printf("REPLAY reproduces: property=%s key=%s %s\n", r.Prop, f.Key, f.What)
			}
			os.Exit(1)
		}
		fmt.Printf("REPLAY: case %q did not fail (evaluations=%d)\n", r.Only, r.evaluations)
		os.Exit(0)
	}
	_ = os.MkdirAll(filepath.Join(root, "evidence"), 0o755)
	_ = os.MkdirAll(filepath.Join(root, "replays"), 0o755)
	old, _ := filepath.Glob(filepath.Join(root, "replays", r.Prop+"-*.json"))
	for _, o := range old {
		_ = os.Remove(o)
	}
	sort.Slice(r.fails, func(i, j int) bool { return r.fails[i].Key < r.fails[j].Key })
	var lines []string
	for i, f := range r.fails {
		if i >= 40 { // all violations are counted; only the first 40 get a replay file
			break
		}
		p := filepath.Join(root, "replays", fmt.Sprintf("%s-%d.json", r.Prop, i+1))
		b, _ := json.MarshalIndent(map[string]any{"property": r.Prop, "tier": r.Tier, "seed": r.Seed, "key": f.Key,
			"what": f.What, "input": f.Detail, "replay_cmd": fmt.Sprintf("./run.sh replay %s", p)}, "", " ")
		_ = os.WriteFile(p, b, 0o644)
		if i < 25 {
			lines = append(lines, fmt.Sprintf("VIOLATION property=%s replay=%s", r.Prop, p))
			w := f.What
			if len(w) > 300 {
				w = w[:300] + "..."
			}
			fmt.Fprintf(os.Stderr, "  %s: %s\n", printable(f.Key), printable(w))
		}
	}
	cov := map[string]any{}
	for k, v := range r.Extra {
		cov[k] = v
	}
	if len(r.samples) == 0 {
		r.samples = append(r.samples, "no sample recorded")
	}
	if r.unreproduced > 0 {
		cov["failures_not_reproduced_when_executed_again"] = r.unreproduced
	}
	cov["evaluations"] = r.evaluations
	cov["distinct_nontrivial"] = int64(len(r.distinct)) + r.distinctExtra
	cov["rule"] = r.Rule
	cov["samples"] = r.samples
	cov["exhaustive"] = r.Exhaustive
	if len(r.Caps) > 0 {
		cov["caps_hit"] = r.Caps
	}
	if r.Level == "model_checking" {
		cov["states"] = r.States
		cov["transitions"] = r.Transitions
		cov["traces_validated_against_impl"] = r.Traces
	}
	classes := map[string]int64{}
	for k, v := range r.classCount {
		if !strings.HasPrefix(k, "sample:") {
			classes[k] = v
		}
	}
	cov["outcome_classes"] = classes
	var kf []string
	for _, k := range r.known {
		if k.seen {
			kf = append(kf, k.key)
		}
	}
	cov["known_findings_observed"] = kf
	cov["gomaxprocs"] = runtime.GOMAXPROCS(0)
	ev := map[string]any{"property_id": r.Prop, "tier": r.Tier, "seed": r.Seed, "level": r.Level, "coverage": cov,
		"assumptions": r.Assumptions, "wall_s": wall, "violations": len(r.fails)}
	if r.Assumptions == nil {
		ev["assumptions"] = []string{}
	}
	b, err := json.MarshalIndent(ev, "", " ")
	if err != nil {
		Engine("evidence marshal: %v", err)
	}
	if err := os.WriteFile(filepath.Join(root, "evidence", r.Prop+".json"), b, 0o644); err != nil {
		Engine("evidence write: %v", err)
	}
	fmt.Printf("%s %s: evaluations=%d distinct=%d states=%d transitions=%d violations=%d known=%d exhaustive=%v wall=%.1fs\n",
		r.Prop, r.Tier, r.evaluations, int64(len(r.distinct))+r.distinctExtra, r.States, r.Transitions, len(r.fails), len(kf), r.Exhaustive, wall)
	for _, l := range lines {
		fmt.Println(l)
	}
	if len(r.fails) > 0 {
		os.Exit(1)
	}
	os.Exit(0)
}

// Parallel runs fn(i) for i in [0,n) on all cores (order of side effects is not defined; checks
// only aggregate through the Run's synchronized counters).
func Parallel(n int, fn func(i int)) {
	w := runtime.GOMAXPROCS(0)
	if s := os.Getenv("VERIF_PROCS"); s != "" {
		if v, err := strconv.Atoi(s); err == nil && v > 0 {
			w = v
		}
	}
	if w > n {
		w = n
	}
	if w <= 1 {
		for i := 0; i < n; i++ {
			guarded(fn, i)
		}
		return
	}
	var wg sync.WaitGroup
	var next int64
	var mu sync.Mutex
	for k := 0; k < w; k++ {
		wg.Add(1)
		go func() {
			defer wg.Done()
			for {
				mu.Lock()
				i := int(next)
				next++
				mu.Unlock()
				if i >= n {
					return
				}
				guarded(fn, i)
			}
		}()
	}
	wg.Wait()
}

// guarded runs fn(i); a panic that escapes a check's worker (the code under test panicked outside a
// Case) is recorded as a failure of the running check instead of crashing it.
func guarded(fn func(i int), i int) {
	defer func() {
		if p := recover(); p != nil {
			st := string(debug.Stack())
			frame := "unknown"
			for _, l := range strings.Split(st, "\n") {
				if strings.HasPrefix(l, "github.com/") && strings.Contains(l, "(") {
					frame = l[:strings.LastIndex(l, "(")]
					break
				}
			}
			if current != nil {
				current.Report(fmt.Sprintf("worker-item-%d", i), Fail{Key: "panic/" + frame, What: fmt.Sprintf("the code under test panicked: %v (first library frame %s)", p, frame),
					Detail: map[string]any{"panic": fmt.Sprint(p), "stack": st}})
			} else {
				panic(p)
			}
		}
	}()
	fn(i)
}

var current *Run

// Sequential has Parallel's signature but runs in order on the calling goroutine.
func Sequential(n int, fn func(i int)) {
	for i := 0; i < n; i++ {
		fn(i)
	}
}

func J(v any) string {
	b, err := json.Marshal(v)
	if err != nil {
		return fmt.Sprintf("%v", v)
	}
	return string(b)
}

// printable spells control characters out (a description line goes to a terminal or a text tool; the replay file has the exact bytes).
func printable(s string) string {
	var b strings.Builder
	for i := 0; i < len(s); i++ {
		if c := s[i]; c < 0x20 || c == 0x7f {
			fmt.Fprintf(&b, "\\x%02x", c)
		} else {
			b.WriteByte(c)
		}
	}
	return b.String()
}
