// Package syms builds the state-independent alphabet of pre-built anchored operations used by
// the C01 / C12 / C02 explorations: operation type x failure class x signing key type x window
// class, each with its own anchoring tuple and its own next commitments, plus the descriptor
// the reference state machine needs.
package syms

import (
	"bytes"
	"encoding/base64"
	"encoding/json"
	"fmt"
	"strings"

	"verif/gen/keys"
	"verif/gen/ops"
	"verif/ref/sidetree"

	"github.com/trustbloc/sidetree-go/pkg/api/operation"
	"github.com/trustbloc/sidetree-go/pkg/api/protocol"
)

type Sym struct {
	Name string
	Op   *operation.AnchoredOperation
	Desc sidetree.Desc
	Key  string // key type used for signing ("" for create)
}

const Code = 18

// Proto is the protocol the alphabet is built against: one patch action disabled, one curve
// and one algorithm not allowed, small delta limit, time delta 50.
func Proto() protocol.Protocol {
	p := ops.Proto()
	p.Patches = []string{"replace", "add-public-keys", "remove-public-keys", "add-services", "remove-services", "ietf-json-patch", "add-also-known-as"}
	p.KeyAlgorithms = []string{"Ed25519", "P-256", "secp256k1", "P-384"}
	p.MaxDeltaSize = 2500
	p.MaxOperationTimeDelta = 50
	return p
}

const Delta = 50

func inWindow(w ops.Window, t uint64) bool {
	if w.From == 0 && w.Until == 0 {
		return true
	}
	u := w.Until
	if u == 0 {
		u = w.From + Delta
	}
	return w.From <= int64(t) && int64(t) <= u
}

func flipSig(jwsStr string) string {
	parts := strings.Split(jwsStr, ".")
	sig, _ := base64.RawURLEncoding.DecodeString(parts[2])
	sig[len(sig)/2] ^= 0x10
	parts[2] = base64.RawURLEncoding.EncodeToString(sig)
	return strings.Join(parts, ".")
}

type builder struct {
	out []Sym
	n   int
}

func (b *builder) anchor() sidetree.Anchor {
	i := b.n
	return sidetree.Anchor{Time: uint64(1000 + 10*i), Number: uint64(5000 + i), Version: uint64(i % 3),
		Canonical: fmt.Sprintf("cr-%d", i), Equivalent: []string{fmt.Sprintf("er-%d-z", i), fmt.Sprintf("er-%d-a", i), fmt.Sprintf("er-%d-m", i)}}
}

func (b *builder) add(name, key string, typ operation.Type, suffix string, req []byte, d sidetree.Desc) {
	d.Type = string(typ)
	a := d.Anchor
	b.out = append(b.out, Sym{Name: name, Key: key, Desc: d, Op: &operation.AnchoredOperation{Type: typ, UniqueSuffix: suffix, OperationRequest: req,
		TransactionTime: a.Time, TransactionNumber: a.Number, ProtocolVersion: a.Version, CanonicalReference: a.Canonical,
		EquivalentReferences: a.Equivalent, AnchorOrigin: "ignored-envelope-origin"}})
	b.n++
}

func (b *builder) fresh(t string) *keys.Key  { return keys.New(t, 1000+3*b.n) }
func (b *builder) fresh2(t string) *keys.Key { return keys.New(t, 1001+3*b.n) }

var (
	pAddKey1 = func() any {
		return ops.AddKeysPatch("[" + ops.PubKeyJSON("k1", keys.New("P-256", 7), `["authentication"]`) + "]")
	}
	pAddKey2 = func() any {
		return ops.AddKeysPatch("[" + ops.PubKeyJSON("k2", keys.New("Ed25519", 7), `["assertionMethod","keyAgreement"]`) + "]")
	}
	pAddKey1b = func() any { return ops.AddKeysPatch("[" + ops.PubKeyJSON("k1", keys.New("P-256", 8), ``) + "]") }
	pAddSvc   = func() any {
		return ops.ParseJSON(`{"action":"add-services","services":[{"id":"s1","type":"T","serviceEndpoint":"https://s1.example/x"}]}`)
	}
	pRemoveKey1 = func() any { return ops.ParseJSON(`{"action":"remove-public-keys","ids":["k1"]}`) }
	pAKA        = func() any { return ops.ParseJSON(`{"action":"add-also-known-as","uris":["https://aka.example/1"]}`) }
	pJSONAdd    = func() any {
		return ops.ParseJSON(`{"action":"ietf-json-patch","patches":[{"op":"add","path":"/other","value":{"n":1}}]}`)
	}
	pJSONAdd2 = func() any {
		return ops.ParseJSON(`{"action":"ietf-json-patch","patches":[{"op":"add","path":"/other2","value":[1,2]}]}`)
	}
	pJSONBad = func() any {
		return ops.ParseJSON(`{"action":"ietf-json-patch","patches":[{"op":"remove","path":"/nonexistent"}]}`)
	}
	// a replace patch behind a patch that cannot be applied: the whole list is inapplicable
	pReplaceDoc = func() any {
		return ops.ParseJSON(`{"action":"replace","document":{"publicKeys":[` + ops.PubKeyJSON("kr", keys.New("P-256", 9), `["authentication"]`) + `],"services":[{"id":"sr","type":"T","serviceEndpoint":"https://sr.example/"}]}}`)
	}
	pDisabled = func() any { return ops.ParseJSON(`{"action":"remove-also-known-as","uris":["https://aka.example/1"]}`) }
	pInvalid  = func() any {
		return ops.ParseJSON(`{"action":"add-public-keys","publicKeys":[{"id":"bad id!","type":"JsonWebKey2020","publicKeyJwk":{"kty":"EC","crv":"P-256","x":"AA","y":"AA"}}]}`)
	}
	pReplace = func() any {
		return ops.ParseJSON(`{"action":"replace","document":{"publicKeys":[` + ops.PubKeyJSON("k3", keys.New("secp256k1", 7), `["authentication"]`) + `],"services":[]}}`)
	}
	pBig = func() any {
		return ops.ParseJSON(`{"action":"add-also-known-as","uris":["https://big.example/` + strings.Repeat("x", 2600) + `"]}`)
	}
)

// Alphabet builds the symbols. sigTypes are the key types for which the signature-relevant
// classes are generated; the remaining classes use Ed25519.
func Alphabet(sigTypes []string, suffix string) []Sym {
	b := &builder{}
	none := ops.Window{}
	late := false // second pass over the failure classes: the operation is also anchored after its window
	// ---------------- create ----------------
	mkCreate := func(name string, patches []any, origin any, tweak func(c ops.M, d *sidetree.Desc)) {
		rec, upd := b.fresh("Ed25519"), b.fresh2("P-256")
		c := ops.ValidCreate(rec, upd, patches, Code, origin)
		d := sidetree.Desc{DeltaBound: true, DeltaValid: true, InWindow: true, Patches: patches, UpdateCommitment: ops.Commitment(upd, Code),
			RecoveryCommitment: ops.Commitment(rec, Code), AnchorOrigin: origin, Anchor: b.anchor()}
		if tweak != nil {
			tweak(c, &d)
		}
		b.add("create/"+name, "", operation.TypeCreate, suffix, ops.Bytes(c), d)
	}
	mkCreate("valid-keys-services", []any{pAddKey1(), pAddSvc()}, "origin.example", nil)
	// a document that keeps a top-level member without entries (all services removed again; a replace without services)
	mkCreate("valid-service-member-left-empty", []any{pAddKey1(), pAddSvc(), ops.ParseJSON(`{"action":"remove-services","ids":["s1"]}`)}, "oe", nil)
	mkCreate("valid-replace-keys-only", []any{ops.ParseJSON(`{"action":"replace","document":{"publicKeys":[` + ops.PubKeyJSON("k1", keys.New("P-256", 7), `["authentication"]`) + `]}}`)}, "ok", nil)
	mkCreate("valid-aka-json", []any{pAKA(), pJSONAdd()}, ops.M{"a": 1.0, "b": []any{"x"}}, nil)
	mkCreate("valid-no-origin", []any{pAddKey2()}, nil, nil)
	mkCreate("delta-unbound", []any{pAddKey1()}, "o2", func(c ops.M, d *sidetree.Desc) {
		c["suffixData"].(ops.M)["deltaHash"] = ops.HashOf(ops.M{"other": 1}, Code)
		d.DeltaBound = false
	})
	mkCreate("delta-missing", []any{pAddKey1()}, "o3", func(c ops.M, d *sidetree.Desc) {
		delete(c, "delta")
		d.DeltaBound = false
	})
	rebind := func(c ops.M) { c["suffixData"].(ops.M)["deltaHash"] = ops.HashOf(c["delta"], Code) }
	mkCreate("delta-disabled-action", []any{pDisabled()}, "o4", func(c ops.M, d *sidetree.Desc) { d.DeltaValid = false })
	mkCreate("delta-invalid-patch", []any{pAddKey1(), pInvalid()}, "o5", func(c ops.M, d *sidetree.Desc) { d.DeltaValid = false })
	mkCreate("delta-no-patches", []any{pAddKey1()}, "o6", func(c ops.M, d *sidetree.Desc) {
		delete(c["delta"].(ops.M), "patches")
		rebind(c)
		d.DeltaValid = false
	})
	mkCreate("delta-bad-update-commitment", []any{pAddKey1()}, "o7", func(c ops.M, d *sidetree.Desc) {
		c["delta"].(ops.M)["updateCommitment"] = "not-a-multihash"
		rebind(c)
		d.DeltaValid = false
	})
	mkCreate("delta-oversize", []any{pBig()}, "o8", func(c ops.M, d *sidetree.Desc) { d.DeltaValid = false })
	// a delta whose canonical form has exactly the maximum delta size and holds characters that other JSON writers escape (& < > U+2028)
	pAtLimit := func(name string) any {
		mk := func(n int) any {
			return ops.ParseJSON(`{"action":"ietf-json-patch","patches":[{"op":"add","path":"/` + name + `","value":"a=1&b=<2>&c=\u2028&` + strings.Repeat("p", n) + `"}]}`)
		}
		size := func(n int) int {
			return len(ops.Canon(ops.Delta(ops.Commitment(keys.New("Ed25519", 1), Code), []any{mk(n)})))
		}
		n := int(Proto().MaxDeltaSize) - size(0)
		if size(n) != int(Proto().MaxDeltaSize) {
			panic("syms: cannot pad a delta to the size limit")
		}
		return mk(n)
	}
	mkCreate("delta-at-size-limit", []any{pAtLimit("padc")}, "o8b", nil)
	mkCreate("inapplicable", []any{pAddKey1(), pJSONBad()}, "o9", nil)
	mkCreate("inapplicable-before-replace", []any{pJSONBad(), pReplaceDoc(), pAKA()}, "o9r", nil)
	mkCreate("bad-recovery-commitment", []any{pAddKey1()}, "o10", func(c ops.M, d *sidetree.Desc) {
		c["suffixData"].(ops.M)["recoveryCommitment"] = "zzzz"
		d.Refused = true
	})
	mkCreate("sha512-delta-hash-not-configured", []any{pAddKey1()}, "o11", func(c ops.M, d *sidetree.Desc) {
		c["suffixData"].(ops.M)["deltaHash"] = ops.HashOf(c["delta"], 19)
		d.Refused = true
	})
	mkCreate("missing-suffix-data", []any{pAddKey1()}, "o12", func(c ops.M, d *sidetree.Desc) {
		delete(c, "suffixData")
		d.Refused = true
	})
	b.add("create/unparsable", "", operation.TypeCreate, suffix, []byte(`{"type":"create",`), sidetree.Desc{Refused: true, Anchor: b.anchor()})

	// ---------------- update ----------------
	mkUpdate := func(name, kt string, patches []any, w ops.Window, build func(signer, next *keys.Key, d *sidetree.Desc) ops.M) {
		signer, next := b.fresh(kt), b.fresh2("Ed25519")
		a := b.anchor()
		d := sidetree.Desc{DeltaBound: true, DeltaValid: true, Patches: patches, UpdateCommitment: ops.Commitment(next, Code), Anchor: a}
		if w.From == -1 { // relative windows: resolved against this symbol's own anchoring time
			w = none
		}
		if late { // second pass: the same failure classes on an operation that is also anchored after its window
			if build == nil {
				return
			}
			w = ops.Window{From: int64(a.Time) - 20, Until: int64(a.Time) - 1}
			name = "late+" + name
		}
		var req ops.M
		if build != nil {
			saved := none
			none = w // the failure-class builders read their window through this variable
			req = build(signer, next, &d)
			none = saved
		} else {
			req = ops.ValidUpdate(suffix, signer, next, patches, Code, w)
		}
		d.InWindow = inWindow(w, a.Time)
		b.add("update/"+name+"/"+kt, kt, operation.TypeUpdate, suffix, ops.Bytes(req), d)
	}
	e := "Ed25519"
	updates := func() {
		for _, kt := range sigTypes {
			kt := kt
			mkUpdate("valid-add-key", kt, []any{pAddKey2()}, none, nil)
			mkUpdate("bad-signature", kt, []any{pAddKey2()}, none, func(s, n *keys.Key, d *sidetree.Desc) ops.M {
				r := ops.ValidUpdate(suffix, s, n, []any{pAddKey2()}, Code, none)
				r["signedData"] = flipSig(r["signedData"].(string))
				d.Refused = true
				return r
			})
			mkUpdate("signed-by-other-key", kt, []any{pAddKey2()}, none, func(s, n *keys.Key, d *sidetree.Desc) ops.M {
				dl := ops.Delta(ops.Commitment(n, Code), []any{pAddKey2()})
				other := keys.New(kt, 900)
				r := ops.Request("update", suffix, ops.Reveal(s, Code), other.SignCompact(s.Header(), ops.Canon(ops.UpdatePayload(s, ops.HashOf(dl, Code), none))), dl)
				d.Refused = true
				return r
			})
		}
		mkUpdate("valid-remove-key", e, []any{pRemoveKey1()}, none, nil)
		mkUpdate("valid-replace-key", e, []any{pAddKey1b()}, none, nil)
		mkUpdate("valid-json-patch", e, []any{pJSONAdd2()}, none, nil)
		mkUpdate("valid-replace-doc", e, []any{pReplace(), pAKA()}, none, nil)
		mkUpdate("valid-nonce-key", e, []any{pAKA()}, none, func(s, n *keys.Key, d *sidetree.Desc) ops.M {
			return ops.ValidUpdate(suffix, s.WithNonce("AAAAAAAAAAAAAAAAAAAAAA"), n, []any{pAKA()}, Code, none)
		})
		mkUpdate("bad-nonce-size", e, []any{pAKA()}, none, func(s, n *keys.Key, d *sidetree.Desc) ops.M {
			d.Refused = true
			return ops.ValidUpdate(suffix, s.WithNonce("AAAA"), n, []any{pAKA()}, Code, none)
		})
		mkUpdate("delta-unbound", e, []any{pAKA()}, none, func(s, n *keys.Key, d *sidetree.Desc) ops.M {
			r := ops.ValidUpdate(suffix, s, n, []any{pAKA()}, Code, none)
			r["delta"] = ops.Delta(ops.Commitment(n, Code), []any{pAddKey1b()})
			d.Refused = true
			return r
		})
		mkUpdate("delta-invalid", e, []any{pInvalid()}, none, func(s, n *keys.Key, d *sidetree.Desc) ops.M {
			d.Refused = true
			return ops.ValidUpdate(suffix, s, n, []any{pInvalid()}, Code, none)
		})
		mkUpdate("delta-disabled-action", e, []any{pDisabled()}, none, func(s, n *keys.Key, d *sidetree.Desc) ops.M {
			d.Refused = true
			return ops.ValidUpdate(suffix, s, n, []any{pDisabled()}, Code, none)
		})
		mkUpdate("reveal-of-other-key", e, []any{pAKA()}, none, func(s, n *keys.Key, d *sidetree.Desc) ops.M {
			r := ops.ValidUpdate(suffix, s, n, []any{pAKA()}, Code, none)
			r["revealValue"] = ops.Reveal(keys.New(e, 901), Code)
			d.Refused = true
			return r
		})
		mkUpdate("extra-protected-header", e, []any{pAKA()}, none, func(s, n *keys.Key, d *sidetree.Desc) ops.M {
			dl := ops.Delta(ops.Commitment(n, Code), []any{pAKA()})
			js := s.SignCompact([]byte(`{"alg":"EdDSA","typ":"JWT"}`), ops.Canon(ops.UpdatePayload(s, ops.HashOf(dl, Code), none)))
			d.Refused = true
			return ops.Request("update", suffix, ops.Reveal(s, Code), js, dl)
		})
		mkUpdate("kid-header-allowed", e, []any{pAKA()}, none, func(s, n *keys.Key, d *sidetree.Desc) ops.M {
			dl := ops.Delta(ops.Commitment(n, Code), []any{pAKA()})
			js := s.SignCompact([]byte(`{"alg":"EdDSA","kid":"key-1"}`), ops.Canon(ops.UpdatePayload(s, ops.HashOf(dl, Code), none)))
			return ops.Request("update", suffix, ops.Reveal(s, Code), js, dl)
		})
		mkUpdate("algorithm-not-allowed", e, []any{pAKA()}, none, func(s, n *keys.Key, d *sidetree.Desc) ops.M {
			dl := ops.Delta(ops.Commitment(n, Code), []any{pAKA()})
			js := s.SignCompact([]byte(`{"alg":"HS256"}`), ops.Canon(ops.UpdatePayload(s, ops.HashOf(dl, Code), none)))
			d.Refused = true
			return ops.Request("update", suffix, ops.Reveal(s, Code), js, dl)
		})
		mkUpdate("curve-not-allowed", "P-521", []any{pAKA()}, none, func(s, n *keys.Key, d *sidetree.Desc) ops.M {
			d.Refused = true
			return ops.ValidUpdate(suffix, s, n, []any{pAKA()}, Code, none)
		})
		mkUpdate("inapplicable", e, []any{pAKA(), pJSONBad()}, none, nil)
		mkUpdate("inapplicable-before-replace", e, []any{pAKA(), pJSONBad(), pReplaceDoc()}, none, nil)
		mkUpdate("delta-at-size-limit", e, []any{pAtLimit("padu")}, none, nil)
		mkUpdate("unparsable", e, nil, none, func(s, n *keys.Key, d *sidetree.Desc) ops.M {
			d.Refused = true
			return ops.M{"type": "update", "didSuffix": suffix}
		})
	}
	updates()
	late = true
	updates()
	late = false
	// windows relative to the symbol's own anchoring time
	for _, wc := range []struct {
		name       string
		dFrom, dTo int64 // offsets from T; 0 offset = boundary; absent encoded by big negative
	}{{"window-in", -5, 5}, {"window-at-from", 0, 9}, {"window-at-until", -9, 0}, {"window-early", 1, 20}, {"window-late", -20, -1},
		{"window-default-expiry-in", -Delta, absent}, {"window-default-expiry-out", -Delta - 1, absent}, {"window-until-only-in", absent, 0}, {"window-until-only-out", absent, -1}} {
		wc := wc
		t := int64(b.anchor().Time)
		w := ops.Window{}
		if wc.dFrom != absent {
			w.From = t + wc.dFrom
		}
		if wc.dTo != absent {
			w.Until = t + wc.dTo
		}
		mkUpdate(wc.name, e, []any{pAKA()}, w, nil)
	}

	// ---------------- recover ----------------
	mkRecover := func(name, kt string, patches []any, origin any, w ops.Window, build func(signer, nr, nu *keys.Key, d *sidetree.Desc) ops.M) {
		signer, nr, nu := b.fresh(kt), b.fresh2("Ed25519"), keys.New("P-256", 1002+3*b.n)
		a := b.anchor()
		if late {
			if build == nil {
				return
			}
			w = ops.Window{From: int64(a.Time) - 20, Until: int64(a.Time) - 1}
			name = "late+" + name
		}
		d := sidetree.Desc{DeltaBound: true, DeltaValid: true, Patches: patches, UpdateCommitment: ops.Commitment(nu, Code),
			RecoveryCommitment: ops.Commitment(nr, Code), AnchorOrigin: origin, Anchor: a, InWindow: inWindow(w, a.Time)}
		var req ops.M
		if build != nil {
			saved := none
			none = w
			req = build(signer, nr, nu, &d)
			none = saved
		} else {
			req = ops.ValidRecover(suffix, signer, nr, nu, patches, Code, origin, w)
		}
		b.add("recover/"+name+"/"+kt, kt, operation.TypeRecover, suffix, ops.Bytes(req), d)
	}
	recovers := func() {
		for _, kt := range sigTypes {
			mkRecover("valid", kt, []any{pAddKey2(), pAKA()}, "recovered-origin-"+kt, none, nil)
			mkRecover("bad-signature", kt, []any{pAddKey2()}, "x", none, func(s, nr, nu *keys.Key, d *sidetree.Desc) ops.M {
				r := ops.ValidRecover(suffix, s, nr, nu, []any{pAddKey2()}, Code, "x", none)
				r["signedData"] = flipSig(r["signedData"].(string))
				d.Refused = true
				return r
			})
		}
		mkRecover("valid-no-origin", e, []any{pAddSvc()}, nil, none, nil)
		mkRecover("valid-object-origin", e, []any{pAddKey1()}, ops.M{"anchor": "obj"}, none, nil)
		mkRecover("delta-unbound", e, []any{pAddKey1()}, "ru", none, func(s, nr, nu *keys.Key, d *sidetree.Desc) ops.M {
			r := ops.ValidRecover(suffix, s, nr, nu, []any{pAddKey1()}, Code, "ru", none)
			r["delta"] = ops.Delta(ops.Commitment(nu, Code), []any{pAddKey2()})
			d.DeltaBound = false
			return r
		})
		mkRecover("delta-missing", e, []any{pAddKey1()}, "rm", none, func(s, nr, nu *keys.Key, d *sidetree.Desc) ops.M {
			r := ops.ValidRecover(suffix, s, nr, nu, []any{pAddKey1()}, Code, "rm", none)
			delete(r, "delta")
			d.DeltaBound = false
			return r
		})
		mkRecover("delta-invalid", e, []any{pInvalid()}, "ri", none, func(s, nr, nu *keys.Key, d *sidetree.Desc) ops.M {
			d.DeltaValid = false
			return ops.ValidRecover(suffix, s, nr, nu, []any{pInvalid()}, Code, "ri", none)
		})
		mkRecover("delta-disabled-action", e, []any{pDisabled()}, "rd", none, func(s, nr, nu *keys.Key, d *sidetree.Desc) ops.M {
			d.DeltaValid = false
			return ops.ValidRecover(suffix, s, nr, nu, []any{pDisabled()}, Code, "rd", none)
		})
		mkRecover("inapplicable", e, []any{pAddKey1(), pJSONBad()}, "rx", none, nil)
		mkRecover("inapplicable-before-replace", e, []any{pJSONBad(), pReplaceDoc()}, "rxr", none, nil)
		mkRecover("delta-at-size-limit", e, []any{pAtLimit("padr")}, "rl", none, nil)
		{
			t := int64(b.anchor().Time)
			mkRecover("window-late", e, []any{pAddKey1()}, "rw", ops.Window{From: t - 20, Until: t - 1}, nil)
		}
		{
			t := int64(b.anchor().Time)
			mkRecover("window-at-until", e, []any{pAddKey1()}, "rw2", ops.Window{From: t - 20, Until: t}, nil)
		}
		{
			t := int64(b.anchor().Time)
			mkRecover("window-default-expiry-out", e, []any{pAddKey1()}, "rw3", ops.Window{From: t - Delta - 1}, nil)
		}
		mkRecover("equal-next-commitments", e, []any{pAddKey1()}, "re", none, func(s, nr, nu *keys.Key, d *sidetree.Desc) ops.M {
			d.UpdateCommitment = ops.Commitment(nr, Code)
			return ops.ValidRecover(suffix, s, nr, nr, []any{pAddKey1()}, Code, "re", none)
		})
		mkRecover("reuses-signing-key", e, []any{pAddKey1()}, "rr", none, func(s, nr, nu *keys.Key, d *sidetree.Desc) ops.M {
			d.Refused = true
			return ops.ValidRecover(suffix, s, s, nu, []any{pAddKey1()}, Code, "rr", none)
		})
		mkRecover("reveal-of-other-key", e, []any{pAddKey1()}, "rv", none, func(s, nr, nu *keys.Key, d *sidetree.Desc) ops.M {
			r := ops.ValidRecover(suffix, s, nr, nu, []any{pAddKey1()}, Code, "rv", none)
			r["revealValue"] = ops.Reveal(keys.New(e, 902), Code)
			d.Refused = true
			return r
		})
		mkRecover("unparsable", e, nil, nil, none, func(s, nr, nu *keys.Key, d *sidetree.Desc) ops.M {
			d.Refused = true
			return ops.M{"type": "recover", "didSuffix": suffix, "revealValue": ops.Reveal(s, Code), "signedData": "a.b"}
		})

	}
	recovers()
	late = true
	recovers()
	late = false

	// ---------------- deactivate ----------------
	mkDeact := func(name, kt string, w ops.Window, build func(signer *keys.Key, d *sidetree.Desc) ops.M) {
		signer := b.fresh(kt)
		a := b.anchor()
		if late {
			if build == nil {
				return
			}
			w = ops.Window{From: int64(a.Time) - 20, Until: int64(a.Time) - 1}
			name = "late+" + name
		}
		d := sidetree.Desc{Anchor: a}
		var req ops.M
		if build != nil {
			saved := none
			none = w
			req = build(signer, &d)
			none = saved
		} else {
			req = ops.ValidDeactivate(suffix, signer, Code, w)
		}
		if !inWindow(w, a.Time) {
			d.Refused = true
		}
		b.add("deactivate/"+name+"/"+kt, kt, operation.TypeDeactivate, suffix, ops.Bytes(req), d)
	}
	deacts := func() {
		for _, kt := range sigTypes {
			mkDeact("valid", kt, none, nil)
			mkDeact("bad-signature", kt, none, func(s *keys.Key, d *sidetree.Desc) ops.M {
				r := ops.ValidDeactivate(suffix, s, Code, none)
				r["signedData"] = flipSig(r["signedData"].(string))
				d.Refused = true
				return r
			})
		}
		mkDeact("signed-suffix-mismatch", e, none, func(s *keys.Key, d *sidetree.Desc) ops.M {
			rv := ops.Reveal(s, Code)
			d.Refused = true
			return ops.Request("deactivate", suffix, rv, ops.Sign(s, ops.DeactivatePayload(s, "EiOtherSuffix", rv, none)), nil)
		})
		mkDeact("reveal-of-other-key", e, none, func(s *keys.Key, d *sidetree.Desc) ops.M {
			r := ops.ValidDeactivate(suffix, s, Code, none)
			r["revealValue"] = ops.Reveal(keys.New(e, 903), Code)
			d.Refused = true
			return r
		})
	}
	deacts()
	late = true
	deacts()
	late = false
	{
		t := int64(b.anchor().Time)
		mkDeact("window-late", e, ops.Window{From: t - 20, Until: t - 1}, nil)
	}
	{
		t := int64(b.anchor().Time)
		mkDeact("window-at-from", e, ops.Window{From: t, Until: t + 3}, nil)
	}
	{
		t := int64(b.anchor().Time)
		mkDeact("window-early", e, ops.Window{From: t + 1}, nil)
	}
	// anchored requests as an operation store may keep them: the same JSON value written with so much insignificant white space
	// that the text is longer than MaxOperationSize (the applier reads anchored operations in batch mode, where only the client
	// request was size-limited); same keys, anchoring tuple and expectation as the plain symbol
	first := "Ed25519"
	if len(sigTypes) > 0 {
		first = sigTypes[0]
	}
	for _, plain := range []string{"create/valid-keys-services", "update/valid-add-key/" + first, "recover/valid/" + first, "deactivate/valid/" + first} {
		for _, sy := range b.out {
			if sy.Name != plain {
				continue
			}
			var padded bytes.Buffer
			for width := 300; padded.Len() <= int(Proto().MaxOperationSize); width *= 2 {
				padded.Reset()
				if err := json.Indent(&padded, sy.Op.OperationRequest, "", strings.Repeat(" ", width)); err != nil {
					panic(fmt.Sprintf("syms: padded form of %s: %v", plain, err))
				}
			}
			op := *sy.Op
			op.OperationRequest = append(padded.Bytes(), '\n', ' ')
			b.out = append(b.out, Sym{Name: "padded+" + sy.Name, Key: sy.Key, Desc: sy.Desc, Op: &op})
			break
		}
	}
	return b.out
}

const absent = int64(-1 << 40)
