package syms

import (
	"fmt"

	"github.com/trustbloc/sidetree-go/pkg/api/operation"
	"github.com/trustbloc/sidetree-go/pkg/api/protocol"

	"verif/gen/keys"
	"verif/gen/ops"
	"verif/ref/sidetree"
)

// ProtoTwoAlgorithms is Proto with both hash algorithms configured (sha2-256 first).
func ProtoTwoAlgorithms() protocol.Protocol {
	p := Proto()
	p.MultihashAlgorithms = []uint{18, 19}
	return p
}

// AlphabetTwoAlgorithms is a small alphabet for a protocol that lists sha2-256 and sha2-512: operations whose hashes and
// commitments all use one of the two algorithms, operations that mix them, and recovers whose next recovery commitment is
// the commitment of the revealed key computed with the same or with the other algorithm (refused).
func AlphabetTwoAlgorithms(suffix string) []Sym {
	b := &builder{}
	b.n = 400 // keys and anchoring tuples disjoint from Alphabet's
	none := ops.Window{}
	e := "Ed25519"
	for _, code := range []uint64{18, 19} {
		other := uint64(37 - code)
		{
			rec, upd := b.fresh(e), b.fresh2("P-256")
			patches := []any{pAddKey1(), pAddSvc()}
			origin := fmt.Sprintf("origin-%d", code)
			b.add(fmt.Sprintf("create/valid/sha-%d", code), "", operation.TypeCreate, suffix, ops.Bytes(ops.ValidCreate(rec, upd, patches, code, origin)),
				sidetree.Desc{DeltaBound: true, DeltaValid: true, InWindow: true, Patches: patches, UpdateCommitment: ops.Commitment(upd, code), RecoveryCommitment: ops.Commitment(rec, code), AnchorOrigin: origin, Anchor: b.anchor()})
		}
		{
			// delta hash under one algorithm, commitments under the other
			rec, upd := b.fresh(e), b.fresh2("P-256")
			patches := []any{pAddKey2()}
			dl := ops.Delta(ops.Commitment(upd, other), patches)
			c := ops.Create(ops.SuffixData(ops.HashOf(dl, code), ops.Commitment(rec, other), "mixed", ""), dl)
			b.add(fmt.Sprintf("create/mixed/delta-hash-sha-%d", code), "", operation.TypeCreate, suffix, ops.Bytes(c),
				sidetree.Desc{DeltaBound: true, DeltaValid: true, InWindow: true, Patches: patches, UpdateCommitment: ops.Commitment(upd, other), RecoveryCommitment: ops.Commitment(rec, other), AnchorOrigin: "mixed", Anchor: b.anchor()})
		}
		{
			s, n := b.fresh(e), b.fresh2(e)
			patches := []any{pAKA()}
			b.add(fmt.Sprintf("update/valid/sha-%d", code), e, operation.TypeUpdate, suffix, ops.Bytes(ops.ValidUpdate(suffix, s, n, patches, code, none)),
				sidetree.Desc{DeltaBound: true, DeltaValid: true, InWindow: true, Patches: patches, UpdateCommitment: ops.Commitment(n, code), Anchor: b.anchor()})
		}
		{
			// reveal value under one algorithm, delta hash and next commitment under the other
			s, n := b.fresh(e), b.fresh2(e)
			patches := []any{pJSONAdd()}
			dl := ops.Delta(ops.Commitment(n, other), patches)
			rq := ops.Request("update", suffix, ops.Reveal(s, code), ops.Sign(s, ops.UpdatePayload(s, ops.HashOf(dl, other), none)), dl)
			b.add(fmt.Sprintf("update/mixed/reveal-sha-%d", code), e, operation.TypeUpdate, suffix, ops.Bytes(rq),
				sidetree.Desc{DeltaBound: true, DeltaValid: true, InWindow: true, Patches: patches, UpdateCommitment: ops.Commitment(n, other), Anchor: b.anchor()})
		}
		{
			s, nr, nu := b.fresh(e), b.fresh2(e), keys.New("P-256", 1002+3*b.n)
			patches := []any{pAddKey2(), pAKA()}
			origin := fmt.Sprintf("recovered-%d", code)
			b.add(fmt.Sprintf("recover/valid/sha-%d", code), e, operation.TypeRecover, suffix, ops.Bytes(ops.ValidRecover(suffix, s, nr, nu, patches, code, origin, none)),
				sidetree.Desc{DeltaBound: true, DeltaValid: true, InWindow: true, Patches: patches, UpdateCommitment: ops.Commitment(nu, code), RecoveryCommitment: ops.Commitment(nr, code), AnchorOrigin: origin, Anchor: b.anchor()})
		}
		{
			// reveal value under one algorithm, every other hash under the other
			s, nr, nu := b.fresh(e), b.fresh2(e), keys.New("P-256", 1002+3*b.n)
			patches := []any{pAddSvc()}
			dl := ops.Delta(ops.Commitment(nu, other), patches)
			rq := ops.Request("recover", suffix, ops.Reveal(s, code), ops.Sign(s, ops.RecoverPayload(s, ops.HashOf(dl, other), ops.Commitment(nr, other), nil, none)), dl)
			b.add(fmt.Sprintf("recover/mixed/reveal-sha-%d", code), e, operation.TypeRecover, suffix, ops.Bytes(rq),
				sidetree.Desc{DeltaBound: true, DeltaValid: true, InWindow: true, Patches: patches, UpdateCommitment: ops.Commitment(nu, other), RecoveryCommitment: ops.Commitment(nr, other), Anchor: b.anchor()})
		}
		for _, commitmentCode := range []uint64{code, other} {
			// the next recovery commitment is the commitment of the key that is being revealed, under the reveal value's algorithm or the other one
			s, nu := b.fresh(e), keys.New("P-256", 1002+3*b.n)
			patches := []any{pAddKey1()}
			dl := ops.Delta(ops.Commitment(nu, code), patches)
			rq := ops.Request("recover", suffix, ops.Reveal(s, code), ops.Sign(s, ops.RecoverPayload(s, ops.HashOf(dl, code), ops.Commitment(s, commitmentCode), "rr", none)), dl)
			b.add(fmt.Sprintf("recover/reuses-signing-key/reveal-sha-%d-commitment-sha-%d", code, commitmentCode), e, operation.TypeRecover, suffix, ops.Bytes(rq),
				sidetree.Desc{Refused: true, Anchor: b.anchor()})
		}
		{
			s := b.fresh(e)
			b.add(fmt.Sprintf("deactivate/valid/sha-%d", code), e, operation.TypeDeactivate, suffix, ops.Bytes(ops.ValidDeactivate(suffix, s, code, none)),
				sidetree.Desc{InWindow: true, Anchor: b.anchor()})
		}
	}
	return b.out
}
