// Package keys derives every key used by the checks deterministically (no randomness):
// Ed25519 from 32-byte seeds, EC keys from small scalars d (public key d*G). It also signs
// compact JWS by hand (own header bytes, Go crypto / dcrd RFC 6979), independent of the
// library's signers, so invalid classes can be produced and signatures are reproducible.
package keys

import (
	"crypto"
	"crypto/ecdsa"
	"crypto/ed25519"
	"crypto/elliptic"
	crand "crypto/rand"
	"crypto/sha256"
	"crypto/sha512"
	"encoding/base64"
	"encoding/binary"
	"fmt"
	"math/big"
	"sync"

	"github.com/btcsuite/btcd/btcec/v2"
	dcrd "github.com/decred/dcrd/dcrec/secp256k1/v4"
	dcrdecdsa "github.com/decred/dcrd/dcrec/secp256k1/v4/ecdsa"

	"github.com/trustbloc/sidetree-go/pkg/jws"
)

// Types in the order used everywhere (simplest first).
var Types = []string{"Ed25519", "P-256", "secp256k1", "P-384", "P-521"}

var Algs = map[string]string{"Ed25519": "EdDSA", "P-256": "ES256", "secp256k1": "ES256K", "P-384": "ES384", "P-521": "ES512"}

type Key struct {
	Type  string
	Index int
	Nonce string // base64url nonce placed in the JWK ("" = none)
	N, E  string // members of another key type (RSA) placed beside the key's own ("" = none): members like any other
	Ed    ed25519.PrivateKey
	EC    *ecdsa.PrivateKey
}

func b64(b []byte) string { return base64.RawURLEncoding.EncodeToString(b) }

func Curve(t string) elliptic.Curve {
	switch t {
	case "P-256":
		return elliptic.P256()
	case "P-384":
		return elliptic.P384()
	case "P-521":
		return elliptic.P521()
	case "secp256k1":
		return btcec.S256()
	}
	return nil
}

// Width is the byte width of a coordinate of the type.
func Width(t string) int {
	switch t {
	case "P-384":
		return 48
	case "P-521":
		return 66
	}
	return 32
}

// New derives key number idx (>= 0) of the type. EC: d = idx+1. Ed25519: seed = LE64(idx) zero padded.
func New(t string, idx int) *Key {
	k := &Key{Type: t, Index: idx}
	if t == "Ed25519" {
		seed := make([]byte, 32)
		binary.LittleEndian.PutUint64(seed, uint64(idx))
		k.Ed = ed25519.NewKeyFromSeed(seed)
		return k
	}
	c := Curve(t)
	if c == nil {
		panic("keys: unknown type " + t)
	}
	d := big.NewInt(int64(idx + 1))
	x, y := c.ScalarBaseMult(d.Bytes())
	k.EC = &ecdsa.PrivateKey{PublicKey: ecdsa.PublicKey{Curve: c, X: x, Y: y}, D: d}
	return k
}

func (k *Key) WithNonce(n string) *Key { c := *k; c.Nonce = n; return &c }

// WithNE is the same key whose JWK also carries n and e members.
func (k *Key) WithNE(n, e string) *Key { c := *k; c.N, c.E = n, e; return &c }

func (k *Key) Alg() string { return Algs[k.Type] }

func (k *Key) Public() any {
	if k.Ed != nil {
		return k.Ed.Public().(ed25519.PublicKey)
	}
	return &k.EC.PublicKey
}

func pad(b []byte, n int) []byte {
	if len(b) >= n {
		return b
	}
	out := make([]byte, n)
	copy(out[n-len(b):], b)
	return out
}

// XY returns the fixed-width coordinates (Ed25519: the 32 key bytes, nil).
func (k *Key) XY() ([]byte, []byte) {
	if k.Ed != nil {
		return []byte(k.Ed.Public().(ed25519.PublicKey)), nil
	}
	w := Width(k.Type)
	return pad(k.EC.X.Bytes(), w), pad(k.EC.Y.Bytes(), w)
}

// JWK is the library's public JWK model for the key, assembled by hand.
func (k *Key) JWK() *jws.JWK {
	x, y := k.XY()
	j := &jws.JWK{Nonce: k.Nonce, N: k.N, E: k.E}
	if k.Ed != nil {
		j.Kty, j.Crv, j.X = "OKP", "Ed25519", b64(x)
		return j
	}
	j.Kty, j.Crv, j.X, j.Y = "EC", k.Type, b64(x), b64(y)
	return j
}

// JWKMap is the JSON object the library's model serializes to: kty, crv, x, y always
// (y "" for Ed25519), nonce only when non-empty.
func (k *Key) JWKMap() map[string]any {
	j := k.JWK()
	m := map[string]any{"kty": j.Kty, "crv": j.Crv, "x": j.X, "y": j.Y}
	if j.Nonce != "" {
		m["nonce"] = j.Nonce
	}
	if j.N != "" {
		m["n"] = j.N
	}
	if j.E != "" {
		m["e"] = j.E
	}
	return m
}

type constReader byte

func (c constReader) Read(p []byte) (int, error) {
	for i := range p {
		p[i] = byte(c)
	}
	return len(p), nil
}

// FixRand replaces crypto/rand.Reader by a constant byte stream (owned nondeterminism: makes
// the library's ECDSA signers and default key generation reproducible).
func FixRand(c byte) { crand.Reader = constReader(c) }

func hashFor(t string) crypto.Hash {
	switch t {
	case "P-384":
		return crypto.SHA384
	case "P-521":
		return crypto.SHA512
	}
	return crypto.SHA256
}

// SignRaw signs msg: Ed25519 64 bytes; EC fixed-width r||s over the curve's JWS hash.
// Deterministic (constant nonce entropy mixed with key and digest by crypto/ecdsa; RFC 6979 for secp256k1).
func (k *Key) SignRaw(msg []byte) []byte {
	if k.Ed != nil {
		return ed25519.Sign(k.Ed, msg)
	}
	var digest []byte
	switch hashFor(k.Type) {
	case crypto.SHA384:
		h := sha512.Sum384(msg)
		digest = h[:]
	case crypto.SHA512:
		h := sha512.Sum512(msg)
		digest = h[:]
	default:
		h := sha256.Sum256(msg)
		digest = h[:]
	}
	w := Width(k.Type)
	if k.Type == "secp256k1" {
		priv := dcrd.PrivKeyFromBytes(pad(k.EC.D.Bytes(), 32))
		c := dcrdecdsa.SignCompact(priv, digest, true) // [recovery code] R(32) S(32)
		return append([]byte{}, c[1:65]...)
	}
	r, s, err := ecdsa.Sign(constReader(7), k.EC, digest)
	if err != nil {
		panic(err)
	}
	return append(pad(r.Bytes(), w), pad(s.Bytes(), w)...)
}

// SignCompact builds header.payload.signature with the given literal header JSON bytes.
func (k *Key) SignCompact(headerJSON, payload []byte) string {
	in := b64(headerJSON) + "." + b64(payload)
	return in + "." + b64(k.SignRaw([]byte(in)))
}

// Header is the protected header the library itself would emit for this key: {"alg":"<alg>"}.
func (k *Key) Header() []byte { return []byte(fmt.Sprintf(`{"alg":%q}`, k.Alg())) }

func (k *Key) String() string {
	n := ""
	if k.Nonce != "" {
		n = "+nonce"
	}
	return fmt.Sprintf("%s#%d%s", k.Type, k.Index, n)
}

var (
	lzMu    sync.Mutex
	lzCache = map[string][]*Key{}
	lzNext  = map[string]int{}
)

// WithLeadingZero returns the n-th key of the type (in index order) one of whose public coordinates begins with a zero byte:
// the keys on which fixed-width encodings differ from minimal ones (about one key in 128 per coordinate).
func WithLeadingZero(t string, n int) *Key {
	lzMu.Lock()
	defer lzMu.Unlock()
	for len(lzCache[t]) <= n {
		k := New(t, lzNext[t])
		lzNext[t]++
		x, y := k.XY()
		if x[0] == 0 || (y != nil && y[0] == 0) {
			lzCache[t] = append(lzCache[t], k)
		}
	}
	return lzCache[t][n]
}

// twoLeadingZeros lists, per curve, indices of derived keys whose X (first entry) / Y (second entry) coordinate begins with two
// zero bytes (P-521: three, its top byte holds one bit) - about one key in 2^16 per coordinate; found by cmd/lzsearch.
var twoLeadingZeros = map[string][2]int{"secp256k1": {44628, 41191}, "P-256": {40392, 2375}, "P-384": {14970, 93149}, "P-521": {10734, 63505}}

// bothLeadingZeros lists, per curve, the index of a derived key whose X and Y coordinates both begin with a zero byte (P-521: two).
var bothLeadingZeros = map[string]int{"secp256k1": 55958, "P-256": 49349, "P-384": 6393, "P-521": 370727}

// WithBothLeadingZeros returns the derived key of the curve whose two coordinates both begin with a zero byte.
func WithBothLeadingZeros(t string) *Key {
	idx, ok := bothLeadingZeros[t]
	if !ok {
		panic("keys: no both-leading-zero key for " + t)
	}
	k := New(t, idx)
	x, y := k.XY()
	if x[0] != 0 || y[0] != 0 {
		panic("keys: table of both-leading-zero keys is wrong for " + t)
	}
	return k
}

// WithTwoLeadingZeros returns the derived key of the curve whose X (which = 0) or Y (which = 1) coordinate begins with two zero bytes.
func WithTwoLeadingZeros(t string, which int) *Key {
	idx, ok := twoLeadingZeros[t]
	if !ok {
		panic("keys: no two-leading-zero key for " + t)
	}
	k := New(t, idx[which])
	x, y := k.XY()
	c := [][]byte{x, y}[which]
	if c[0] != 0 || c[1] != 0 {
		panic("keys: table of two-leading-zero keys is wrong for " + t)
	}
	return k
}

// PublicWithXAtLeastOrder returns the n-th public key (no private part; Index is -1-n) of the curve whose X coordinate is at least
// the group order N (and below the field prime P): valid points that a range check against N instead of P refuses.
func PublicWithXAtLeastOrder(t string, n int) *Key {
	c := Curve(t)
	if c == nil {
		panic("keys: unknown curve " + t)
	}
	p := c.Params()
	a := big.NewInt(-3)
	if t == "secp256k1" {
		a = big.NewInt(0)
	}
	x := new(big.Int).Set(p.N)
	for found := 0; ; x.Add(x, big.NewInt(1)) {
		if x.Cmp(p.P) >= 0 {
			panic("keys: no point with N <= x < P on " + t)
		}
		// y^2 = x^3 + a*x + b
		rhs := new(big.Int).Exp(x, big.NewInt(3), p.P)
		rhs.Add(rhs, new(big.Int).Mul(a, x))
		rhs.Add(rhs, p.B)
		rhs.Mod(rhs, p.P)
		y := new(big.Int).ModSqrt(rhs, p.P)
		if y == nil || !c.IsOnCurve(x, y) {
			continue
		}
		if found == n {
			return &Key{Type: t, Index: -1 - n, EC: &ecdsa.PrivateKey{PublicKey: ecdsa.PublicKey{Curve: c, X: new(big.Int).Set(x), Y: y}}}
		}
		found++
	}
}

// PublicWithX returns the public key (no private part; Index is -1000-x) of the curve with the given small X coordinate, or nil
// when no point of the curve has that X: coordinates that are zero or all zero bytes but the last.
func PublicWithX(t string, x int64) *Key {
	c := Curve(t)
	if c == nil {
		panic("keys: unknown curve " + t)
	}
	p := c.Params()
	a := big.NewInt(-3)
	if t == "secp256k1" {
		a = big.NewInt(0)
	}
	bx := big.NewInt(x)
	rhs := new(big.Int).Exp(bx, big.NewInt(3), p.P)
	rhs.Add(rhs, new(big.Int).Mul(a, bx))
	rhs.Add(rhs, p.B)
	rhs.Mod(rhs, p.P)
	y := new(big.Int).ModSqrt(rhs, p.P)
	if y == nil || !c.IsOnCurve(bx, y) {
		return nil
	}
	return &Key{Type: t, Index: int(-1000 - x), EC: &ecdsa.PrivateKey{PublicKey: ecdsa.PublicKey{Curve: c, X: bx, Y: y}}}
}

// Secp256k1WithYSquaredOne returns the six points of secp256k1 with Y = 1 or Y = P-1 (X a cube root of -6; no private part,
// Index -2000-n): the points for which x^3 + 7 reaches the field prime before it is reduced.
func Secp256k1WithYSquaredOne() []*Key {
	c := Curve("secp256k1")
	p := c.Params().P
	var out []*Key
	for _, xh := range []string{"1fe1e5ef3fceb5c135ab7741333ce5a6e80d68167653f6b2b24bcbcfaaaff507", "cbb0deab125754f1fdb2038b0434ed9cb3fb53ab735391129994a535d925f673", "146d3b65add9f54ccca28533c88e2cbc63f7443e1658783ab41f8ef97c2a10b5"} {
		x, _ := new(big.Int).SetString(xh, 16)
		for _, y := range []*big.Int{big.NewInt(1), new(big.Int).Sub(p, big.NewInt(1))} {
			if !c.IsOnCurve(x, y) {
				panic("keys: table of secp256k1 points with Y = +-1 is wrong")
			}
			out = append(out, &Key{Type: "secp256k1", Index: -2000 - len(out), EC: &ecdsa.PrivateKey{PublicKey: ecdsa.PublicKey{Curve: c, X: x, Y: y}}})
		}
	}
	return out
}
