// Package vals enumerates small JSON values (objects / arrays) with their re-serializations.
package vals

import (
	"fmt"
	"strconv"
)

// Value is one JSON text; Group identifies the JSON value it denotes (equal group <=> equal value).
type Value struct {
	Text  string
	Group int
}

// Set returns ~400 JSON texts: trees of depth <= 2, single-string and single-number arrays,
// and alternative spellings (member order, whitespace, escapes, number forms) of some of them.
// Thorough switches the larger value set on (depth-3 trees and more numbers).
var Thorough bool

func Set() []Value {
	var out []Value
	g := 0
	add := func(texts ...string) {
		for _, t := range texts {
			out = append(out, Value{t, g})
		}
		g++
	}
	leaves := []string{`"s"`, `1`, `true`, `false`, `null`, `{}`, `[]`}
	add(`{}`)
	add(`[]`)
	for _, a := range leaves {
		add("[" + a + "]")
		add(`{"b":` + a + `}`)
		add(`{"a":` + a + `}`)
	}
	for _, a := range leaves {
		for _, b := range leaves {
			add("["+a+","+b+"]", "[ "+a+" ,\n"+b+"\t]")
			add(`{"b":`+a+`,"a":`+b+`}`, `{"a":`+b+`,"b":`+a+`}`, `{ "a" : `+b+`, "b":`+a+` }`)
		}
	}
	strs := []string{``, `a`, `A`, `\n`, `\u0000`, `\u001f`, `\"`, `\\`, `/`, "\u007f", "\u0080", "߿", "ࠀ", "퟿", "", "￿", "\U00010000", "\U0010ffff", `<`, `&`, " ", `aa`, `ab`}
	for _, s := range strs {
		add(`["`+s+`"]`, `[ "`+s+`" ]`)
	}
	add(`["\/"]`, `["/"]`)
	add(`["\u000a"]`, `["\n"]`, `["\u000A"]`)
	// characters that decoders use as markers, written raw and escaped: U+FFFD (the replacement character), U+FFFE, U+FEFF
	add("[\"\ufffd\"]", `["\ufffd"]`, `["\uFFFD"]`)
	add("{\"a\ufffdb\":\"\ufffd\ufffd\"}", `{"a\ufffdb":"\ufffd\uFFFD"}`)
	add("[\"\ufffe\ufeff\"]", `["\ufffe\ufeff"]`)
	add(`["😀"]`, `["😀"]`)
	add(`{"a":1}`, `{"a":1}`, `{"a":1.0}`, `{"a":1e0}`, `{"a":10E-1}`)
	nums := []float64{0, 1, -1, 2, 10, 1e21, 1e-6, 1e-7, 999999999999999900000, 9007199254740992, 9007199254740993, 0.1, 0.5, 1.5, 5e-324, 1.7976931348623157e308, 123456789, 1e100, -1e-100, 3.14}
	for _, f := range nums {
		add("["+strconv.FormatFloat(f, 'g', -1, 64)+"]", "["+strconv.FormatFloat(f, 'e', 17, 64)+"]")
	}
	add(`[0]`, `[-0]`, `[0.0]`, `[0e5]`)
	if Thorough {
		var lvl2 []string
		for _, a := range leaves {
			lvl2 = append(lvl2, "["+a+"]", `{"b":`+a+`}`)
		}
		for _, a := range lvl2 {
			add("["+a+"]", "[\n"+a+"]")
			add(`{"c":` + a + `}`)
			for _, b := range leaves {
				add("[" + a + "," + b + "]")
				add(`{"z":`+a+`,"y":`+b+`}`, `{"y":`+b+`,"z":`+a+`}`)
			}
		}
		for e := -20; e <= 25; e++ {
			f, _ := strconv.ParseFloat(fmt.Sprintf("1e%d", e), 64)
			add("["+strconv.FormatFloat(f, 'g', -1, 64)+"]", "["+strconv.FormatFloat(f, 'e', 17, 64)+"]")
			g, _ := strconv.ParseFloat(fmt.Sprintf("3.5e%d", e), 64)
			add("[" + strconv.FormatFloat(g, 'g', -1, 64) + "]")
		}
	}
	// member names of every kind in both orders (ASCII, escapes, 2- and 3-byte UTF-8, BMP characters above the surrogate range and
	// supplementary-plane characters, whose UTF-16 order differs from their UTF-8 / code point order)
	names := []string{``, `a`, `aa`, `A`, `1`, `10`, `\u0000`, `\n`, `\"`, `\\`, `é`, `€`, "דּ", "דּa", "￿", "\U0001f600", "\U0001f600a", "\U00010000"}
	for i, a := range names {
		for _, b := range names[i+1:] {
			add(`{"`+a+`":1,"`+b+`":"v"}`, `{"`+b+`":"v","`+a+`":1}`)
		}
	}
	add(`{"publicKey":[{"id":"k1","type":"T"}],"service":[]}`, fmt.Sprintf(`{"service":[],"publicKey":[{"type":"T","id":%q}]}`, "k1"))
	add(`{"publicKey":[{"id":"k2","type":"T"}],"service":[]}`)
	add(`{"publicKey":[{"id":"k1","type":"T"}]}`)
	add(`{"publicKey":[{"id":"k1","type":"T"}],"service":null}`)
	// merge groups that denote equal values although generated separately
	return out
}
