// Package patches is the alphabet of validated patches used by the C10 / C12 / C14 explorations.
package patches

import (
	"fmt"

	"verif/gen/keys"
	"verif/gen/ops"
)

type Sym struct {
	Name string
	JSON string // the patch as JSON text
	Kind string // keys | services | aka | replace | json | json-corner
}

func key(id string, variant int) string {
	if variant == 0 {
		return ops.PubKeyJSON(id, keys.New("P-256", 30), `["authentication"]`)
	}
	return fmt.Sprintf(`{"id":%q,"type":"Ed25519VerificationKey2018","publicKeyBase58":"GY4GunSXBPBfhLCzDL7iGmP5dR3sBDCJZkkaGK8VgYQf","purposes":["assertionMethod","authentication"]}`, id)
}

func svc(id string, variant int) string {
	if variant == 0 {
		return fmt.Sprintf(`{"id":%q,"type":"TypeA","serviceEndpoint":"https://%s.example/a"}`, id, id)
	}
	return fmt.Sprintf(`{"id":%q,"type":"TypeB","serviceEndpoint":["https://%s.example/b1","https://%s.example/b2"],"priority":1}`, id, id, id)
}

func arr(items ...string) string {
	s := "["
	for i, it := range items {
		if i > 0 {
			s += ","
		}
		s += it
	}
	return s + "]"
}

func q(s string) string { return fmt.Sprintf("%q", s) }

// Alphabet returns the patch symbols. corner adds the RFC 6902 corner operations on which the
// pinned json-patch library is known to depart from the RFC (DESIGN.md D14/D15).
func Alphabet(corner bool) []Sym {
	var out []Sym
	add := func(kind, name, js string) { out = append(out, Sym{Name: name, JSON: js, Kind: kind}) }
	ids := []string{"k1", "k2", "k3"}
	for _, id := range ids {
		for v := 0; v < 2; v++ {
			add("keys", fmt.Sprintf("add-key/%s/v%d", id, v), `{"action":"add-public-keys","publicKeys":`+arr(key(id, v))+`}`)
		}
	}
	for _, a := range ids {
		for _, b := range ids {
			if a != b {
				add("keys", fmt.Sprintf("add-keys/%s+%s", a, b), `{"action":"add-public-keys","publicKeys":`+arr(key(a, 0), key(b, 1))+`}`)
			}
		}
	}
	rm := [][]string{{"k1"}, {"k2"}, {"k9"}, {"k1", "k2"}, {"k2", "k9"}, {"k1", "k9"}, {"k1", "k2", "k9"}, {"k3", "k1"}}
	for _, s := range rm {
		js := ""
		for i, id := range s {
			if i > 0 {
				js += ","
			}
			js += q(id)
		}
		add("keys", fmt.Sprintf("remove-keys/%v", s), `{"action":"remove-public-keys","ids":[`+js+`]}`)
	}
	// keys and services have separate id spaces: a service named like a key, a key named like a service
	add("services", "add-service/k1/v0", `{"action":"add-services","services":`+arr(svc("k1", 0))+`}`)
	add("keys", "add-key/s1/v0", `{"action":"add-public-keys","publicKeys":`+arr(key("s1", 0))+`}`)
	// a key whose JWK carries further members, among them ones that RFC 7518 uses for private key material: the patch value is the
	// caller's whatever it holds
	add("keys", "add-key/k2/jwk-with-further-members", `{"action":"add-public-keys","publicKeys":[{"id":"k2","type":"JsonWebKey2020","purposes":["authentication"],"publicKeyJwk":{"kty":"EC","crv":"P-256","x":"`+keys.New("P-256", 33).JWK().X+`","y":"`+keys.New("P-256", 33).JWK().Y+`","d":"870MB6gfuTJ4HtUnUvYMyJpr5eUZNP4Bk43bVdj3eAE","k":"c2VjcmV0","kid":"k2","key_ops":["verify"]}}]}`)
	sids := []string{"s1", "s2", "s3"}
	for _, id := range sids {
		for v := 0; v < 2; v++ {
			add("services", fmt.Sprintf("add-service/%s/v%d", id, v), `{"action":"add-services","services":`+arr(svc(id, v))+`}`)
		}
	}
	for _, a := range sids {
		for _, b := range sids {
			if a != b {
				add("services", fmt.Sprintf("add-services/%s+%s", a, b), `{"action":"add-services","services":`+arr(svc(a, 0), svc(b, 1))+`}`)
			}
		}
	}
	for _, s := range [][]string{{"s1"}, {"s2"}, {"s9"}, {"s1", "s2"}, {"s2", "s9"}, {"s1", "s9"}, {"s1", "s2", "s9"}, {"s3", "s1"}} {
		js := ""
		for i, id := range s {
			if i > 0 {
				js += ","
			}
			js += q(id)
		}
		add("services", fmt.Sprintf("remove-services/%v", s), `{"action":"remove-services","ids":[`+js+`]}`)
	}
	uris := []string{"https://u1.example/", "did:example:u2", "https://u3.example/x?y=1"}
	var lists [][]int
	for i := range uris {
		lists = append(lists, []int{i})
		for j := range uris {
			if i != j {
				lists = append(lists, []int{i, j})
			}
		}
	}
	lists = append(lists, []int{2, 0, 1})
	for _, l := range lists {
		js := ""
		for i, u := range l {
			if i > 0 {
				js += ","
			}
			js += q(uris[u])
		}
		add("aka", fmt.Sprintf("add-aka/%v", l), `{"action":"add-also-known-as","uris":[`+js+`]}`)
		add("aka", fmt.Sprintf("remove-aka/%v", l), `{"action":"remove-also-known-as","uris":[`+js+`]}`)
	}
	add("aka", "add-aka/unusual-spellings", `{"action":"add-also-known-as","uris":["HTTPS://Upper.example/Me","https://x.example/me#"]}`)
	add("aka", "remove-aka/unusual-spelling", `{"action":"remove-also-known-as","uris":["HTTPS://Upper.example/Me"]}`)
	add("aka", "add-aka/normalised-twin", `{"action":"add-also-known-as","uris":["https://Upper.example/Me"]}`)
	kopts := []string{``, arr(key("k1", 1)), arr(key("k2", 0), key("k4", 1))}
	sopts := []string{``, arr(svc("s1", 1)), arr(svc("s2", 0), svc("s4", 1))}
	for ki, k := range kopts {
		for si, s := range sopts {
			doc := ""
			if k != "" {
				doc += `"publicKeys":` + k
			}
			if s != "" {
				if doc != "" {
					doc += ","
				}
				doc += `"services":` + s
			}
			add("replace", fmt.Sprintf("replace/k%d-s%d", ki, si), `{"action":"replace","document":{`+doc+`}}`)
		}
	}
	jp := func(kind, name, opsJSON string) {
		add(kind, "json/"+name, `{"action":"ietf-json-patch","patches":`+opsJSON+`}`)
	}
	jp("json", "add-m", `[{"op":"add","path":"/m","value":{"n":1}}]`)
	jp("json", "add-m-n", `[{"op":"add","path":"/m/n","value":2}]`)
	jp("json", "add-m-k", `[{"op":"add","path":"/m/k","value":[true,null]}]`)
	jp("json", "replace-m-n", `[{"op":"replace","path":"/m/n","value":3}]`)
	jp("json", "remove-m-n", `[{"op":"remove","path":"/m/n"}]`)
	jp("json", "remove-m", `[{"op":"remove","path":"/m"}]`)
	jp("json", "add-a", `[{"op":"add","path":"/a","value":[1,2]}]`)
	jp("json", "add-a-0", `[{"op":"add","path":"/a/0","value":9}]`)
	jp("json", "add-a-end", `[{"op":"add","path":"/a/-","value":8}]`)
	jp("json", "remove-a-0", `[{"op":"remove","path":"/a/0"}]`)
	jp("json", "replace-a-0", `[{"op":"replace","path":"/a/0","value":7}]`)
	jp("json", "test-m-n-1", `[{"op":"test","path":"/m/n","value":1},{"op":"add","path":"/tested","value":true}]`)
	jp("json", "move-m-m2", `[{"op":"move","from":"/m","path":"/m2"}]`)
	jp("json", "move-m2-m", `[{"op":"move","from":"/m2","path":"/m"}]`)
	jp("json", "copy-m-n-to-c", `[{"op":"copy","from":"/m/n","path":"/c"}]`)
	jp("json", "add-escaped", `[{"op":"add","path":"/x~1y~0z","value":"esc"}]`)
	jp("json", "two-ops", `[{"op":"add","path":"/t","value":{}},{"op":"add","path":"/t/u","value":1}]`)
	// a later operation reads what an earlier operation of the same list wrote (RFC 6902: each operation applies to the result of the one before)
	jp("json", "replace-then-copy", `[{"op":"add","path":"/m","value":{"n":7}},{"op":"replace","path":"/m/n","value":8},{"op":"copy","from":"/m/n","path":"/c3"}]`)
	jp("json", "add-then-move", `[{"op":"add","path":"/fresh","value":{"k":1}},{"op":"move","from":"/fresh","path":"/moved"}]`)
	jp("json", "insert-then-copy-index", `[{"op":"add","path":"/a2","value":["x","y"]},{"op":"add","path":"/a2/0","value":"z"},{"op":"copy","from":"/a2/0","path":"/first"}]`)
	jp("json", "remove-then-copy-fails", `[{"op":"add","path":"/gone","value":1},{"op":"remove","path":"/gone"},{"op":"copy","from":"/gone","path":"/c4"}]`)
	// explicit null is a value like any other (RFC 6902 requires the member, not a non-null content), and so are false, 0, "" and []
	jp("json", "null-values", `[{"op":"add","path":"/nothing","value":null},{"op":"test","path":"/nothing","value":null},{"op":"replace","path":"/nothing","value":null},{"op":"add","path":"/alsoNothing","value":null}]`)
	jp("json", "empty-values", `[{"op":"add","path":"/f","value":false},{"op":"add","path":"/z","value":0},{"op":"add","path":"/e","value":""},{"op":"add","path":"/l","value":[]},{"op":"test","path":"/f","value":false},{"op":"replace","path":"/z","value":0}]`)
	// the also-known-as list written through JSON patches (it is not a protected member): an entry appended that may be there already,
	// and the whole list set to one with a repeated URI - remove-also-known-as takes a URI out wherever it occurs
	jp("json", "append-aka-u1", `[{"op":"add","path":"/alsoKnownAs/-","value":"https://u1.example/"}]`)
	jp("json", "set-aka-with-repeats", `[{"op":"add","path":"/alsoKnownAs","value":["https://u1.example/","did:example:u2","https://u1.example/","https://u3.example/x?y=1","did:example:u2"]}]`)
	jp("json", "fails-second", `[{"op":"add","path":"/t2","value":1},{"op":"remove","path":"/nonexistent"}]`)
	// a list whose second operation makes the RFC 6902 library panic (negative index) after the first one has been applied
	jp("json", "fails-second-by-library-panic", `[{"op":"add","path":"/pp","value":[1]},{"op":"replace","path":"/pp/-1","value":2}]`)
	// "other members" that carry the names of the resolved-document vocabulary, with key- and service-shaped content: they are
	// other members all the same and never take part in the key / service actions
	jp("json", "add-verificationMethod", `[{"op":"add","path":"/verificationMethod","value":[{"id":"vm1","type":"JsonWebKey2020","publicKeyJwk":{"kty":"EC","crv":"P-256","x":"eA","y":"eQ"},"purposes":["authentication"]}]}]`)
	jp("json", "add-services-member", `[{"op":"add","path":"/services","value":[{"id":"sx","type":"T","serviceEndpoint":"https://sx.example/"}]}]`)
	jp("json", "add-publicKeys-member", `[{"op":"add","path":"/publicKeys","value":[{"id":"kx","type":"JsonWebKey2020","publicKeyJwk":{"kty":"EC","crv":"P-256","x":"eA","y":"eQ"}}]}]`)
	jp("json", "add-authentication-member", `[{"op":"add","path":"/authentication","value":["#k1"]}]`)
	if corner {
		jp("json-corner", "copy-m-then-change-source", `[{"op":"copy","from":"/m","path":"/mc"},{"op":"add","path":"/m/n2","value":5}]`)
		jp("json-corner", "copy-m-then-change-target", `[{"op":"copy","from":"/m","path":"/mc"},{"op":"add","path":"/mc/n3","value":6}]`)
		jp("json-corner", "copy-a-then-change-source", `[{"op":"copy","from":"/a","path":"/ac"},{"op":"add","path":"/a/-","value":4}]`)
		jp("json-corner", "replace-missing", `[{"op":"replace","path":"/zz","value":1}]`)
		jp("json-corner", "copy-from-missing", `[{"op":"copy","from":"/missing","path":"/cm"}]`)
		jp("json-corner", "test-subset-object", `[{"op":"test","path":"/m","value":{"n":1,"k":2}},{"op":"add","path":"/tested2","value":true}]`)
		jp("json-corner", "test-missing-null", `[{"op":"test","path":"/missing","value":null},{"op":"add","path":"/tested3","value":true}]`)
		jp("json-corner", "move-to-array-index", `[{"op":"move","from":"/m","path":"/a/0"}]`)
		jp("json-corner", "copy-to-array-index", `[{"op":"copy","from":"/m","path":"/a/1"}]`)
		jp("json-corner", "copy-beyond-array-end", `[{"op":"copy","from":"/m","path":"/a/7"}]`)
		jp("json-corner", "move-beyond-array-end", `[{"op":"move","from":"/m","path":"/a/7"}]`)
		jp("json-corner", "add-beyond-array-end", `[{"op":"add","path":"/a/5","value":1}]`)
		jp("json-corner", "remove-array-out-of-range", `[{"op":"remove","path":"/a/7"}]`)
		jp("json-corner", "add-leading-zero-index", `[{"op":"add","path":"/a/00","value":1}]`)
		jp("json-corner", "move-m-n-to-a-end", `[{"op":"move","from":"/m/n","path":"/a/-"}]`)
		jp("json-corner", "test-number-forms", `[{"op":"test","path":"/m/n","value":1.0},{"op":"add","path":"/tested4","value":true}]`)
		jp("json-corner", "replace-root-member-null", `[{"op":"replace","path":"/m","value":null}]`)
		jp("json-corner", "copy-into-own-child", `[{"op":"copy","from":"/m","path":"/m/self"}]`)
		jp("json-corner", "remove-negative-index", `[{"op":"remove","path":"/a/-1"}]`)
		// from and path name the same location: a copy is an add of the value (an array grows by a duplicate, an object member stays),
		// a move takes the value out and puts it back
		jp("json-corner", "copy-a-0-onto-itself", `[{"op":"copy","from":"/a/0","path":"/a/0"}]`)
		jp("json-corner", "copy-a-1-onto-itself", `[{"op":"copy","from":"/a/1","path":"/a/1"}]`)
		jp("json-corner", "move-a-0-onto-itself", `[{"op":"move","from":"/a/0","path":"/a/0"}]`)
		jp("json-corner", "copy-m-onto-itself", `[{"op":"copy","from":"/m","path":"/m"}]`)
		jp("json-corner", "move-m-onto-itself", `[{"op":"move","from":"/m","path":"/m"}]`)
		jp("json-corner", "copy-a-1-to-a-0", `[{"op":"copy","from":"/a/1","path":"/a/0"}]`)
		jp("json-corner", "add-into-null", `[{"op":"add","path":"/m","value":null},{"op":"add","path":"/m2x","value":1}]`)
	}
	return out
}
