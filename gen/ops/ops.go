// Package ops assembles Sidetree operation requests by hand (JSON values + reference hashes +
// hand-made JWS), independent of the repository's request builders (which are a subject of
// C08, not a dependency of the other checks).
package ops

import (
	"encoding/json"

	"verif/gen/keys"
	"verif/ref/jcs"
	"verif/ref/mh"

	"github.com/trustbloc/sidetree-go/pkg/api/protocol"
)

type M = map[string]any

// Proto is the baseline protocol configuration used by the checks (limits generous, all
// five key types and all eight patch actions enabled).
func Proto() protocol.Protocol {
	return protocol.Protocol{
		GenesisTime:                  0,
		MultihashAlgorithms:          []uint{18},
		MaxOperationCount:            2,
		MaxOperationSize:             20000,
		MaxOperationHashLength:       100,
		MaxDeltaSize:                 10000,
		MaxCasURILength:              100,
		CompressionAlgorithm:         "GZIP",
		MaxChunkFileSize:             1024,
		MaxProvisionalIndexFileSize:  1024,
		MaxCoreIndexFileSize:         1024,
		MaxProofFileSize:             1024,
		Patches:                      []string{"replace", "add-public-keys", "remove-public-keys", "add-services", "remove-services", "ietf-json-patch", "add-also-known-as", "remove-also-known-as"},
		SignatureAlgorithms:          []string{"EdDSA", "ES256", "ES256K", "ES384", "ES512"},
		KeyAlgorithms:                []string{"Ed25519", "P-256", "secp256k1", "P-384", "P-521"},
		MaxOperationTimeDelta:        600,
		NonceSize:                    16,
		MaxMemoryDecompressionFactor: 3,
	}
}

func Canon(v any) []byte { return jcs.MustCanonGo(v) }

// Bytes is the canonical JSON encoding of a request value.
func Bytes(v any) []byte { return Canon(v) }

// Reveal = multihash(code, JCS(jwk)).
func Reveal(k *keys.Key, code uint64) string { return mh.MustHash(code, Canon(k.JWKMap())) }

// Commitment = multihash(code, H(JCS(jwk))).
func Commitment(k *keys.Key, code uint64) string {
	d, err := mh.Digest(code, Canon(k.JWKMap()))
	if err != nil {
		panic(err)
	}
	return mh.MustHash(code, d)
}

// ParseJSON parses a JSON literal into the generic value form (panics on bad literals: generator bug).
func ParseJSON(s string) any {
	var v any
	if err := json.Unmarshal([]byte(s), &v); err != nil {
		panic("ops: bad JSON literal: " + s + ": " + err.Error())
	}
	return v
}

func Delta(updateCommitment string, patches []any) M {
	d := M{}
	if updateCommitment != "" {
		d["updateCommitment"] = updateCommitment
	}
	if len(patches) > 0 {
		d["patches"] = patches
	}
	return d
}

func HashOf(v any, code uint64) string { return mh.MustHash(code, Canon(v)) }

type Window struct{ From, Until int64 }

func (w Window) put(m M) {
	if w.From != 0 {
		m["anchorFrom"] = w.From
	}
	if w.Until != 0 {
		m["anchorUntil"] = w.Until
	}
}

// SuffixData builds the suffix data object.
func SuffixData(deltaHash, recoveryCommitment string, anchorOrigin any, typ string) M {
	s := M{}
	if deltaHash != "" {
		s["deltaHash"] = deltaHash
	}
	if recoveryCommitment != "" {
		s["recoveryCommitment"] = recoveryCommitment
	}
	if anchorOrigin != nil {
		s["anchorOrigin"] = anchorOrigin
	}
	if typ != "" {
		s["type"] = typ
	}
	return s
}

func Create(suffixData, delta M) M {
	m := M{"type": "create"}
	if suffixData != nil {
		m["suffixData"] = suffixData
	}
	if delta != nil {
		m["delta"] = delta
	}
	return m
}

// ValidCreate: a create bound to its delta.
func ValidCreate(recovery, update *keys.Key, patches []any, code uint64, anchorOrigin any) M {
	d := Delta(Commitment(update, code), patches)
	return Create(SuffixData(HashOf(d, code), Commitment(recovery, code), anchorOrigin, ""), d)
}

func Suffix(create M, code uint64) string {
	return HashOf(create["suffixData"], code)
}

func UpdatePayload(signer *keys.Key, deltaHash string, w Window) M {
	p := M{"updateKey": signer.JWKMap(), "deltaHash": deltaHash}
	w.put(p)
	return p
}

func RecoverPayload(signer *keys.Key, deltaHash, nextRecoveryCommitment string, anchorOrigin any, w Window) M {
	p := M{"recoveryKey": signer.JWKMap(), "deltaHash": deltaHash, "recoveryCommitment": nextRecoveryCommitment}
	if anchorOrigin != nil {
		p["anchorOrigin"] = anchorOrigin
	}
	w.put(p)
	return p
}

func DeactivatePayload(signer *keys.Key, suffix, reveal string, w Window) M {
	p := M{"recoveryKey": signer.JWKMap(), "didSuffix": suffix}
	if reveal != "" {
		p["revealValue"] = reveal
	}
	w.put(p)
	return p
}

// Sign produces the compact JWS of the payload under the key with the standard header.
func Sign(signer *keys.Key, payload M) string {
	return signer.SignCompact(signer.Header(), Canon(payload))
}

func Request(typ, suffix, reveal, signedData string, delta M) M {
	m := M{"type": typ, "didSuffix": suffix, "revealValue": reveal, "signedData": signedData}
	if delta != nil {
		m["delta"] = delta
	}
	return m
}

// ValidUpdate signed by signer (whose commitment is assumed current), committing to next.
func ValidUpdate(suffix string, signer, next *keys.Key, patches []any, code uint64, w Window) M {
	d := Delta(Commitment(next, code), patches)
	return Request("update", suffix, Reveal(signer, code), Sign(signer, UpdatePayload(signer, HashOf(d, code), w)), d)
}

func ValidRecover(suffix string, signer, nextRecovery, nextUpdate *keys.Key, patches []any, code uint64, anchorOrigin any, w Window) M {
	d := Delta(Commitment(nextUpdate, code), patches)
	p := RecoverPayload(signer, HashOf(d, code), Commitment(nextRecovery, code), anchorOrigin, w)
	return Request("recover", suffix, Reveal(signer, code), Sign(signer, p), d)
}

func ValidDeactivate(suffix string, signer *keys.Key, code uint64, w Window) M {
	rv := Reveal(signer, code)
	return Request("deactivate", suffix, rv, Sign(signer, DeactivatePayload(signer, suffix, rv, w)), nil)
}

// Common patch values.
func AddKeysPatch(keysJSON string) any {
	return M{"action": "add-public-keys", "publicKeys": ParseJSON(keysJSON)}
}

func PubKeyJSON(id string, k *keys.Key, purposes string) string {
	j, _ := json.Marshal(M{"kty": k.JWK().Kty, "crv": k.JWK().Crv, "x": k.JWK().X, "y": k.JWK().Y})
	p := ""
	if purposes != "" {
		p = `,"purposes":` + purposes
	}
	return `{"id":"` + id + `","type":"JsonWebKey2020","publicKeyJwk":` + string(j) + p + `}`
}
