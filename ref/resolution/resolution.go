// Package resolution is the reference for property C18: the DID resolution result (document
// and metadata) expected for an internal document, state and transformer options. Written
// from the property statement and the DID-core / Sidetree resolution vocabulary.
package resolution

import (
	"encoding/base64"
	"math/big"
	"time"
)

type M = map[string]any

const (
	DIDContext = "https://www.w3.org/ns/did/v1"
	ResContext = "https://w3id.org/did-resolution/v1"
)

// KeyContexts is the documented context per verification-method type.
var KeyContexts = map[string]string{
	"Bls12381G2Key2020":                 "https://w3id.org/security/suites/bls12381-2020/v1",
	"JsonWebKey2020":                    "https://w3id.org/security/suites/jws-2020/v1",
	"EcdsaSecp256k1VerificationKey2019": "https://w3id.org/security/suites/secp256k1-2019/v1",
	"Ed25519VerificationKey2018":        "https://w3id.org/security/suites/ed25519-2018/v1",
	"Ed25519VerificationKey2020":        "https://w3id.org/security/suites/ed25519-2020/v1",
	"X25519KeyAgreementKey2019":         "https://w3id.org/security/suites/x25519-2019/v1",
}

const b58 = "123456789ABCDEFGHJKLMNPQRSTUVWXYZabcdefghijkmnopqrstuvwxyz"

// Base58 encodes with the Bitcoin alphabet.
func Base58(b []byte) string {
	x := new(big.Int).SetBytes(b)
	radix, zero, mod := big.NewInt(58), big.NewInt(0), new(big.Int)
	var out []byte
	for x.Cmp(zero) > 0 {
		x.DivMod(x, radix, mod)
		out = append(out, b58[mod.Int64()])
	}
	for _, c := range b {
		if c != 0 {
			break
		}
		out = append(out, '1')
	}
	for i, j := 0, len(out)-1; i < j; i, j = i+1, j-1 {
		out[i], out[j] = out[j], out[i]
	}
	return string(out)
}

type Options struct {
	Base          bool
	MethodContext []string
	Published     bool // include published operations
	Unpublished   bool // include unpublished operations
	KeyContexts   map[string]string
}

var relationship = map[string]string{"authentication": "authentication", "assertionMethod": "assertionMethod", "keyAgreement": "keyAgreement",
	"capabilityDelegation": "capabilityDelegation", "capabilityInvocation": "capabilityInvocation"}

// Document builds the expected external DID document. ok=false when a key type has no context (error expected).
func Document(internal M, did string, o Options) (M, bool) {
	kc := o.KeyContexts
	if len(kc) == 0 {
		kc = KeyContexts
	}
	ctx := []any{DIDContext}
	for _, c := range o.MethodContext {
		ctx = append(ctx, c)
	}
	if o.Base {
		ctx = append(ctx, M{"@base": did})
	}
	qualify := func(frag string) string {
		if o.Base {
			return "#" + frag
		}
		return did + "#" + frag
	}
	doc := M{"id": did}
	if aka, _ := internal["alsoKnownAs"].([]any); len(aka) > 0 {
		doc["alsoKnownAs"] = aka
	}
	var vms []any
	rels := map[string][]any{}
	var seenCtx []string
	keysList, _ := internal["publicKey"].([]any)
	for _, e := range keysList {
		k, ok := e.(map[string]any)
		if !ok {
			continue
		}
		kid, _ := k["id"].(string)
		typ, _ := k["type"].(string)
		vm := M{"id": qualify(kid), "type": typ, "controller": did}
		if jwk, ok := k["publicKeyJwk"].(map[string]any); ok {
			switch typ {
			case "Ed25519VerificationKey2018":
				x, _ := jwk["x"].(string)
				raw, _ := base64.RawURLEncoding.DecodeString(x)
				vm["publicKeyBase58"] = Base58(raw)
			case "Ed25519VerificationKey2020":
				x, _ := jwk["x"].(string)
				raw, _ := base64.RawURLEncoding.DecodeString(x)
				vm["publicKeyMultibase"] = "z" + Base58(raw)
			default:
				vm["publicKeyJwk"] = jwk
			}
		} else if b, ok := k["publicKeyBase58"].(string); ok && b != "" {
			vm["publicKeyBase58"] = b
		}
		c, ok := kc[typ]
		if !ok {
			return nil, false
		}
		dup := false
		for _, s := range seenCtx {
			if s == c {
				dup = true
			}
		}
		if !dup {
			seenCtx = append(seenCtx, c)
		}
		vms = append(vms, vm)
		ps, _ := k["purposes"].([]any)
		for _, p := range ps {
			if s, ok := p.(string); ok {
				if rel, ok := relationship[s]; ok {
					rels[rel] = append(rels[rel], qualify(kid))
				}
			}
		}
	}
	if len(vms) > 0 {
		doc["verificationMethod"] = vms
		for _, c := range seenCtx {
			ctx = append(ctx, c)
		}
	}
	for rel, ids := range rels {
		doc[rel] = ids
	}
	doc["@context"] = ctx
	var svcs []any
	sl, _ := internal["service"].([]any)
	for _, e := range sl {
		s, ok := e.(map[string]any)
		if !ok {
			continue
		}
		out := M{}
		for k, v := range s {
			out[k] = v
		}
		sid, _ := s["id"].(string)
		out["id"] = qualify(sid)
		svcs = append(svcs, out)
	}
	if len(svcs) > 0 {
		doc["service"] = svcs
	}
	return doc, true
}

// State is the part of the resolution model metadata depends on.
type State struct {
	UpdateCommitment, RecoveryCommitment string
	AnchorOrigin                         any
	Deactivated                          bool
	CreatedTime, UpdatedTime             uint64
	VersionID                            string
}

// Metadata builds the expected document metadata without the operation lists (those are judged separately).
func Metadata(s State, published bool, canonicalID any, equivalentID any) M {
	method := M{"published": published}
	if s.RecoveryCommitment != "" {
		method["recoveryCommitment"] = s.RecoveryCommitment
	}
	if s.UpdateCommitment != "" {
		method["updateCommitment"] = s.UpdateCommitment
	}
	if s.AnchorOrigin != nil {
		method["anchorOrigin"] = s.AnchorOrigin
	}
	md := M{"method": method}
	if s.Deactivated {
		md["deactivated"] = true
	}
	if canonicalID != nil {
		md["canonicalId"] = canonicalID
	}
	if equivalentID != nil {
		md["equivalentId"] = equivalentID
	}
	if published {
		md["created"] = time.Unix(int64(s.CreatedTime), 0).UTC().Format(time.RFC3339)
	}
	if s.VersionID != "" {
		md["versionId"] = s.VersionID
		if s.UpdatedTime > 0 {
			md["updated"] = time.Unix(int64(s.UpdatedTime), 0).UTC().Format(time.RFC3339)
		}
	}
	return md
}
