// Package mh is the reference for the encoded multihashes of the library:
// base64url-nopad( varint(code) || varint(len(digest)) || digest ), SHA-256 (0x12) and
// SHA-512 (0x13) only. Written from the multihash spec; depends on crypto/* only.
package mh

import (
	"crypto/sha256"
	"crypto/sha512"
	"encoding/base64"
	"errors"
)

const (
	SHA256 = 18
	SHA512 = 19
)

func Digest(code uint64, data []byte) ([]byte, error) {
	switch code {
	case SHA256:
		h := sha256.Sum256(data)
		return h[:], nil
	case SHA512:
		h := sha512.Sum512(data)
		return h[:], nil
	}
	return nil, errors.New("mh: unsupported code")
}

func putUvarint(b []byte, x uint64) []byte {
	for x >= 0x80 {
		b = append(b, byte(x)|0x80)
		x >>= 7
	}
	return append(b, byte(x))
}

// Raw wraps a digest: varint(code) varint(len) digest.
func Raw(code uint64, digest []byte) []byte {
	b := putUvarint(nil, code)
	b = putUvarint(b, uint64(len(digest)))
	return append(b, digest...)
}

func Enc(b []byte) string { return base64.RawURLEncoding.EncodeToString(b) }

// Hash = Enc(Raw(code, H(data))).
func Hash(code uint64, data []byte) (string, error) {
	d, err := Digest(code, data)
	if err != nil {
		return "", err
	}
	return Enc(Raw(code, d)), nil
}

func MustHash(code uint64, data []byte) string {
	s, err := Hash(code, data)
	if err != nil {
		panic(err)
	}
	return s
}

func uvarint(b []byte) (uint64, int) {
	var x uint64
	var s uint
	for i, c := range b {
		if i == 10 {
			return 0, -1
		}
		if c < 0x80 {
			return x | uint64(c)<<s, i + 1
		}
		x |= uint64(c&0x7f) << s
		s += 7
	}
	return 0, -1
}

// Decode splits an encoded multihash into (code, digest). Structural well-formedness only:
// strict unpadded base64url, two varints, digest length equal to the length field.
// Whether the code is known to the multihash table is not decided here.
func Decode(s string) (code uint64, digest []byte, err error) {
	b, err := base64.RawURLEncoding.Strict().DecodeString(s)
	if err != nil {
		return 0, nil, err
	}
	c, n := uvarint(b)
	if n <= 0 {
		return 0, nil, errors.New("mh: bad code varint")
	}
	l, m := uvarint(b[n:])
	if m <= 0 {
		return 0, nil, errors.New("mh: bad length varint")
	}
	d := b[n+m:]
	if uint64(len(d)) != l {
		return 0, nil, errors.New("mh: length mismatch")
	}
	return c, d, nil
}
