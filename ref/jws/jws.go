// Package jws is the independent reference verifier for compact JWS used as oracle by C02 and
// C15: split, decode, rebuild the signing input from the *decoded* header content, verify
// with crypto/ed25519, crypto/ecdsa (NIST curves) and dcrd's secp256k1 ECDSA (a different
// verifier than the library's crypto/ecdsa-over-btcec path).
package jws

import (
	"crypto/ecdsa"
	"crypto/ed25519"
	"crypto/elliptic"
	"crypto/sha256"
	"crypto/sha512"
	"encoding/base64"
	"encoding/json"
	"errors"
	"math/big"
	"strings"

	dcrd "github.com/decred/dcrd/dcrec/secp256k1/v4"
	dcrdecdsa "github.com/decred/dcrd/dcrec/secp256k1/v4/ecdsa"
)

type Parsed struct {
	Header  map[string]any
	Payload []byte
	Sig     []byte
}

var enc = base64.RawURLEncoding

// Parse splits a compact JWS: exactly three dot-separated unpadded base64url segments, the
// first a JSON object with an "alg" member, payload and signature non-empty.
func Parse(compact string) (*Parsed, error) {
	if strings.HasPrefix(compact, "{") {
		return nil, errors.New("JSON serialization")
	}
	parts := strings.Split(compact, ".")
	if len(parts) != 3 {
		return nil, errors.New("not three segments")
	}
	hb, err := enc.DecodeString(parts[0])
	if err != nil {
		return nil, err
	}
	var h map[string]any
	if err := json.Unmarshal(hb, &h); err != nil {
		return nil, err
	}
	if h == nil {
		return nil, errors.New("header is not an object")
	}
	if _, ok := h["alg"]; !ok {
		return nil, errors.New("no alg")
	}
	p, err := enc.DecodeString(parts[1])
	if err != nil {
		return nil, err
	}
	if len(p) == 0 {
		return nil, errors.New("empty payload")
	}
	s, err := enc.DecodeString(parts[2])
	if err != nil {
		return nil, err
	}
	if len(s) == 0 {
		return nil, errors.New("empty signature")
	}
	return &Parsed{Header: h, Payload: p, Sig: s}, nil
}

// SigningInput rebuilds b64(JSON(header)) "." b64(payload) from decoded content (members in
// sorted order, compact), which is what a verifier working on decoded content signs over.
func SigningInput(p *Parsed) ([]byte, error) {
	hb, err := json.Marshal(p.Header)
	if err != nil {
		return nil, err
	}
	return []byte(enc.EncodeToString(hb) + "." + enc.EncodeToString(p.Payload)), nil
}

func str(m map[string]any, k string) string {
	s, _ := m[k].(string)
	return s
}

func curveOf(crv string) (elliptic.Curve, int) {
	switch crv {
	case "P-256":
		return elliptic.P256(), 32
	case "P-384":
		return elliptic.P384(), 48
	case "P-521":
		return elliptic.P521(), 66
	}
	return nil, 0
}

// KeyOK reports whether the JWK object is a well-formed public key of a supported type:
// Ed25519 x of exactly 32 bytes; EC coordinates of exactly the curve width, point on curve.
func KeyOK(jwk map[string]any) bool {
	x, errx := enc.DecodeString(str(jwk, "x"))
	y, erry := enc.DecodeString(str(jwk, "y"))
	switch str(jwk, "kty") {
	case "OKP":
		return str(jwk, "crv") == "Ed25519" && errx == nil && len(x) == 32
	case "EC":
		if errx != nil || erry != nil {
			return false
		}
		if str(jwk, "crv") == "secp256k1" {
			if len(x) != 32 || len(y) != 32 {
				return false
			}
			_, err := dcrd.ParsePubKey(append(append([]byte{4}, x...), y...))
			return err == nil
		}
		c, w := curveOf(str(jwk, "crv"))
		if c == nil || len(x) != w || len(y) != w {
			return false
		}
		return c.IsOnCurve(new(big.Int).SetBytes(x), new(big.Int).SetBytes(y))
	}
	return false
}

// VerifyRaw verifies sig over msg under the JWK.
func VerifyRaw(jwk map[string]any, msg, sig []byte) bool {
	if !KeyOK(jwk) {
		return false
	}
	x, _ := enc.DecodeString(str(jwk, "x"))
	y, _ := enc.DecodeString(str(jwk, "y"))
	if str(jwk, "kty") == "OKP" {
		return ed25519.Verify(ed25519.PublicKey(x), msg, sig)
	}
	crv := str(jwk, "crv")
	if crv == "secp256k1" {
		if len(sig) != 64 {
			return false
		}
		pk, err := dcrd.ParsePubKey(append(append([]byte{4}, x...), y...))
		if err != nil {
			return false
		}
		var r, s dcrd.ModNScalar
		if r.SetByteSlice(sig[:32]) || s.SetByteSlice(sig[32:]) { // overflow => out of range
			return false
		}
		if r.IsZero() || s.IsZero() {
			return false
		}
		h := sha256.Sum256(msg)
		return dcrdecdsa.NewSignature(&r, &s).Verify(h[:], pk)
	}
	c, w := curveOf(crv)
	if len(sig) != 2*w {
		return false
	}
	var digest []byte
	switch w {
	case 32:
		h := sha256.Sum256(msg)
		digest = h[:]
	case 48:
		h := sha512.Sum384(msg)
		digest = h[:]
	default:
		h := sha512.Sum512(msg)
		digest = h[:]
	}
	pub := &ecdsa.PublicKey{Curve: c, X: new(big.Int).SetBytes(x), Y: new(big.Int).SetBytes(y)}
	return ecdsa.Verify(pub, digest, new(big.Int).SetBytes(sig[:w]), new(big.Int).SetBytes(sig[w:]))
}

// Verify parses and verifies; returns the payload when the signature verifies over the
// decoded content under the key.
func Verify(compact string, jwk map[string]any) ([]byte, bool) {
	p, err := Parse(compact)
	if err != nil {
		return nil, false
	}
	in, err := SigningInput(p)
	if err != nil {
		return nil, false
	}
	if !VerifyRaw(jwk, in, p.Sig) {
		return nil, false
	}
	return p.Payload, true
}
