// Package jcs is an independent reference implementation of RFC 8785 (JSON Canonicalization
// Scheme) over a parsed JSON value. It is written from the RFC text, not from the code under
// test: parse with encoding/json (UseNumber), sort members by UTF-16 code units, minimal
// escaping, ECMAScript Number::toString from strconv's shortest round-trip digits.
package jcs

import (
	"bytes"
	"encoding/json"
	"errors"
	"fmt"
	"io"
	"math"
	"sort"
	"strconv"
	"strings"
	"unicode/utf16"
)

// Parse decodes JSON text into map[string]any / []any / string / json.Number / bool / nil.
// Trailing garbage is an error.
func Parse(b []byte) (any, error) {
	d := json.NewDecoder(bytes.NewReader(b))
	d.UseNumber()
	var v any
	if err := d.Decode(&v); err != nil {
		return nil, err
	}
	if _, err := d.Token(); err != io.EOF {
		return nil, errors.New("trailing data")
	}
	return v, nil
}

// FromGo converts any Go value to the parsed form through encoding/json.
func FromGo(v any) (any, error) {
	if b, ok := v.([]byte); ok {
		return Parse(b)
	}
	b, err := json.Marshal(v)
	if err != nil {
		return nil, err
	}
	return Parse(b)
}

// Canon returns the RFC 8785 serialization of a parsed value.
func Canon(v any) ([]byte, error) {
	var sb bytes.Buffer
	if err := write(&sb, v); err != nil {
		return nil, err
	}
	return sb.Bytes(), nil
}

// CanonBytes = Canon(Parse(b)).
func CanonBytes(b []byte) ([]byte, error) {
	v, err := Parse(b)
	if err != nil {
		return nil, err
	}
	return Canon(v)
}

// CanonGo = Canon(FromGo(v)).
func CanonGo(v any) ([]byte, error) {
	p, err := FromGo(v)
	if err != nil {
		return nil, err
	}
	return Canon(p)
}

func MustCanonGo(v any) []byte {
	b, err := CanonGo(v)
	if err != nil {
		panic(err)
	}
	return b
}

func write(sb *bytes.Buffer, v any) error {
	switch t := v.(type) {
	case nil:
		sb.WriteString("null")
	case bool:
		if t {
			sb.WriteString("true")
		} else {
			sb.WriteString("false")
		}
	case string:
		writeString(sb, t)
	case json.Number:
		f, err := strconv.ParseFloat(string(t), 64)
		if err != nil {
			return err
		}
		s, err := Number(f)
		if err != nil {
			return err
		}
		sb.WriteString(s)
	case float64:
		s, err := Number(t)
		if err != nil {
			return err
		}
		sb.WriteString(s)
	case []any:
		sb.WriteByte('[')
		for i, e := range t {
			if i > 0 {
				sb.WriteByte(',')
			}
			if err := write(sb, e); err != nil {
				return err
			}
		}
		sb.WriteByte(']')
	case map[string]any:
		keys := make([]string, 0, len(t))
		for k := range t {
			keys = append(keys, k)
		}
		sort.Slice(keys, func(i, j int) bool { return LessUTF16(keys[i], keys[j]) })
		sb.WriteByte('{')
		for i, k := range keys {
			if i > 0 {
				sb.WriteByte(',')
			}
			writeString(sb, k)
			sb.WriteByte(':')
			if err := write(sb, t[k]); err != nil {
				return err
			}
		}
		sb.WriteByte('}')
	default:
		return fmt.Errorf("jcs: unsupported value %T", v)
	}
	return nil
}

// LessUTF16 orders strings by their UTF-16 code units (RFC 8785 section 3.2.3).
func LessUTF16(a, b string) bool {
	x, y := utf16.Encode([]rune(a)), utf16.Encode([]rune(b))
	for i := 0; i < len(x) && i < len(y); i++ {
		if x[i] != y[i] {
			return x[i] < y[i]
		}
	}
	return len(x) < len(y)
}

func writeString(sb *bytes.Buffer, s string) {
	sb.WriteByte('"')
	for _, r := range s {
		switch r {
		case '"':
			sb.WriteString(`\"`)
		case '\\':
			sb.WriteString(`\\`)
		case '\b':
			sb.WriteString(`\b`)
		case '\t':
			sb.WriteString(`\t`)
		case '\n':
			sb.WriteString(`\n`)
		case '\f':
			sb.WriteString(`\f`)
		case '\r':
			sb.WriteString(`\r`)
		default:
			if r < 0x20 {
				fmt.Fprintf(sb, `\u%04x`, r)
			} else {
				sb.WriteRune(r)
			}
		}
	}
	sb.WriteByte('"')
}

// Number formats a finite double as ECMAScript Number::toString(10) does.
func Number(f float64) (string, error) {
	if math.IsNaN(f) || math.IsInf(f, 0) {
		return "", errors.New("jcs: non-finite number")
	}
	if f == 0 {
		return "0", nil
	}
	sign := ""
	if f < 0 {
		sign = "-"
		f = -f
	}
	// shortest digits d1..dk and decimal exponent: f = 0.d1..dk * 10^n
	e := strconv.FormatFloat(f, 'e', -1, 64) // d.ddddde±xx
	mant, exp, _ := strings.Cut(e, "e")
	x, err := strconv.Atoi(exp)
	if err != nil {
		return "", err
	}
	digits := strings.Replace(mant, ".", "", 1)
	k := len(digits)
	n := x + 1
	var out string
	switch {
	case k <= n && n <= 21:
		out = digits + strings.Repeat("0", n-k)
	case 0 < n && n <= 21:
		out = digits[:n] + "." + digits[n:]
	case -6 < n && n <= 0:
		out = "0." + strings.Repeat("0", -n) + digits
	default:
		es := "+"
		ev := n - 1
		if ev < 0 {
			es = "-"
			ev = -ev
		}
		if k == 1 {
			out = digits + "e" + es + strconv.Itoa(ev)
		} else {
			out = digits[:1] + "." + digits[1:] + "e" + es + strconv.Itoa(ev)
		}
	}
	return sign + out, nil
}

// Equal reports JSON value equality (numbers compared as doubles, member order irrelevant).
func Equal(a, b any) bool {
	switch x := a.(type) {
	case nil:
		return b == nil
	case bool:
		y, ok := b.(bool)
		return ok && x == y
	case string:
		y, ok := b.(string)
		return ok && x == y
	case json.Number:
		fx, err := strconv.ParseFloat(string(x), 64)
		if err != nil {
			return false
		}
		switch y := b.(type) {
		case json.Number:
			fy, err := strconv.ParseFloat(string(y), 64)
			return err == nil && fx == fy
		case float64:
			return fx == y
		}
		return false
	case float64:
		switch y := b.(type) {
		case json.Number:
			fy, err := strconv.ParseFloat(string(y), 64)
			return err == nil && x == fy
		case float64:
			return x == y
		}
		return false
	case []any:
		y, ok := b.([]any)
		if !ok || len(x) != len(y) {
			return false
		}
		for i := range x {
			if !Equal(x[i], y[i]) {
				return false
			}
		}
		return true
	case map[string]any:
		y, ok := b.(map[string]any)
		if !ok || len(x) != len(y) {
			return false
		}
		for k, v := range x {
			w, ok := y[k]
			if !ok || !Equal(v, w) {
				return false
			}
		}
		return true
	}
	return false
}
