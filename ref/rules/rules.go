// Package rules is the independent predicate of property C13: which patches are valid.
// Written from the property statement and the documented type x purpose table.
package rules

import (
	"net/url"
	"regexp"
)

var idRe = regexp.MustCompile(`^[A-Za-z0-9_-]{1,50}$`)

var verification = map[string]bool{"Bls12381G2Key2020": true, "JsonWebKey2020": true, "EcdsaSecp256k1VerificationKey2019": true,
	"Ed25519VerificationKey2018": true, "Ed25519VerificationKey2020": true}
var agreement = map[string]bool{"Bls12381G2Key2020": true, "JsonWebKey2020": true, "EcdsaSecp256k1VerificationKey2019": true, "X25519KeyAgreementKey2019": true}
var general = map[string]bool{"Bls12381G2Key2020": true, "JsonWebKey2020": true, "EcdsaSecp256k1VerificationKey2019": true,
	"Ed25519VerificationKey2018": true, "Ed25519VerificationKey2020": true, "X25519KeyAgreementKey2019": true}

// PurposeTypes is the documented key type x purpose table.
var PurposeTypes = map[string]map[string]bool{"authentication": verification, "assertionMethod": verification, "capabilityDelegation": verification,
	"capabilityInvocation": verification, "keyAgreement": agreement}

func ValidID(id string) bool { return idRe.MatchString(id) }

// ValidURI: non-empty and an absolute URI (has a scheme, parses).
func ValidURI(s string) bool {
	if s == "" {
		return false
	}
	u, err := url.Parse(s)
	return err == nil && u.Scheme != ""
}

func str(m map[string]any, k string) (string, bool) {
	v, ok := m[k]
	if !ok {
		return "", false
	}
	s, _ := v.(string)
	return s, true
}

func validJWK(v any) bool {
	j, ok := v.(map[string]any)
	if !ok {
		return false
	}
	kty, _ := str(j, "kty")
	if kty == "" {
		return false
	}
	if kty == "RSA" {
		n, _ := str(j, "n")
		e, _ := str(j, "e")
		return n != "" && e != ""
	}
	crv, _ := str(j, "crv")
	x, _ := str(j, "x")
	return crv != "" && x != ""
}

func ValidKey(k map[string]any) bool {
	for m := range k {
		switch m {
		case "id", "type", "purposes", "publicKeyJwk", "publicKeyBase58":
		default:
			return false
		}
	}
	typ, hasType := str(k, "type")
	id, hasID := str(k, "id")
	if !hasType || !hasID || !ValidID(id) {
		return false
	}
	_, hasJWK := k["publicKeyJwk"]
	b58, hasB58 := str(k, "publicKeyBase58")
	if hasJWK == hasB58 {
		return false
	}
	var purposes []string
	if pv, ok := k["purposes"]; ok {
		l, _ := pv.([]any)
		for _, e := range l {
			if s, ok := e.(string); ok {
				purposes = append(purposes, s)
			}
		}
		if len(purposes) == 0 || len(purposes) > 5 {
			return false
		}
		for _, p := range purposes {
			allowed, known := PurposeTypes[p]
			if !known || !allowed[typ] {
				return false
			}
		}
	} else if !general[typ] {
		return false
	}
	if hasJWK {
		return validJWK(k["publicKeyJwk"])
	}
	// base58 material: not acceptable where a JWK is required
	return typ != "JsonWebKey2020" && b58 != ""
}

func validKeys(v any) bool {
	l, _ := v.([]any)
	seen := map[string]bool{}
	for _, e := range l {
		k, ok := e.(map[string]any)
		if !ok {
			continue
		}
		if !ValidKey(k) {
			return false
		}
		id, _ := str(k, "id")
		if seen[id] {
			return false
		}
		seen[id] = true
	}
	return true
}

func ValidService(s map[string]any) bool {
	id, _ := str(s, "id")
	typ, _ := str(s, "type")
	if !ValidID(id) || typ == "" || len(typ) > 30 {
		return false
	}
	ep, ok := s["serviceEndpoint"]
	if !ok || ep == nil {
		return false
	}
	switch t := ep.(type) {
	case string:
		return ValidURI(t)
	case []any:
		for _, e := range t {
			if u, ok := e.(string); ok && !ValidURI(u) {
				return false
			}
		}
	}
	return true
}

func validServices(v any) bool {
	l, _ := v.([]any)
	seen := map[string]bool{}
	for _, e := range l {
		s, ok := e.(map[string]any)
		if !ok {
			continue
		}
		if !ValidService(s) {
			return false
		}
		id, _ := str(s, "id")
		if seen[id] {
			return false
		}
		seen[id] = true
	}
	return true
}

func nonEmptyList(v any) ([]any, bool) {
	l, ok := v.([]any)
	return l, ok && len(l) > 0
}

// ValidPatch decides a patch given as a generic JSON object. ok=false when the patch has no
// supported action or lacks the action's value member.
func ValidPatch(p map[string]any) bool {
	action, _ := p["action"].(string)
	switch action {
	case "add-public-keys":
		l, ok := nonEmptyList(p["publicKeys"])
		return ok && validKeys(l)
	case "add-services":
		l, ok := nonEmptyList(p["services"])
		return ok && validServices(l)
	case "remove-public-keys", "remove-services":
		l, ok := nonEmptyList(p["ids"])
		if !ok {
			return false
		}
		for _, e := range l {
			if s, ok := e.(string); ok && !ValidID(s) {
				return false
			}
		}
		return true
	case "add-also-known-as", "remove-also-known-as":
		l, ok := nonEmptyList(p["uris"])
		if !ok {
			return false
		}
		seen := map[string]bool{}
		for _, e := range l {
			s, ok := e.(string)
			if !ok {
				continue
			}
			u, err := url.Parse(s)
			if err != nil {
				return false
			}
			if seen[u.String()] {
				return false
			}
			seen[u.String()] = true
		}
		return true
	case "replace":
		d, ok := p["document"].(map[string]any)
		if !ok {
			return false
		}
		for m := range d {
			if m != "publicKeys" && m != "services" {
				return false
			}
		}
		return validKeys(d["publicKeys"]) && validServices(d["services"])
	}
	return false
}

// ValidJSONPatch: the ietf-json-patch value is a non-empty list of operation objects, each with a
// string path outside the public keys and services (and, for move, a from outside them too).
func ValidJSONPatch(p map[string]any) bool {
	l, ok := nonEmptyList(p["patches"])
	if !ok {
		return false
	}
	protected := func(ptr string) bool {
		// the member itself or something inside it - not another member whose name merely begins the same way ("/services", "/publicKeys")
		for _, m := range []string{"/service", "/publicKey"} {
			if ptr == m || len(ptr) > len(m) && ptr[:len(m)+1] == m+"/" {
				return true
			}
		}
		return false
	}
	for _, e := range l {
		o, ok := e.(map[string]any)
		if !ok {
			return false
		}
		path, ok := o["path"].(string)
		if !ok || protected(path) || (path != "" && path[0] != '/') {
			return false
		}
		if from, ok := o["from"].(string); ok && from != "" && from[0] != '/' {
			return false
		}
		if kind, _ := o["op"].(string); kind == "move" {
			if from, ok := o["from"].(string); ok && protected(from) {
				return false
			}
		}
	}
	return true
}

// ValidAnyPatch covers all eight actions.
func ValidAnyPatch(p map[string]any) bool {
	if a, _ := p["action"].(string); a == "ietf-json-patch" {
		return ValidJSONPatch(p)
	}
	return ValidPatch(p)
}
