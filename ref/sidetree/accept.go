package sidetree

import (
	"encoding/base64"
	"encoding/json"
	"strings"

	"verif/ref/jcs"
	"verif/ref/mh"
	"verif/ref/rules"
)

// Config is the part of the protocol configuration the acceptance predicate depends on.
type Config struct {
	MaxOperationSize, MaxOperationHashLength, MaxDeltaSize, NonceSize uint64
	MultihashAlgorithms                                               []uint64
	SignatureAlgorithms, KeyAlgorithms, Patches                       []string
}

// Accepted describes what the parser must return for an acceptable request.
type Accepted struct {
	Type, Suffix string
	AnchorOrigin any
}

func has(l []string, s string) bool {
	for _, x := range l {
		if x == s {
			return true
		}
	}
	return false
}

func (c Config) hashOK(h string) bool {
	if uint64(len(h)) > c.MaxOperationHashLength {
		return false
	}
	code, _, err := mh.Decode(h)
	if err != nil {
		return false
	}
	for _, a := range c.MultihashAlgorithms {
		if a == code {
			return true
		}
	}
	return false
}

func sfield(m map[string]any, k string) string {
	s, _ := m[k].(string)
	return s
}

// deltaModel is the delta as the protocol model defines it (update commitment + patches).
func deltaModel(d map[string]any) map[string]any {
	m := map[string]any{}
	if s := sfield(d, "updateCommitment"); s != "" {
		m["updateCommitment"] = s
	}
	if l, ok := d["patches"].([]any); ok && len(l) > 0 {
		m["patches"] = l
	}
	return m
}

func (c Config) deltaOK(dv any) (map[string]any, bool) {
	d, ok := dv.(map[string]any)
	if !ok {
		return nil, false
	}
	l, ok := d["patches"].([]any)
	if !ok || len(l) == 0 {
		return nil, false
	}
	for _, e := range l {
		p, ok := e.(map[string]any)
		if !ok {
			return nil, false
		}
		a, _ := p["action"].(string)
		if !has(c.Patches, a) || !rules.ValidAnyPatch(p) {
			return nil, false
		}
	}
	if !c.hashOK(sfield(d, "updateCommitment")) {
		return nil, false
	}
	dm := deltaModel(d)
	if uint64(len(jcs.MustCanonGo(dm))) > c.MaxDeltaSize {
		return nil, false
	}
	return dm, true
}

// keyModel: the JWK as the protocol model defines it; ok=false if a member is not a string.
func keyModel(v any) (map[string]any, bool) {
	k, ok := v.(map[string]any)
	if !ok {
		return nil, false
	}
	out := map[string]any{}
	for _, f := range []string{"kty", "crv", "x", "y"} {
		if raw, present := k[f]; present && raw != nil {
			s, ok := raw.(string)
			if !ok {
				return nil, false
			}
			out[f] = s
		} else {
			out[f] = ""
		}
	}
	for _, f := range []string{"n", "e", "nonce"} {
		if raw, present := k[f]; present && raw != nil {
			s, ok := raw.(string)
			if !ok {
				return nil, false
			}
			if s != "" {
				out[f] = s
			}
		}
	}
	return out, true
}

func (c Config) keyOK(km map[string]any) bool {
	if sfield(km, "kty") == "" {
		return false
	}
	if sfield(km, "kty") == "RSA" {
		if sfield(km, "n") == "" || sfield(km, "e") == "" {
			return false
		}
	} else if sfield(km, "crv") == "" || sfield(km, "x") == "" {
		return false
	}
	if !has(c.KeyAlgorithms, sfield(km, "crv")) {
		return false
	}
	if n := sfield(km, "nonce"); n != "" {
		b, err := base64.RawURLEncoding.DecodeString(n)
		if err != nil || uint64(len(b)) != c.NonceSize {
			return false
		}
	}
	return true
}

func commitmentOf(km map[string]any, code uint64) (string, bool) {
	d, err := mh.Digest(code, jcs.MustCanonGo(km))
	if err != nil {
		return "", false
	}
	return mh.MustHash(code, d), true
}

// signedPayload applies the J-rules and returns the payload object.
func (c Config) signedPayload(sd string) (map[string]any, bool) {
	if sd == "" || strings.HasPrefix(sd, "{") {
		return nil, false
	}
	parts := strings.Split(sd, ".")
	if len(parts) != 3 {
		return nil, false
	}
	hb, err := base64.RawURLEncoding.DecodeString(parts[0])
	if err != nil {
		return nil, false
	}
	var h map[string]any
	if json.Unmarshal(hb, &h) != nil || h == nil {
		return nil, false
	}
	alg, ok := h["alg"].(string)
	if !ok || alg == "" || !has(c.SignatureAlgorithms, alg) {
		return nil, false
	}
	for k := range h {
		if k != "alg" && k != "kid" {
			return nil, false
		}
	}
	pb, err := base64.RawURLEncoding.DecodeString(parts[1])
	if err != nil || len(pb) == 0 {
		return nil, false
	}
	sb, err := base64.RawURLEncoding.DecodeString(parts[2])
	if err != nil || len(sb) == 0 {
		return nil, false
	}
	var p map[string]any
	if json.Unmarshal(pb, &p) != nil || p == nil {
		return nil, false
	}
	return p, true
}

func hashMatches(model any, h string) bool {
	code, _, err := mh.Decode(h)
	if err != nil {
		return false
	}
	got, err := mh.Hash(code, jcs.MustCanonGo(model))
	return err == nil && got == h
}

// Acceptable is the acceptance predicate of property C07 for the non-batch parser.
func Acceptable(c Config, request []byte) (*Accepted, bool) {
	if uint64(len(request)) > c.MaxOperationSize {
		return nil, false
	}
	var m map[string]any
	if json.Unmarshal(request, &m) != nil || m == nil {
		return nil, false
	}
	typ, _ := m["type"].(string)
	switch typ {
	case "create":
		sdv, ok := m["suffixData"].(map[string]any)
		if !ok {
			return nil, false
		}
		rc, dh := sfield(sdv, "recoveryCommitment"), sfield(sdv, "deltaHash")
		if !c.hashOK(rc) || !c.hashOK(dh) {
			return nil, false
		}
		dm, ok := c.deltaOK(m["delta"])
		if !ok || !hashMatches(dm, dh) || sfield(dm, "updateCommitment") == rc {
			return nil, false
		}
		if len(c.MultihashAlgorithms) == 0 {
			return nil, false
		}
		sm := map[string]any{}
		for _, f := range []string{"deltaHash", "recoveryCommitment", "type"} {
			if s := sfield(sdv, f); s != "" {
				sm[f] = s
			}
		}
		if ao, ok := sdv["anchorOrigin"]; ok && ao != nil {
			sm["anchorOrigin"] = ao
		}
		suffix, err := mh.Hash(c.MultihashAlgorithms[0], jcs.MustCanonGo(sm))
		if err != nil {
			return nil, false
		}
		return &Accepted{Type: typ, Suffix: suffix, AnchorOrigin: sdv["anchorOrigin"]}, true
	case "update", "recover", "deactivate":
		suffix, reveal := sfield(m, "didSuffix"), sfield(m, "revealValue")
		if suffix == "" || !c.hashOK(reveal) {
			return nil, false
		}
		p, ok := c.signedPayload(sfield(m, "signedData"))
		if !ok {
			return nil, false
		}
		keyName := "recoveryKey"
		if typ == "update" {
			keyName = "updateKey"
		}
		km, ok := keyModel(p[keyName])
		if !ok || !c.keyOK(km) {
			return nil, false
		}
		if !hashMatches(km, reveal) {
			return nil, false
		}
		acc := &Accepted{Type: typ, Suffix: suffix}
		if typ == "deactivate" {
			if sfield(p, "didSuffix") != suffix {
				return nil, false
			}
			return acc, true
		}
		if !c.hashOK(sfield(p, "deltaHash")) {
			return nil, false
		}
		dm, ok := c.deltaOK(m["delta"])
		if !ok {
			return nil, false
		}
		uc := sfield(dm, "updateCommitment")
		if typ == "update" {
			code, _, _ := mh.Decode(uc)
			if cur, ok := commitmentOf(km, code); !ok || cur == uc {
				return nil, false
			}
			return acc, true
		}
		rc := sfield(p, "recoveryCommitment")
		if !c.hashOK(rc) {
			return nil, false
		}
		code, _, _ := mh.Decode(rc)
		if cur, ok := commitmentOf(km, code); !ok || cur == rc {
			return nil, false
		}
		if uc == rc {
			return nil, false
		}
		acc.AnchorOrigin = p["anchorOrigin"]
		return acc, true
	}
	return nil, false
}
