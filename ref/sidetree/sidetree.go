// Package sidetree is the reference Sidetree v1 state machine of property C01, written from
// the property statement (DESIGN.md section 4, C01 table). It works on an abstract state and a
// descriptor of the operation (what it is, how far it is valid) - never on the real parser.
package sidetree

import (
	"encoding/json"

	"verif/ref/jcs"
	rpatch "verif/ref/patch"
)

// Anchor is the anchoring metadata tuple of an anchored operation.
type Anchor struct {
	Time, Number, Version uint64
	Canonical             string
	Equivalent            []string
}

// Desc describes one anchored operation to the model.
type Desc struct {
	Type string // create | update | recover | deactivate
	// Refused: the operation is malformed for the batch-mode parser, carries a bad signature,
	// or (update) has an unbound / invalid delta, or (deactivate) is out of window / suffix mismatch.
	Refused bool
	// how far the delta is good (create / recover degrade instead of refusing)
	DeltaBound, DeltaValid, InWindow bool
	Patches                          []any
	UpdateCommitment                 string // the delta's
	RecoveryCommitment               string // suffix data's (create) / signed data's (recover)
	AnchorOrigin                     any    // suffix data's (create) / signed data's (recover)
	Anchor                           Anchor
}

// State is the abstract resolution state (all 15 observable fields).
type State struct {
	HasDoc             bool
	Doc                map[string]any
	CreatedTime        uint64
	UpdatedTime        uint64
	LastTime           uint64
	LastNumber         uint64
	LastVersion        uint64
	UpdateCommitment   string
	RecoveryCommitment string
	Deactivated        bool
	AnchorOrigin       any
	Equivalent         []string
	Canonical          string
	VersionID          string
	Published          []string // identities of the operations in the lists (opaque to the model)
	Unpublished        []string
}

// Apply returns the next state, or ok=false when the operation is refused (previous state stays in force).
func Apply(s State, d Desc) (State, bool) {
	if d.Type == "create" {
		if s.HasDoc {
			return s, false
		}
	} else if !s.HasDoc {
		return s, false
	}
	if d.Refused {
		return s, false
	}
	n := State{HasDoc: true, Published: s.Published, Unpublished: s.Unpublished,
		LastTime: d.Anchor.Time, LastNumber: d.Anchor.Number, LastVersion: d.Anchor.Version, VersionID: d.Anchor.Canonical}
	patched := func(base map[string]any) (map[string]any, bool) {
		doc, err := rpatch.Apply(base, d.Patches)
		return doc, err == nil
	}
	switch d.Type {
	case "create":
		n.CreatedTime, n.UpdatedTime = d.Anchor.Time, 0
		n.Canonical, n.Equivalent = d.Anchor.Canonical, d.Anchor.Equivalent
		n.RecoveryCommitment, n.AnchorOrigin = d.RecoveryCommitment, d.AnchorOrigin
		n.Doc = map[string]any{}
		if d.DeltaBound && d.DeltaValid {
			n.UpdateCommitment = d.UpdateCommitment
			if doc, ok := patched(map[string]any{}); ok {
				n.Doc = doc
			}
		}
	case "update":
		n.CreatedTime, n.UpdatedTime = s.CreatedTime, d.Anchor.Time
		n.Canonical, n.Equivalent = s.Canonical, s.Equivalent
		n.RecoveryCommitment, n.AnchorOrigin = s.RecoveryCommitment, s.AnchorOrigin
		n.UpdateCommitment = d.UpdateCommitment
		n.Doc = s.Doc
		if d.InWindow {
			if doc, ok := patched(s.Doc); ok {
				n.Doc = doc
			}
		}
	case "recover":
		n.CreatedTime, n.UpdatedTime = s.CreatedTime, d.Anchor.Time
		n.Canonical, n.Equivalent = d.Anchor.Canonical, d.Anchor.Equivalent
		n.RecoveryCommitment, n.AnchorOrigin = d.RecoveryCommitment, d.AnchorOrigin
		n.Doc = map[string]any{}
		if d.DeltaBound && d.DeltaValid {
			n.UpdateCommitment = d.UpdateCommitment
			if d.InWindow {
				if doc, ok := patched(map[string]any{}); ok {
					n.Doc = doc
				}
			}
		}
	case "deactivate":
		n.CreatedTime, n.UpdatedTime = s.CreatedTime, d.Anchor.Time
		n.Canonical, n.Equivalent = s.Canonical, s.Equivalent
		n.AnchorOrigin = s.AnchorOrigin
		n.Doc = map[string]any{}
		n.Deactivated = true
	default:
		return s, false
	}
	return n, true
}

// Canon is the canonical text of a state (document through the observable projection).
func (s State) Canon() string {
	doc := "nil"
	if s.HasDoc {
		doc = rpatch.Project(s.Doc)
	}
	ao, _ := json.Marshal(s.AnchorOrigin)
	m := map[string]any{"doc": doc, "created": s.CreatedTime, "updated": s.UpdatedTime, "lastT": s.LastTime, "lastN": s.LastNumber,
		"lastV": s.LastVersion, "uc": s.UpdateCommitment, "rc": s.RecoveryCommitment, "deactivated": s.Deactivated, "ao": string(ao),
		"equiv": nz(s.Equivalent), "canonical": s.Canonical, "version": s.VersionID, "pub": nz(s.Published), "unpub": nz(s.Unpublished)}
	return string(jcs.MustCanonGo(m))
}

func nz(s []string) []string {
	if s == nil {
		return []string{}
	}
	return s
}

// Fields returns the state as a field map (for diffs in reports).
func (s State) Fields() map[string]string {
	doc := "nil"
	if s.HasDoc {
		doc = rpatch.Project(s.Doc)
	}
	ao, _ := json.Marshal(s.AnchorOrigin)
	j := func(v any) string { b, _ := json.Marshal(v); return string(b) }
	return map[string]string{"Doc": doc, "CreatedTime": j(s.CreatedTime), "UpdatedTime": j(s.UpdatedTime), "LastOperationTransactionTime": j(s.LastTime),
		"LastOperationTransactionNumber": j(s.LastNumber), "LastOperationProtocolVersion": j(s.LastVersion), "UpdateCommitment": s.UpdateCommitment,
		"RecoveryCommitment": s.RecoveryCommitment, "Deactivated": j(s.Deactivated), "AnchorOrigin": string(ao), "EquivalentReferences": j(nz(s.Equivalent)),
		"CanonicalReference": s.Canonical, "VersionID": s.VersionID, "PublishedOperations": j(nz(s.Published)), "UnpublishedOperations": j(nz(s.Unpublished))}
}
