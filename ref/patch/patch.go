// Package patch is the reference semantics of the eight Sidetree patch actions as stated by
// property C10 (a left fold over ordered key / service / also-known-as lists plus RFC 6902 on
// the remaining members). Written from the property statement and RFC 6902, not from the code.
package patch

import (
	"encoding/json"
	"errors"
	"fmt"
	"strconv"
	"strings"

	"verif/ref/jcs"
)

type M = map[string]any

// Clone deep-copies a generic JSON value.
func Clone(v any) any {
	switch t := v.(type) {
	case map[string]any:
		m := make(map[string]any, len(t))
		for k, e := range t {
			m[k] = Clone(e)
		}
		return m
	case []any:
		a := make([]any, len(t))
		for i, e := range t {
			a[i] = Clone(e)
		}
		return a
	}
	return v
}

func list(doc M, k string) []any {
	l, _ := doc[k].([]any)
	return l
}

func idOf(e any) string {
	m, _ := e.(map[string]any)
	s, _ := m["id"].(string)
	return s
}

func strs(v any) []string {
	l, _ := v.([]any)
	var out []string
	for _, e := range l {
		if s, ok := e.(string); ok {
			out = append(out, s)
		}
	}
	return out
}

// upsert: insert or replace by id keeping existing order, appending new entries.
func upsert(existing []any, add []any) []any {
	out := append([]any{}, existing...)
	for _, a := range add {
		done := false
		for i, e := range out {
			if idOf(e) == idOf(a) {
				out[i] = Clone(a)
				done = true
			}
		}
		if !done {
			out = append(out, Clone(a))
		}
	}
	return out
}

func removeIDs(existing []any, ids []string) []any {
	var out []any
	for _, e := range existing {
		drop := false
		for _, id := range ids {
			if idOf(e) == id {
				drop = true
			}
		}
		if !drop {
			out = append(out, e)
		}
	}
	return out
}

func setList(doc M, k string, l []any) {
	if len(l) == 0 {
		doc[k] = nil // null / absent / [] are one observation (see Project)
		return
	}
	doc[k] = l
}

// ApplyOne applies one patch (a generic JSON object with "action") to a copy of doc.
func ApplyOne(doc M, p M) (M, error) {
	d := Clone(doc).(M)
	action, _ := p["action"].(string)
	switch action {
	case "add-public-keys":
		setList(d, "publicKey", upsert(list(d, "publicKey"), toList(p["publicKeys"])))
	case "remove-public-keys":
		setList(d, "publicKey", removeIDs(list(d, "publicKey"), strs(p["ids"])))
	case "add-services":
		setList(d, "service", upsert(list(d, "service"), toList(p["services"])))
	case "remove-services":
		setList(d, "service", removeIDs(list(d, "service"), strs(p["ids"])))
	case "add-also-known-as":
		cur := strs(d["alsoKnownAs"])
		out := []any{}
		for _, c := range cur {
			out = append(out, c)
		}
		for _, u := range strs(p["uris"]) {
			found := false
			for _, c := range cur {
				if c == u {
					found = true
				}
			}
			if !found {
				out = append(out, u)
			}
		}
		setList(d, "alsoKnownAs", out)
	case "remove-also-known-as":
		var out []any
		rm := strs(p["uris"])
		for _, c := range strs(d["alsoKnownAs"]) {
			drop := false
			for _, u := range rm {
				if u == c {
					drop = true
				}
			}
			if !drop {
				out = append(out, c)
			}
		}
		setList(d, "alsoKnownAs", out)
	case "replace":
		rd, _ := p["document"].(map[string]any)
		n := M{}
		setList(n, "publicKey", toList(Clone(rd["publicKeys"])))
		setList(n, "service", toList(Clone(rd["services"])))
		return n, nil
	case "ietf-json-patch":
		opsList, _ := p["patches"].([]any)
		var cur any = d
		for _, o := range opsList {
			om, ok := o.(map[string]any)
			if !ok {
				return nil, errors.New("json patch operation is not an object")
			}
			var err error
			cur, err = JSONPatchOp(cur, om)
			if err != nil {
				return nil, err
			}
		}
		m, ok := cur.(map[string]any)
		if !ok {
			return nil, errors.New("document is no longer an object")
		}
		return m, nil
	default:
		return nil, fmt.Errorf("unknown action %q", action)
	}
	return d, nil
}

func toList(v any) []any {
	l, _ := v.([]any)
	return l
}

// Apply folds the patches from the left. Any failing patch fails the whole list.
func Apply(doc M, patches []any) (M, error) {
	cur := Clone(doc).(M)
	for _, p := range patches {
		pm, ok := p.(map[string]any)
		if !ok {
			return nil, errors.New("patch is not an object")
		}
		var err error
		cur, err = ApplyOne(cur, pm)
		if err != nil {
			return nil, err
		}
	}
	return cur, nil
}

// Project is the observable projection of a document: null / absent / [] of the three list
// members are one observation; everything else as is. Returned as canonical JSON text.
func Project(doc map[string]any) string {
	d := map[string]any{}
	for k, v := range doc {
		if k == "publicKey" || k == "service" || k == "alsoKnownAs" {
			if l, ok := v.([]any); ok && len(l) > 0 {
				d[k] = v
			}
			if v != nil {
				if _, isList := v.([]any); !isList {
					d[k] = v // not a list: keep visible
				}
			}
			continue
		}
		d[k] = v
	}
	b, err := jcs.CanonGo(d)
	if err != nil {
		return "unprojectable:" + err.Error()
	}
	return string(b)
}

// ---------- RFC 6902 ----------

func parsePointer(p string) ([]string, error) {
	if p == "" {
		return nil, nil
	}
	if p[0] != '/' {
		return nil, errors.New("pointer must start with /")
	}
	parts := strings.Split(p[1:], "/")
	for i, t := range parts {
		// RFC 6901: ~1 first, then ~0
		for j := 0; j < len(t); j++ {
			if t[j] == '~' && (j+1 >= len(t) || (t[j+1] != '0' && t[j+1] != '1')) {
				return nil, errors.New("bad escape in pointer")
			}
		}
		parts[i] = strings.ReplaceAll(strings.ReplaceAll(t, "~1", "/"), "~0", "~")
	}
	return parts, nil
}

func index(tok string, n int, allowEnd bool) (int, error) {
	if tok == "-" {
		if allowEnd {
			return n, nil
		}
		return 0, errors.New("- does not name an element")
	}
	if tok == "" || (len(tok) > 1 && tok[0] == '0') || tok[0] < '0' || tok[0] > '9' {
		return 0, errors.New("bad array index")
	}
	i, err := strconv.Atoi(tok)
	if err != nil {
		return 0, err
	}
	max := n - 1
	if allowEnd {
		max = n
	}
	if i > max {
		return 0, errors.New("index out of range")
	}
	return i, nil
}

func get(doc any, toks []string) (any, error) {
	cur := doc
	for _, t := range toks {
		switch c := cur.(type) {
		case map[string]any:
			v, ok := c[t]
			if !ok {
				return nil, errors.New("member not found")
			}
			cur = v
		case []any:
			i, err := index(t, len(c), false)
			if err != nil {
				return nil, err
			}
			cur = c[i]
		default:
			return nil, errors.New("cannot descend into scalar")
		}
	}
	return cur, nil
}

// edit returns a copy of doc with fn applied to the parent container of the last token.
func edit(doc any, toks []string, fn func(parent any, last string) (any, error)) (any, error) {
	if len(toks) == 1 {
		return fn(doc, toks[0])
	}
	switch c := doc.(type) {
	case map[string]any:
		child, ok := c[toks[0]]
		if !ok {
			return nil, errors.New("member not found")
		}
		n, err := edit(child, toks[1:], fn)
		if err != nil {
			return nil, err
		}
		m := make(map[string]any, len(c))
		for k, v := range c {
			m[k] = v
		}
		m[toks[0]] = n
		return m, nil
	case []any:
		i, err := index(toks[0], len(c), false)
		if err != nil {
			return nil, err
		}
		n, err := edit(c[i], toks[1:], fn)
		if err != nil {
			return nil, err
		}
		a := append([]any{}, c...)
		a[i] = n
		return a, nil
	}
	return nil, errors.New("cannot descend into scalar")
}

func add(doc any, toks []string, val any) (any, error) {
	if len(toks) == 0 {
		return Clone(val), nil
	}
	return edit(doc, toks, func(parent any, last string) (any, error) {
		switch c := parent.(type) {
		case map[string]any:
			m := make(map[string]any, len(c)+1)
			for k, v := range c {
				m[k] = v
			}
			m[last] = Clone(val)
			return m, nil
		case []any:
			i, err := index(last, len(c), true)
			if err != nil {
				return nil, err
			}
			a := make([]any, 0, len(c)+1)
			a = append(a, c[:i]...)
			a = append(a, Clone(val))
			a = append(a, c[i:]...)
			return a, nil
		}
		return nil, errors.New("parent is a scalar")
	})
}

func remove(doc any, toks []string) (any, error) {
	if len(toks) == 0 {
		return nil, errors.New("cannot remove the root")
	}
	return edit(doc, toks, func(parent any, last string) (any, error) {
		switch c := parent.(type) {
		case map[string]any:
			if _, ok := c[last]; !ok {
				return nil, errors.New("member not found")
			}
			m := make(map[string]any, len(c))
			for k, v := range c {
				if k != last {
					m[k] = v
				}
			}
			return m, nil
		case []any:
			i, err := index(last, len(c), false)
			if err != nil {
				return nil, err
			}
			a := make([]any, 0, len(c))
			a = append(a, c[:i]...)
			a = append(a, c[i+1:]...)
			return a, nil
		}
		return nil, errors.New("parent is a scalar")
	})
}

// JSONPatchOp applies one RFC 6902 operation (literal reading of the RFC) and returns the new document.
func JSONPatchOp(doc any, op map[string]any) (any, error) {
	kind, _ := op["op"].(string)
	ps, ok := op["path"].(string)
	if !ok {
		return nil, errors.New("missing path")
	}
	path, err := parsePointer(ps)
	if err != nil {
		return nil, err
	}
	val, hasVal := op["value"]
	switch kind {
	case "add":
		if !hasVal {
			return nil, errors.New("add without value")
		}
		return add(doc, path, val)
	case "remove":
		return remove(doc, path)
	case "replace":
		if !hasVal {
			return nil, errors.New("replace without value")
		}
		if _, err := get(doc, path); err != nil {
			return nil, err
		}
		if len(path) == 0 {
			return Clone(val), nil
		}
		d, err := remove(doc, path)
		if err != nil {
			return nil, err
		}
		return add(d, path, val)
	case "move", "copy":
		fs, ok := op["from"].(string)
		if !ok {
			return nil, errors.New("missing from")
		}
		from, err := parsePointer(fs)
		if err != nil {
			return nil, err
		}
		v, err := get(doc, from)
		if err != nil {
			return nil, err
		}
		v = Clone(v)
		if kind == "move" {
			if len(from) < len(path) && strings.Join(path[:len(from)], "\x00") == strings.Join(from, "\x00") {
				return nil, errors.New("cannot move a value into one of its children")
			}
			doc, err = remove(doc, from)
			if err != nil {
				return nil, err
			}
		}
		return add(doc, path, v)
	case "test":
		if !hasVal {
			return nil, errors.New("test without value")
		}
		v, err := get(doc, path)
		if err != nil {
			return nil, err
		}
		if !jcs.Equal(norm(v), norm(val)) {
			return nil, errors.New("test failed")
		}
		return doc, nil
	}
	return nil, fmt.Errorf("unknown op %q", kind)
}

func norm(v any) any {
	b, _ := json.Marshal(v)
	p, _ := jcs.Parse(b)
	return p
}
