//go:build verif

// Package verifrt is the runtime of the verification seams. It is NOT part of the repository:
// the checks inject it as a virtual package (go build -overlay) next to instrumented copies of
// the repository's files. With no hook installed every function here is a no-op / identity.
package verifrt

import (
	"fmt"
	"reflect"
	"sort"
	"sync"
)

// ---------------------------------------------------------------- map-order seam (M)

type KV[K comparable, V any] struct {
	K K
	V V
}

// OrderChooser, when installed, picks among n alternatives at a labelled choice point.
var OrderChooser func(n int, label string) int

// OrderCapped is set when a map with more than 4 entries was ranged while a chooser was
// installed (only rotations and the reversal of the sorted order are explored then).
var OrderCapped bool

// Pairs returns the entries of m in sorted key order, permuted as the installed chooser decides.
func Pairs[M ~map[K]V, K comparable, V any](m M, site string) []KV[K, V] {
	out := make([]KV[K, V], 0, len(m))
	for k, v := range m {
		out = append(out, KV[K, V]{k, v})
	}
	sort.Slice(out, func(i, j int) bool { return fmt.Sprint(out[i].K) < fmt.Sprint(out[j].K) })
	ch := OrderChooser
	n := len(out)
	if ch == nil || n < 2 {
		return out
	}
	if n <= 4 {
		for i := 0; i < n-1; i++ {
			j := i + ch(n-i, site)
			out[i], out[j] = out[j], out[i]
		}
		return out
	}
	OrderCapped = true
	c := ch(n+1, site)
	if c == n {
		for i, j := 0, n-1; i < j; i, j = i+1, j-1 {
			out[i], out[j] = out[j], out[i]
		}
		return out
	}
	return append(append([]KV[K, V]{}, out[c:]...), out[:c]...)
}

// ---------------------------------------------------------------- scheduler seam (S) and access events (A)

type OpKind int

const (
	OpLock OpKind = iota
	OpUnlock
	OpRLock
	OpRUnlock
	OpOnceDo   // returns 1 when the caller must run the function
	OpOnceDone // the function returned
	OpWGAdd
	OpWGWait
	OpAtomic
	OpTryLock  // returns 1 on success
	OpTryRLock // returns 1 on success
	OpUnmodelled
)

// Hook is implemented by the harness scheduler.
type Hook interface {
	// Sync is a scheduling point: the calling thread is about to perform the operation on obj.
	// It returns when the scheduler has let the thread perform it (and has updated its model).
	Sync(kind OpKind, obj any, arg int) int
	// Access records a shared-memory access for the happens-before race detector.
	Access(id uintptr, name string, write bool, site string)
}

// H is the installed hook; nil means: shims use the real primitives, events are dropped.
var H Hook

// Objects whose addresses identify locations are kept alive until the harness starts its next execution, so that
// an address is never reused for another object within one execution (a reused address would look like a race).
var (
	keepMu sync.Mutex
	keep   []any
)

func retain(x any) {
	keepMu.Lock()
	keep = append(keep, x)
	keepMu.Unlock()
}

// ResetKeep is called by the harness at the start of an execution.
func ResetKeep() {
	keepMu.Lock()
	keep = nil
	keepMu.Unlock()
}

func ptrOf(f func() any) (p uintptr, ok bool) {
	defer func() {
		if recover() != nil {
			ok = false
		}
	}()
	x := f()
	defer func() {
		if ok {
			retain(x)
		}
	}()
	v := reflect.ValueOf(x)
	switch v.Kind() {
	case reflect.Pointer, reflect.Map, reflect.UnsafePointer, reflect.Chan, reflect.Func, reflect.Slice:
		if v.IsNil() {
			return 0, false
		}
		return v.Pointer(), true
	}
	return 0, false
}

// F: field access x.name where base() evaluates the pointer x.
func F(base func() any, name string, write bool, site string) {
	h := H
	if h == nil {
		return
	}
	if p, ok := ptrOf(base); ok {
		h.Access(p, name, write, site)
	}
}

// G: access to the package-level variable name.
func G(name string, write bool, site string) {
	if h := H; h != nil {
		h.Access(0, name, write, site)
	}
}

// MapAcc: access to the map m() (read: index, len, range; write: assignment, delete).
func MapAcc(m func() any, write bool, site string) {
	h := H
	if h == nil {
		return
	}
	if p, ok := ptrOf(m); ok {
		h.Access(p, "map", write, site)
	}
}

// ---- slice elements: the location is the address of the element in the backing array, so slices that share a backing
// array (a slice stored in a shared structure and appended to within its capacity by two callers) meet on the same location.

const sliceEventCap = 64 // element-wise events for at most this many elements of one slice operation

func sliceOf(f func() any) (v reflect.Value, ok bool) {
	defer func() {
		if recover() != nil {
			ok = false
		}
	}()
	x := f()
	v = reflect.ValueOf(x)
	if v.Kind() != reflect.Slice || v.IsNil() || v.Type().Elem().Size() == 0 {
		return v, false
	}
	retain(x)
	return v, true
}

func elems(h Hook, v reflect.Value, from, to int, write bool, site string) {
	if to-from > sliceEventCap {
		to = from + sliceEventCap
	}
	size := v.Type().Elem().Size()
	for i := from; i < to; i++ {
		h.Access(v.Pointer()+uintptr(i)*size, "slice element", write, site)
	}
}

func intOf(f func() int) (n int, ok bool) {
	defer func() {
		if recover() != nil {
			ok = false
		}
	}()
	return f(), true
}

// SliceAppend: append(s, <n elements>) writes the elements [len, len+n) of the backing array when they fit its capacity.
func SliceAppend(s func() any, n func() int, site string) {
	h := H
	if h == nil {
		return
	}
	v, ok := sliceOf(s)
	k, ok2 := intOf(n)
	if !ok || !ok2 || k <= 0 || v.Len()+k > v.Cap() {
		return
	}
	full := v.Slice(0, v.Cap())
	elems(h, full, v.Len(), v.Len()+k, true, site)
}

// SliceIdx: s[i] read or written.
func SliceIdx(s func() any, i func() int, write bool, site string) {
	h := H
	if h == nil {
		return
	}
	v, ok := sliceOf(s)
	k, ok2 := intOf(i)
	if !ok || !ok2 || k < 0 || k >= v.Len() {
		return
	}
	elems(h, v, k, k+1, write, site)
}

// SliceAll: every element read (range) or written.
func SliceAll(s func() any, write bool, site string) {
	h := H
	if h == nil {
		return
	}
	if v, ok := sliceOf(s); ok {
		elems(h, v, 0, v.Len(), write, site)
	}
}

// SliceCopy: copy(dst, src).
func SliceCopy(dst, src func() any, site string) {
	h := H
	if h == nil {
		return
	}
	d, ok := sliceOf(dst)
	if !ok {
		return
	}
	n := d.Len()
	if sv, ok := sliceOf(src); ok {
		if sv.Len() < n {
			n = sv.Len()
		}
		elems(h, sv, 0, n, false, site)
	} else if x, ok2 := func() (x any, ok bool) {
		defer func() {
			if recover() != nil {
				ok = false
			}
		}()
		return src(), true
	}(); ok2 {
		if str, isStr := x.(string); isStr && len(str) < n {
			n = len(str)
		}
	}
	elems(h, d, 0, n, true, site)
}

// Unmodelled reports a construct the scheduler seam cannot model (go statement, channel operation, select).
func Unmodelled(site string) {
	if h := H; h != nil {
		h.Sync(OpUnmodelled, site, 0)
	}
}
