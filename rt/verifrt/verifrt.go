//go:build verif

// Package verifrt is the runtime of the verification seams. It is NOT part of the repository:
// the checks inject it as a virtual package (go build -overlay) next to instrumented copies of
// the repository's files. With no hook installed every function here is a no-op / identity.
package verifrt

import (
	"fmt"
	"reflect"
	"sort"
)

// ---------------------------------------------------------------- map-order seam (M)

type KV[K comparable, V any] struct {
	K K
	V V
}

// OrderChooser, when installed, picks among n alternatives at a labelled choice point.
var OrderChooser func(n int, label string) int

// OrderCapped is set when a map with more than 4 entries was ranged while a chooser was
// installed (only rotations and the reversal of the sorted order are explored then).
var OrderCapped bool

// Pairs returns the entries of m in sorted key order, permuted as the installed chooser decides.
func Pairs[M ~map[K]V, K comparable, V any](m M, site string) []KV[K, V] {
	out := make([]KV[K, V], 0, len(m))
	for k, v := range m {
		out = append(out, KV[K, V]{k, v})
	}
	sort.Slice(out, func(i, j int) bool { return fmt.Sprint(out[i].K) < fmt.Sprint(out[j].K) })
	ch := OrderChooser
	n := len(out)
	if ch == nil || n < 2 {
		return out
	}
	if n <= 4 {
		for i := 0; i < n-1; i++ {
			j := i + ch(n-i, site)
			out[i], out[j] = out[j], out[i]
		}
		return out
	}
	OrderCapped = true
	c := ch(n+1, site)
	if c == n {
		for i, j := 0, n-1; i < j; i, j = i+1, j-1 {
			out[i], out[j] = out[j], out[i]
		}
		return out
	}
	return append(append([]KV[K, V]{}, out[c:]...), out[:c]...)
}

// ---------------------------------------------------------------- scheduler seam (S) and access events (A)

type OpKind int

const (
	OpLock OpKind = iota
	OpUnlock
	OpRLock
	OpRUnlock
	OpOnceDo   // returns 1 when the caller must run the function
	OpOnceDone // the function returned
	OpWGAdd
	OpWGWait
	OpAtomic
	OpTryLock  // returns 1 on success
	OpTryRLock // returns 1 on success
	OpUnmodelled
)

// Hook is implemented by the harness scheduler.
type Hook interface {
	// Sync is a scheduling point: the calling thread is about to perform the operation on obj.
	// It returns when the scheduler has let the thread perform it (and has updated its model).
	Sync(kind OpKind, obj any, arg int) int
	// Access records a shared-memory access for the happens-before race detector.
	Access(id uintptr, name string, write bool, site string)
}

// H is the installed hook; nil means: shims use the real primitives, events are dropped.
var H Hook

func ptrOf(f func() any) (p uintptr, ok bool) {
	defer func() {
		if recover() != nil {
			ok = false
		}
	}()
	v := reflect.ValueOf(f())
	switch v.Kind() {
	case reflect.Pointer, reflect.Map, reflect.UnsafePointer, reflect.Chan, reflect.Func, reflect.Slice:
		if v.IsNil() {
			return 0, false
		}
		return v.Pointer(), true
	}
	return 0, false
}

// F: field access x.name where base() evaluates the pointer x.
func F(base func() any, name string, write bool, site string) {
	h := H
	if h == nil {
		return
	}
	if p, ok := ptrOf(base); ok {
		h.Access(p, name, write, site)
	}
}

// G: access to the package-level variable name.
func G(name string, write bool, site string) {
	if h := H; h != nil {
		h.Access(0, name, write, site)
	}
}

// MapAcc: access to the map m() (read: index, len, range; write: assignment, delete).
func MapAcc(m func() any, write bool, site string) {
	h := H
	if h == nil {
		return
	}
	if p, ok := ptrOf(m); ok {
		h.Access(p, "map", write, site)
	}
}

// Unmodelled reports a construct the scheduler seam cannot model (go statement, channel operation, select).
func Unmodelled(site string) {
	if h := H; h != nil {
		h.Sync(OpUnmodelled, site, 0)
	}
}
