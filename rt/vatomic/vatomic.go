//go:build verif

// Package vatomic replaces "sync/atomic" in instrumented copies of the repository's files:
// every operation is a scheduling point and an acquire+release on its address.
package vatomic

import (
	"sync/atomic"
	"unsafe"

	rt "github.com/trustbloc/sidetree-go/pkg/verifrt"
)

func pt(p any) {
	if h := rt.H; h != nil {
		h.Sync(rt.OpAtomic, p, 0)
	}
}

func AddInt32(a *int32, d int32) int32      { pt(a); return atomic.AddInt32(a, d) }
func AddInt64(a *int64, d int64) int64      { pt(a); return atomic.AddInt64(a, d) }
func AddUint32(a *uint32, d uint32) uint32  { pt(a); return atomic.AddUint32(a, d) }
func AddUint64(a *uint64, d uint64) uint64  { pt(a); return atomic.AddUint64(a, d) }
func LoadInt32(a *int32) int32              { pt(a); return atomic.LoadInt32(a) }
func LoadInt64(a *int64) int64              { pt(a); return atomic.LoadInt64(a) }
func LoadUint32(a *uint32) uint32           { pt(a); return atomic.LoadUint32(a) }
func LoadUint64(a *uint64) uint64           { pt(a); return atomic.LoadUint64(a) }
func StoreInt32(a *int32, v int32)          { pt(a); atomic.StoreInt32(a, v) }
func StoreInt64(a *int64, v int64)          { pt(a); atomic.StoreInt64(a, v) }
func StoreUint32(a *uint32, v uint32)       { pt(a); atomic.StoreUint32(a, v) }
func StoreUint64(a *uint64, v uint64)       { pt(a); atomic.StoreUint64(a, v) }
func SwapInt32(a *int32, v int32) int32     { pt(a); return atomic.SwapInt32(a, v) }
func SwapInt64(a *int64, v int64) int64     { pt(a); return atomic.SwapInt64(a, v) }
func SwapUint32(a *uint32, v uint32) uint32 { pt(a); return atomic.SwapUint32(a, v) }
func SwapUint64(a *uint64, v uint64) uint64 { pt(a); return atomic.SwapUint64(a, v) }
func CompareAndSwapInt32(a *int32, o, n int32) bool {
	pt(a)
	return atomic.CompareAndSwapInt32(a, o, n)
}
func CompareAndSwapInt64(a *int64, o, n int64) bool {
	pt(a)
	return atomic.CompareAndSwapInt64(a, o, n)
}
func CompareAndSwapUint32(a *uint32, o, n uint32) bool {
	pt(a)
	return atomic.CompareAndSwapUint32(a, o, n)
}
func CompareAndSwapUint64(a *uint64, o, n uint64) bool {
	pt(a)
	return atomic.CompareAndSwapUint64(a, o, n)
}
func LoadPointer(a *unsafe.Pointer) unsafe.Pointer     { pt(a); return atomic.LoadPointer(a) }
func StorePointer(a *unsafe.Pointer, v unsafe.Pointer) { pt(a); atomic.StorePointer(a, v) }

type Int32 struct{ v atomic.Int32 }

func (x *Int32) Load() int32                    { pt(x); return x.v.Load() }
func (x *Int32) Store(v int32)                  { pt(x); x.v.Store(v) }
func (x *Int32) Add(d int32) int32              { pt(x); return x.v.Add(d) }
func (x *Int32) Swap(v int32) int32             { pt(x); return x.v.Swap(v) }
func (x *Int32) CompareAndSwap(o, n int32) bool { pt(x); return x.v.CompareAndSwap(o, n) }

type Int64 struct{ v atomic.Int64 }

func (x *Int64) Load() int64                    { pt(x); return x.v.Load() }
func (x *Int64) Store(v int64)                  { pt(x); x.v.Store(v) }
func (x *Int64) Add(d int64) int64              { pt(x); return x.v.Add(d) }
func (x *Int64) Swap(v int64) int64             { pt(x); return x.v.Swap(v) }
func (x *Int64) CompareAndSwap(o, n int64) bool { pt(x); return x.v.CompareAndSwap(o, n) }

type Uint32 struct{ v atomic.Uint32 }

func (x *Uint32) Load() uint32                    { pt(x); return x.v.Load() }
func (x *Uint32) Store(v uint32)                  { pt(x); x.v.Store(v) }
func (x *Uint32) Add(d uint32) uint32             { pt(x); return x.v.Add(d) }
func (x *Uint32) Swap(v uint32) uint32            { pt(x); return x.v.Swap(v) }
func (x *Uint32) CompareAndSwap(o, n uint32) bool { pt(x); return x.v.CompareAndSwap(o, n) }

type Uint64 struct{ v atomic.Uint64 }

func (x *Uint64) Load() uint64                    { pt(x); return x.v.Load() }
func (x *Uint64) Store(v uint64)                  { pt(x); x.v.Store(v) }
func (x *Uint64) Add(d uint64) uint64             { pt(x); return x.v.Add(d) }
func (x *Uint64) Swap(v uint64) uint64            { pt(x); return x.v.Swap(v) }
func (x *Uint64) CompareAndSwap(o, n uint64) bool { pt(x); return x.v.CompareAndSwap(o, n) }

type Bool struct{ v atomic.Bool }

func (x *Bool) Load() bool                    { pt(x); return x.v.Load() }
func (x *Bool) Store(v bool)                  { pt(x); x.v.Store(v) }
func (x *Bool) Swap(v bool) bool              { pt(x); return x.v.Swap(v) }
func (x *Bool) CompareAndSwap(o, n bool) bool { pt(x); return x.v.CompareAndSwap(o, n) }

type Value struct{ v atomic.Value }

func (x *Value) Load() any                    { pt(x); return x.v.Load() }
func (x *Value) Store(v any)                  { pt(x); x.v.Store(v) }
func (x *Value) Swap(v any) any               { pt(x); return x.v.Swap(v) }
func (x *Value) CompareAndSwap(o, n any) bool { pt(x); return x.v.CompareAndSwap(o, n) }

type Pointer[T any] struct{ v atomic.Pointer[T] }

func (x *Pointer[T]) Load() *T                    { pt(x); return x.v.Load() }
func (x *Pointer[T]) Store(v *T)                  { pt(x); x.v.Store(v) }
func (x *Pointer[T]) Swap(v *T) *T                { pt(x); return x.v.Swap(v) }
func (x *Pointer[T]) CompareAndSwap(o, n *T) bool { pt(x); return x.v.CompareAndSwap(o, n) }
