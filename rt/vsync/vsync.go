//go:build verif

// Package vsync replaces "sync" in instrumented copies of the repository's files.
package vsync

import (
	"sync"

	rt "github.com/trustbloc/sidetree-go/pkg/verifrt"
)

type (
	Map    = sync.Map
	Pool   = sync.Pool
	Cond   = sync.Cond
	Locker = sync.Locker
)

func NewCond(l Locker) *Cond { return sync.NewCond(l) }

type Mutex struct{ mu sync.Mutex }

func (m *Mutex) Lock() {
	if h := rt.H; h != nil {
		h.Sync(rt.OpLock, m, 0)
		return
	}
	m.mu.Lock()
}

func (m *Mutex) Unlock() {
	if h := rt.H; h != nil {
		h.Sync(rt.OpUnlock, m, 0)
		return
	}
	m.mu.Unlock()
}

func (m *Mutex) TryLock() bool {
	if h := rt.H; h != nil {
		return h.Sync(rt.OpTryLock, m, 0) == 1
	}
	return m.mu.TryLock()
}

type RWMutex struct{ mu sync.RWMutex }

func (m *RWMutex) Lock() {
	if h := rt.H; h != nil {
		h.Sync(rt.OpLock, m, 0)
		return
	}
	m.mu.Lock()
}

func (m *RWMutex) Unlock() {
	if h := rt.H; h != nil {
		h.Sync(rt.OpUnlock, m, 0)
		return
	}
	m.mu.Unlock()
}

func (m *RWMutex) RLock() {
	if h := rt.H; h != nil {
		h.Sync(rt.OpRLock, m, 0)
		return
	}
	m.mu.RLock()
}

func (m *RWMutex) RUnlock() {
	if h := rt.H; h != nil {
		h.Sync(rt.OpRUnlock, m, 0)
		return
	}
	m.mu.RUnlock()
}

func (m *RWMutex) TryLock() bool {
	if h := rt.H; h != nil {
		return h.Sync(rt.OpTryLock, m, 0) == 1
	}
	return m.mu.TryLock()
}

func (m *RWMutex) TryRLock() bool {
	if h := rt.H; h != nil {
		return h.Sync(rt.OpTryRLock, m, 0) == 1
	}
	return m.mu.TryRLock()
}

type rlocker RWMutex

func (r *rlocker) Lock()   { (*RWMutex)(r).RLock() }
func (r *rlocker) Unlock() { (*RWMutex)(r).RUnlock() }

func (m *RWMutex) RLocker() Locker { return (*rlocker)(m) }

type Once struct{ o sync.Once }

func (o *Once) Do(f func()) {
	if h := rt.H; h != nil {
		if h.Sync(rt.OpOnceDo, o, 0) == 1 {
			defer h.Sync(rt.OpOnceDone, o, 0)
			f()
		}
		return
	}
	o.o.Do(f)
}

type WaitGroup struct{ wg sync.WaitGroup }

func (w *WaitGroup) Add(n int) {
	if h := rt.H; h != nil {
		h.Sync(rt.OpWGAdd, w, n)
		return
	}
	w.wg.Add(n)
}

func (w *WaitGroup) Done() { w.Add(-1) }

func (w *WaitGroup) Wait() {
	if h := rt.H; h != nil {
		h.Sync(rt.OpWGWait, w, 0)
		return
	}
	w.wg.Wait()
}

func OnceFunc(f func()) func() {
	var o Once
	return func() { o.Do(f) }
}

func OnceValue[T any](f func() T) func() T {
	var o Once
	var v T
	return func() T { o.Do(func() { v = f() }); return v }
}
