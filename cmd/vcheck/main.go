// vcheck runs one property check: vcheck run <ID>   (tier from VERIF_TIER, seed from VERIF_SEED)
package main

import (
	"fmt"
	"os"

	"verif/checks/c01"
	"verif/checks/c02"
	"verif/checks/c03"
	"verif/checks/c04"
	"verif/checks/c05"
	"verif/checks/c06"
	"verif/checks/c07"
	"verif/checks/c08"
	"verif/checks/c09"
	"verif/checks/c10"
	"verif/checks/c11"
	"verif/checks/c12"
	"verif/checks/c13"
	"verif/checks/c14"
	"verif/checks/c15"
	"verif/checks/c16"
	"verif/checks/c18"
	"verif/checks/c19"
	"verif/checks/c20race"
	"verif/engine/core"
	"verif/gen/keys"
)

type check struct {
	level string
	run   func(r *core.Run)
}

var checks = map[string]check{
	"C01": {"model_checking", c01.Run},
	"C02": {"fault_enumeration", c02.Run},
	"C03": {"exploration", c03.Run},
	"C04": {"exploration", c04.Run},
	"C05": {"exploration", c05.Run},
	"C06": {"exploration", c06.Run},
	"C07": {"exploration", c07.Run},
	"C08": {"exploration", c08.Run},
	"C09": {"exploration", c09.Run},
	"C10": {"model_checking", c10.Run},
	"C11": {"exploration", c11.Run},
	"C12": {"model_checking", c12.Run},
	"C13": {"exploration", c13.Run},
	"C14": {"exploration", c14.Run},
	"C15": {"fault_enumeration", c15.Run},
	"C16": {"exploration", c16.Run},
	"C18": {"exploration", c18.Run},
	"C19": {"fault_enumeration", c19.Run},
}

func main() {
	if len(os.Args) >= 5 && os.Args[1] == "c11worker" {
		c11.Worker(os.Args[2:])
		return
	}
	if len(os.Args) >= 6 && os.Args[1] == "c19worker" {
		c19.Worker(os.Args[2:])
		return
	}
	if len(os.Args) >= 2 && os.Args[1] == "racepass" {
		c20race.Run()
		return
	}
	if len(os.Args) < 3 || os.Args[1] != "run" {
		fmt.Fprintln(os.Stderr, "usage: vcheck run <ID>")
		os.Exit(2)
	}
	c, ok := checks[os.Args[2]]
	if !ok {
		fmt.Fprintln(os.Stderr, "unknown check", os.Args[2])
		os.Exit(2)
	}
	keys.FixRand(0x42)
	r := core.New(os.Args[2], c.level)
	c.run(r)
	r.Finish()
}
