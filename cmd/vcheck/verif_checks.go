//go:build verif

package main

import (
	"verif/checks/c17"
	"verif/checks/c20"
)

func init() {
	checks["C17"] = check{"exploration", c17.Run}
	checks["C20"] = check{"model_checking", c20.Run}
}
