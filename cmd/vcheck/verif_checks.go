//go:build verif

package main

import (
	"verif/checks/c17"
)

func init() {
	checks["C17"] = check{"exploration", c17.Run}
}
