package main

import (
	"fmt"
	"sync"

	"verif/gen/keys"
)

func main() {
	for _, t := range []string{"secp256k1", "P-256", "P-384", "P-521"} {
		size := map[string]int{"secp256k1": 32, "P-256": 32, "P-384": 48, "P-521": 66}[t]
		var mu sync.Mutex
		foundX, foundY := []int{}, []int{}
		var wg sync.WaitGroup
		limit := 200000
		for w := 0; w < 16; w++ {
			wg.Add(1)
			go func(w int) {
				defer wg.Done()
				c := keys.Curve(t)
				for i := w; i < limit; i += 16 {
					k := keys.New(t, i)
					x := k.EC.X.FillBytes(make([]byte, size))
					y := k.EC.Y.FillBytes(make([]byte, size))
					_ = c
					z := func(b []byte) bool {
						if t == "P-521" {
							return b[0] == 0 && b[1] == 0 && b[2] == 0 // top byte holds 1 bit only
						}
						return b[0] == 0 && b[1] == 0
					}
					mu.Lock()
					if z(x) {
						foundX = append(foundX, i)
					}
					if z(y) {
						foundY = append(foundY, i)
					}
					mu.Unlock()
				}
			}(w)
		}
		wg.Wait()
		fmt.Println(t, "X:", foundX, "Y:", foundY)
	}
}
