// vinst instruments a copy of the repository's non-test sources for the verification seams and
// writes a go build overlay: rewritten files + the virtual runtime package pkg/verifrt{,/vsync,/vatomic}.
//
//	vinst -repo /repo -rt /verif/rt -out /verif/.work/X/overlay [-seams MSA]
//
// Seams: M map iteration order is chosen by the harness; S sync / sync/atomic are replaced by
// scheduler-aware shims; A access events (package variables, fields through pointers, maps) for
// the happens-before race detector. Only statements' unconditionally evaluated expressions get
// events (no spurious events, some accesses unseen: the free-running -race pass covers those).
package main

import (
	"bytes"
	"encoding/json"
	"flag"
	"fmt"
	"go/ast"
	"go/format"
	"go/token"
	"go/types"
	"os"
	"path/filepath"
	"sort"
	"strconv"
	"strings"

	"golang.org/x/tools/go/ast/astutil"
	"golang.org/x/tools/go/packages"
)

const modPath = "github.com/trustbloc/sidetree-go"
const rtPath = modPath + "/pkg/verifrt"

type stats struct {
	Files, MapRanges, MapRangesSkipped, SyncImports, AtomicImports, FieldEvents, GlobalEvents, MapEvents, SliceEvents, Unmodelled int
	UnmodelledSites                                                                                                               []string
	SkippedRanges                                                                                                                 []string
}

func main() {
	repo := flag.String("repo", "/repo", "repository root")
	rt := flag.String("rt", "/verif/rt", "runtime sources")
	out := flag.String("out", "", "output directory")
	seams := flag.String("seams", "MSA", "seams to apply")
	flag.Parse()
	if *out == "" {
		fmt.Fprintln(os.Stderr, "need -out")
		os.Exit(2)
	}
	must(os.RemoveAll(*out))
	must(os.MkdirAll(*out, 0o755))
	cfg := &packages.Config{Mode: packages.NeedName | packages.NeedFiles | packages.NeedCompiledGoFiles | packages.NeedSyntax | packages.NeedTypes | packages.NeedTypesInfo | packages.NeedImports | packages.NeedDeps,
		Dir: *repo, Env: append(os.Environ(), "GOFLAGS=-mod=mod")}
	pkgs, err := packages.Load(cfg, "./pkg/...")
	must(err)
	overlay := map[string]string{}
	var st stats
	for _, p := range pkgs {
		if len(p.Errors) > 0 {
			fmt.Fprintf(os.Stderr, "vinst: package %s has errors: %v\n", p.PkgPath, p.Errors)
			os.Exit(2)
		}
		if strings.Contains(p.PkgPath, "/mocks") || strings.HasSuffix(p.PkgPath, "/pkg/verifrt") {
			continue
		}
		for i, f := range p.Syntax {
			name := p.CompiledGoFiles[i]
			if strings.HasSuffix(name, "_test.go") || !strings.HasPrefix(name, *repo) {
				continue
			}
			in := &inst{pkg: p, file: f, fset: p.Fset, seams: *seams, st: &st, rel: strings.TrimPrefix(name, *repo+"/")}
			if !in.run() {
				continue
			}
			var buf bytes.Buffer
			must(format.Node(&buf, p.Fset, f))
			dst := filepath.Join(*out, "src", in.rel)
			must(os.MkdirAll(filepath.Dir(dst), 0o755))
			must(os.WriteFile(dst, buf.Bytes(), 0o644))
			overlay[name] = dst
			st.Files++
		}
	}
	// virtual runtime packages
	for _, sub := range []string{"verifrt", "vsync", "vatomic"} {
		files, _ := filepath.Glob(filepath.Join(*rt, sub, "*.go"))
		for _, src := range files {
			dstDir := filepath.Join(*repo, "pkg", "verifrt")
			if sub != "verifrt" {
				dstDir = filepath.Join(dstDir, sub)
			}
			overlay[filepath.Join(dstDir, filepath.Base(src))] = src
		}
	}
	b, _ := json.MarshalIndent(map[string]any{"Replace": overlay}, "", " ")
	must(os.WriteFile(filepath.Join(*out, "overlay.json"), b, 0o644))
	sort.Strings(st.UnmodelledSites)
	sb, _ := json.MarshalIndent(st, "", " ")
	must(os.WriteFile(filepath.Join(*out, "stats.json"), sb, 0o644))
	fmt.Printf("vinst: %d files rewritten; map ranges %d (+%d left alone); sync imports %d, atomic imports %d; events: field %d, global %d, map %d; unmodelled constructs %d\n",
		st.Files, st.MapRanges, st.MapRangesSkipped, st.SyncImports, st.AtomicImports, st.FieldEvents, st.GlobalEvents, st.MapEvents, st.Unmodelled)
}

func must(err error) {
	if err != nil {
		fmt.Fprintln(os.Stderr, "vinst:", err)
		os.Exit(2)
	}
}

type inst struct {
	pkg     *packages.Package
	file    *ast.File
	fset    *token.FileSet
	seams   string
	st      *stats
	rel     string
	changed bool
	needRT  bool
	tmp     int
}

func (in *inst) has(s string) bool { return strings.Contains(in.seams, s) }

func (in *inst) site(n ast.Node) string {
	p := in.fset.Position(n.Pos())
	return fmt.Sprintf("%s:%d", in.rel, p.Line)
}

func (in *inst) run() bool {
	if in.has("S") {
		for _, imp := range in.file.Imports {
			path, _ := strconv.Unquote(imp.Path.Value)
			switch path {
			case "sync":
				imp.Path.Value = strconv.Quote(rtPath + "/vsync")
				if imp.Name == nil {
					imp.Name = ast.NewIdent("sync")
				}
				in.st.SyncImports++
				in.changed = true
			case "sync/atomic":
				imp.Path.Value = strconv.Quote(rtPath + "/vatomic")
				if imp.Name == nil {
					imp.Name = ast.NewIdent("atomic")
				}
				in.st.AtomicImports++
				in.changed = true
			}
		}
	}
	for _, d := range in.file.Decls {
		fd, ok := d.(*ast.FuncDecl)
		if !ok || fd.Body == nil {
			continue
		}
		in.block(fd.Body)
	}
	// function literals in package-level variable initialisers
	for _, d := range in.file.Decls {
		if gd, ok := d.(*ast.GenDecl); ok {
			ast.Inspect(gd, func(n ast.Node) bool {
				if fl, ok := n.(*ast.FuncLit); ok {
					in.block(fl.Body)
					return false
				}
				return true
			})
		}
	}
	if in.needRT {
		astutil.AddNamedImport(in.fset, in.file, "verifrt", rtPath)
		in.changed = true
	}
	return in.changed
}

// block instruments a statement list owner recursively.
func (in *inst) block(b *ast.BlockStmt) {
	if b == nil {
		return
	}
	b.List = in.stmts(b.List)
}

func (in *inst) stmts(list []ast.Stmt) []ast.Stmt {
	var out []ast.Stmt
	for _, s := range list {
		pre := in.stmt(s)
		out = append(out, pre...)
		out = append(out, s)
	}
	return out
}

// stmt instruments s in place (nested blocks, map ranges) and returns event statements to be placed before it.
func (in *inst) stmt(s ast.Stmt) []ast.Stmt {
	var pre []ast.Stmt
	switch t := s.(type) {
	case *ast.LabeledStmt:
		return in.stmt(t.Stmt)
	case *ast.BlockStmt:
		in.block(t)
		return nil
	case *ast.IfStmt:
		if t.Init != nil {
			pre = append(pre, in.events(t.Init, nil)...)
		}
		if t.Init == nil { // with an init statement the condition may depend on it: keep order, skip cond events
			pre = append(pre, in.exprEvents(t.Cond)...)
		}
		in.block(t.Body)
		if t.Else != nil {
			in.stmt(t.Else)
		}
		in.funcLits(t.Init)
		in.funcLitsExpr(t.Cond)
		return pre
	case *ast.ForStmt:
		in.unmodelledIn(t.Init)
		in.block(t.Body)
		in.funcLits(t.Init)
		in.funcLitsExpr(t.Cond)
		in.funcLits(t.Post)
		return nil
	case *ast.RangeStmt:
		pre = in.rangeStmt(t)
		in.block(t.Body)
		in.funcLitsExpr(t.X)
		return pre
	case *ast.SwitchStmt:
		if t.Init == nil {
			pre = append(pre, in.exprEvents(t.Tag)...)
		}
		for _, c := range t.Body.List {
			cc := c.(*ast.CaseClause)
			cc.Body = in.stmts(cc.Body)
		}
		in.funcLits(t.Init)
		in.funcLitsExpr(t.Tag)
		return pre
	case *ast.TypeSwitchStmt:
		for _, c := range t.Body.List {
			cc := c.(*ast.CaseClause)
			cc.Body = in.stmts(cc.Body)
		}
		return nil
	case *ast.SelectStmt:
		in.unmodelled(t)
		for _, c := range t.Body.List {
			cc := c.(*ast.CommClause)
			cc.Body = in.stmts(cc.Body)
		}
		return in.unmodelledCall(t)
	case *ast.GoStmt:
		in.funcLitsExpr(t.Call)
		in.unmodelled(t)
		return in.unmodelledCall(t)
	case *ast.SendStmt:
		in.unmodelled(t)
		return in.unmodelledCall(t)
	case *ast.DeferStmt:
		in.funcLitsExpr(t.Call)
		return nil
	default:
		pre = in.events(s, nil)
		in.funcLits(s)
		return pre
	}
}

func (in *inst) unmodelled(n ast.Node) {
	in.st.Unmodelled++
	in.st.UnmodelledSites = append(in.st.UnmodelledSites, in.site(n))
}

func (in *inst) unmodelledIn(s ast.Stmt) {}

func (in *inst) unmodelledCall(n ast.Node) []ast.Stmt {
	if !in.has("S") {
		return nil
	}
	in.needRT = true
	return []ast.Stmt{&ast.ExprStmt{X: &ast.CallExpr{Fun: sel("verifrt", "Unmodelled"), Args: []ast.Expr{strLit(in.site(n))}}}}
}

// funcLits instruments the bodies of function literals directly inside a statement / expression.
func (in *inst) funcLits(n ast.Node) {
	if n == nil || isNilNode(n) {
		return
	}
	ast.Inspect(n, func(m ast.Node) bool {
		if fl, ok := m.(*ast.FuncLit); ok {
			in.block(fl.Body)
			return false
		}
		return true
	})
}

func (in *inst) funcLitsExpr(e ast.Expr) {
	if e != nil {
		in.funcLits(e)
	}
}

func isNilNode(n ast.Node) bool {
	switch t := n.(type) {
	case ast.Stmt:
		return t == nil
	case ast.Expr:
		return t == nil
	}
	return false
}

func sel(x, s string) ast.Expr { return &ast.SelectorExpr{X: ast.NewIdent(x), Sel: ast.NewIdent(s)} }
func strLit(s string) ast.Expr { return &ast.BasicLit{Kind: token.STRING, Value: strconv.Quote(s)} }
func boolLit(b bool) ast.Expr {
	if b {
		return ast.NewIdent("true")
	}
	return ast.NewIdent("false")
}

// ------------------------------------------------------------------ seam M

func (in *inst) rangeStmt(r *ast.RangeStmt) []ast.Stmt {
	tv, ok := in.pkg.TypesInfo.Types[r.X]
	if !ok {
		return nil
	}
	if _, isMap := tv.Type.Underlying().(*types.Map); !isMap {
		if _, isChan := tv.Type.Underlying().(*types.Chan); isChan {
			in.unmodelled(r)
		}
		pre := in.exprEvents(r.X)
		if id, blank := r.Value.(*ast.Ident); in.has("A") && in.isSlice(r.X) && pure(r.X) && r.Value != nil && !(blank && id.Name == "_") {
			in.needRT = true
			in.st.SliceEvents++
			pre = append(pre, evStmt("SliceAll", closure(r.X), boolLit(false), strLit(in.site(r))))
		}
		return pre
	}
	var pre []ast.Stmt
	if in.has("A") && pure(r.X) {
		in.needRT = true
		in.st.MapEvents++
		pre = append(pre, evStmt("MapAcc", closure(r.X), boolLit(false), strLit(in.site(r))))
	}
	if !in.has("M") {
		return pre
	}
	// leave loops alone whose body inserts into / deletes from the ranged map
	if mutatesMap(r.Body, r.X) {
		in.st.MapRangesSkipped++
		in.st.SkippedRanges = append(in.st.SkippedRanges, in.site(r))
		return pre
	}
	in.needRT = true
	in.st.MapRanges++
	in.changed = true
	in.tmp++
	kv := ast.NewIdent(fmt.Sprintf("verifKV%d", in.tmp))
	var lhs, rhs []ast.Expr
	if id, ok := r.Key.(*ast.Ident); r.Key != nil && (!ok || id.Name != "_") {
		lhs = append(lhs, r.Key)
		rhs = append(rhs, &ast.SelectorExpr{X: kv, Sel: ast.NewIdent("K")})
	}
	if id, ok := r.Value.(*ast.Ident); r.Value != nil && (!ok || id.Name != "_") {
		lhs = append(lhs, r.Value)
		rhs = append(rhs, &ast.SelectorExpr{X: kv, Sel: ast.NewIdent("V")})
	}
	tok := r.Tok
	var head ast.Stmt
	if len(lhs) > 0 {
		if tok != token.DEFINE && tok != token.ASSIGN {
			tok = token.DEFINE
		}
		head = &ast.AssignStmt{Lhs: lhs, Tok: tok, Rhs: rhs}
	} else {
		head = &ast.AssignStmt{Lhs: []ast.Expr{ast.NewIdent("_")}, Tok: token.ASSIGN, Rhs: []ast.Expr{kv}}
	}
	r.Body.List = append([]ast.Stmt{head}, r.Body.List...)
	// keep "declared and not used" semantics: variables defined by the original range are used by construction or were used already
	if tok == token.DEFINE {
		for _, l := range lhs {
			r.Body.List = append([]ast.Stmt{r.Body.List[0], &ast.AssignStmt{Lhs: []ast.Expr{ast.NewIdent("_")}, Tok: token.ASSIGN, Rhs: []ast.Expr{l}}}, r.Body.List[1:]...)
		}
	}
	r.X = &ast.CallExpr{Fun: sel("verifrt", "Pairs"), Args: []ast.Expr{r.X, strLit(in.site(r))}}
	r.Key = ast.NewIdent("_")
	r.Value = kv
	r.Tok = token.DEFINE
	return pre
}

func mutatesMap(body *ast.BlockStmt, m ast.Expr) bool {
	ms := exprString(m)
	found := false
	ast.Inspect(body, func(n ast.Node) bool {
		switch t := n.(type) {
		case *ast.CallExpr:
			if id, ok := t.Fun.(*ast.Ident); ok && id.Name == "delete" && len(t.Args) == 2 && exprString(t.Args[0]) == ms {
				found = true
			}
		case *ast.AssignStmt:
			for _, l := range t.Lhs {
				if ix, ok := l.(*ast.IndexExpr); ok && exprString(ix.X) == ms {
					found = true
				}
			}
		}
		return true
	})
	return found
}

func exprString(e ast.Expr) string {
	var b bytes.Buffer
	_ = format.Node(&b, token.NewFileSet(), e)
	return b.String()
}

// ------------------------------------------------------------------ seam A

// pure: evaluating the expression (again) has no side effects and cannot block: identifiers,
// field selections, dereferences, parentheses.
func pure(e ast.Expr) bool {
	switch t := e.(type) {
	case *ast.Ident:
		return true
	case *ast.SelectorExpr:
		return pure(t.X)
	case *ast.StarExpr:
		return pure(t.X)
	case *ast.ParenExpr:
		return pure(t.X)
	case *ast.SliceExpr:
		// s[a:b] of a pure s with re-evaluable bounds (the aliasing "clone" append(s[:0], s...) starts like this)
		return pure(t.X) && (t.Low == nil || pureInt(t.Low)) && (t.High == nil || pureInt(t.High)) && (t.Max == nil || pureInt(t.Max))
	}
	return false
}

func closure(e ast.Expr) ast.Expr {
	return &ast.FuncLit{Type: &ast.FuncType{Params: &ast.FieldList{}, Results: &ast.FieldList{List: []*ast.Field{{Type: ast.NewIdent("any")}}}},
		Body: &ast.BlockStmt{List: []ast.Stmt{&ast.ReturnStmt{Results: []ast.Expr{e}}}}}
}

// intClosure: func() int { return int(e) }
func intClosure(e ast.Expr) ast.Expr {
	return &ast.FuncLit{Type: &ast.FuncType{Params: &ast.FieldList{}, Results: &ast.FieldList{List: []*ast.Field{{Type: ast.NewIdent("int")}}}},
		Body: &ast.BlockStmt{List: []ast.Stmt{&ast.ReturnStmt{Results: []ast.Expr{&ast.CallExpr{Fun: ast.NewIdent("int"), Args: []ast.Expr{e}}}}}}}
}

func intLit(n int) ast.Expr { return &ast.BasicLit{Kind: token.INT, Value: strconv.Itoa(n)} }

// pureInt: an index expression that can be evaluated again: literals, pure operands, len(pure), + - * of those.
func pureInt(e ast.Expr) bool {
	switch t := e.(type) {
	case *ast.BasicLit:
		return t.Kind == token.INT
	case *ast.ParenExpr:
		return pureInt(t.X)
	case *ast.BinaryExpr:
		return (t.Op == token.ADD || t.Op == token.SUB || t.Op == token.MUL) && pureInt(t.X) && pureInt(t.Y)
	case *ast.CallExpr:
		if id, ok := t.Fun.(*ast.Ident); ok && id.Name == "len" && len(t.Args) == 1 {
			return pure(t.Args[0])
		}
		return false
	}
	return pure(e)
}

func (in *inst) isSlice(e ast.Expr) bool {
	tv, ok := in.pkg.TypesInfo.Types[e]
	if !ok || tv.Type == nil {
		return false
	}
	_, sl := tv.Type.Underlying().(*types.Slice)
	return sl
}

func (in *inst) isInteger(e ast.Expr) bool {
	tv, ok := in.pkg.TypesInfo.Types[e]
	if !ok || tv.Type == nil {
		return false
	}
	b, isBasic := tv.Type.Underlying().(*types.Basic)
	return isBasic && b.Info()&types.IsInteger != 0
}

func evStmt(fn string, args ...ast.Expr) ast.Stmt {
	return &ast.ExprStmt{X: &ast.CallExpr{Fun: sel("verifrt", fn), Args: args}}
}

type access struct {
	kind  string // F G M | SI (slice index) SA (append) SR (whole slice) SC (copy)
	base  ast.Expr
	aux   ast.Expr // SI: index, SA: number of appended elements, SC: source
	name  string
	write bool
	node  ast.Node
}

// events returns the event statements for the unconditionally evaluated accesses of a simple statement.
func (in *inst) events(s ast.Stmt, _ any) []ast.Stmt {
	if !in.has("A") || s == nil {
		return nil
	}
	var acc []access
	switch t := s.(type) {
	case *ast.AssignStmt:
		for _, r := range t.Rhs {
			in.collect(r, false, &acc)
		}
		for _, l := range t.Lhs {
			if t.Tok != token.ASSIGN && t.Tok != token.DEFINE {
				in.collect(l, false, &acc) // op-assign reads as well
			}
			in.collectLHS(l, &acc)
		}
	case *ast.IncDecStmt:
		in.collect(t.X, false, &acc)
		in.collectLHS(t.X, &acc)
	case *ast.ExprStmt:
		in.collect(t.X, false, &acc)
	case *ast.ReturnStmt:
		for _, r := range t.Results {
			in.collect(r, false, &acc)
		}
	case *ast.DeclStmt:
		if gd, ok := t.Decl.(*ast.GenDecl); ok {
			for _, sp := range gd.Specs {
				if vs, ok := sp.(*ast.ValueSpec); ok {
					for _, v := range vs.Values {
						in.collect(v, false, &acc)
					}
				}
			}
		}
	default:
		return nil
	}
	return in.emit(acc)
}

func (in *inst) exprEvents(e ast.Expr) []ast.Stmt {
	if !in.has("A") || e == nil {
		return nil
	}
	var acc []access
	in.collect(e, false, &acc)
	return in.emit(acc)
}

func (in *inst) emit(acc []access) []ast.Stmt {
	var out []ast.Stmt
	seen := map[string]bool{}
	for _, a := range acc {
		key := a.kind + "|" + a.name + "|" + fmt.Sprint(a.write)
		if a.base != nil {
			key += "|" + exprString(a.base)
		}
		if a.aux != nil {
			key += "|" + exprString(a.aux)
		}
		if seen[key] {
			continue
		}
		seen[key] = true
		in.needRT = true
		switch a.kind {
		case "G":
			in.st.GlobalEvents++
			out = append(out, evStmt("G", strLit(a.name), boolLit(a.write), strLit(in.site(a.node))))
		case "F":
			in.st.FieldEvents++
			out = append(out, evStmt("F", closure(a.base), strLit(a.name), boolLit(a.write), strLit(in.site(a.node))))
		case "M":
			in.st.MapEvents++
			out = append(out, evStmt("MapAcc", closure(a.base), boolLit(a.write), strLit(in.site(a.node))))
		case "SI":
			in.st.SliceEvents++
			out = append(out, evStmt("SliceIdx", closure(a.base), intClosure(a.aux), boolLit(a.write), strLit(in.site(a.node))))
		case "SA":
			in.st.SliceEvents++
			out = append(out, evStmt("SliceAppend", closure(a.base), intClosure(a.aux), strLit(in.site(a.node))))
		case "SR":
			in.st.SliceEvents++
			out = append(out, evStmt("SliceAll", closure(a.base), boolLit(a.write), strLit(in.site(a.node))))
		case "SC":
			in.st.SliceEvents++
			out = append(out, evStmt("SliceCopy", closure(a.base), closure(a.aux), strLit(in.site(a.node))))
		}
	}
	return out
}

func (in *inst) collectLHS(l ast.Expr, acc *[]access) {
	switch t := l.(type) {
	case *ast.ParenExpr:
		in.collectLHS(t.X, acc)
	case *ast.Ident:
		if name, ok := in.global(t); ok {
			*acc = append(*acc, access{kind: "G", name: name, write: true, node: t})
		}
	case *ast.SelectorExpr:
		if base, name, ok := in.field(t); ok {
			*acc = append(*acc, access{kind: "F", base: base, name: name, write: true, node: t})
		}
		if name, ok := in.qualifiedGlobal(t); ok {
			*acc = append(*acc, access{kind: "G", name: name, write: true, node: t})
		}
		in.collect(t.X, false, acc)
	case *ast.IndexExpr:
		if in.isMap(t.X) && pure(t.X) {
			*acc = append(*acc, access{kind: "M", base: t.X, write: true, node: t})
		}
		if in.isSlice(t.X) && pure(t.X) && pureInt(t.Index) && in.isInteger(t.Index) {
			*acc = append(*acc, access{kind: "SI", base: t.X, aux: t.Index, write: true, node: t})
		}
		in.collect(t.X, false, acc)
		in.collect(t.Index, false, acc)
	case *ast.StarExpr:
		in.collect(t.X, false, acc)
	}
}

func (in *inst) isMap(e ast.Expr) bool {
	tv, ok := in.pkg.TypesInfo.Types[e]
	if !ok {
		return false
	}
	_, m := tv.Type.Underlying().(*types.Map)
	return m
}

func (in *inst) global(id *ast.Ident) (string, bool) {
	obj := in.pkg.TypesInfo.Uses[id]
	v, ok := obj.(*types.Var)
	if !ok || v.IsField() || v.Pkg() == nil || v.Parent() != v.Pkg().Scope() {
		return "", false
	}
	if !strings.HasPrefix(v.Pkg().Path(), modPath) {
		return "", false
	}
	return v.Pkg().Path() + "." + v.Name(), true
}

// qualifiedGlobal recognises pkg.V where V is a package-level variable of another package - of this module or of a dependency:
// what the module's code reads and writes there is the module's behaviour (accesses made inside a dependency are not seen).
func (in *inst) qualifiedGlobal(s *ast.SelectorExpr) (string, bool) {
	pk, ok := s.X.(*ast.Ident)
	if !ok {
		return "", false
	}
	if _, isPkg := in.pkg.TypesInfo.Uses[pk].(*types.PkgName); !isPkg {
		return "", false
	}
	v, ok := in.pkg.TypesInfo.Uses[s.Sel].(*types.Var)
	if !ok || v.IsField() || v.Pkg() == nil || v.Parent() != v.Pkg().Scope() {
		return "", false
	}
	return v.Pkg().Path() + "." + v.Name(), true
}

// field recognises x.f where f is a struct field reached through a pointer x (pure chain).
func (in *inst) field(s *ast.SelectorExpr) (ast.Expr, string, bool) {
	sl, ok := in.pkg.TypesInfo.Selections[s]
	if !ok || sl.Kind() != types.FieldVal || !pure(s.X) {
		return nil, "", false
	}
	tv, ok := in.pkg.TypesInfo.Types[s.X]
	if !ok {
		return nil, "", false
	}
	if _, isPtr := tv.Type.Underlying().(*types.Pointer); !isPtr {
		return nil, "", false
	}
	return s.X, s.Sel.Name, true
}

// collect walks the unconditionally evaluated part of an expression.
func (in *inst) collect(e ast.Expr, _ bool, acc *[]access) {
	switch t := e.(type) {
	case nil:
	case *ast.Ident:
		if name, ok := in.global(t); ok {
			*acc = append(*acc, access{kind: "G", name: name, node: t})
		}
	case *ast.ParenExpr:
		in.collect(t.X, false, acc)
	case *ast.SelectorExpr:
		if base, name, ok := in.field(t); ok {
			*acc = append(*acc, access{kind: "F", base: base, name: name, node: t})
		}
		if name, ok := in.qualifiedGlobal(t); ok {
			*acc = append(*acc, access{kind: "G", name: name, node: t})
		}
		in.collect(t.X, false, acc)
	case *ast.StarExpr:
		in.collect(t.X, false, acc)
	case *ast.UnaryExpr:
		if t.Op == token.AND {
			// taking an address is not an access of the content; the operand's own bases are still read
			switch x := t.X.(type) {
			case *ast.SelectorExpr:
				in.collect(x.X, false, acc)
			case *ast.IndexExpr:
				in.collect(x.X, false, acc)
				in.collect(x.Index, false, acc)
			case *ast.CompositeLit:
				in.collect(x, false, acc)
			}
			return
		}
		if t.Op == token.ARROW {
			in.unmodelled(t)
		}
		in.collect(t.X, false, acc)
	case *ast.BinaryExpr:
		in.collect(t.X, false, acc)
		if t.Op != token.LAND && t.Op != token.LOR {
			in.collect(t.Y, false, acc)
		}
	case *ast.IndexExpr:
		if in.isMap(t.X) && pure(t.X) {
			*acc = append(*acc, access{kind: "M", base: t.X, node: t})
		}
		if in.isSlice(t.X) && pure(t.X) && pureInt(t.Index) && in.isInteger(t.Index) {
			*acc = append(*acc, access{kind: "SI", base: t.X, aux: t.Index, node: t})
		}
		in.collect(t.X, false, acc)
		in.collect(t.Index, false, acc)
	case *ast.SliceExpr:
		in.collect(t.X, false, acc)
		in.collect(t.Low, false, acc)
		in.collect(t.High, false, acc)
		in.collect(t.Max, false, acc)
	case *ast.TypeAssertExpr:
		in.collect(t.X, false, acc)
	case *ast.CallExpr:
		// builtin len / delete on maps
		if id, ok := t.Fun.(*ast.Ident); ok && len(t.Args) > 0 {
			if _, isBuiltin := in.pkg.TypesInfo.Uses[id].(*types.Builtin); isBuiltin {
				if (id.Name == "len" || id.Name == "delete") && in.isMap(t.Args[0]) && pure(t.Args[0]) {
					*acc = append(*acc, access{kind: "M", base: t.Args[0], write: id.Name == "delete", node: t})
				}
				if id.Name == "append" && in.isSlice(t.Args[0]) && pure(t.Args[0]) {
					if !t.Ellipsis.IsValid() {
						*acc = append(*acc, access{kind: "SA", base: t.Args[0], aux: intLit(len(t.Args) - 1), write: true, node: t})
					} else if len(t.Args) == 2 && pure(t.Args[1]) {
						*acc = append(*acc, access{kind: "SA", base: t.Args[0], aux: &ast.CallExpr{Fun: ast.NewIdent("len"), Args: []ast.Expr{t.Args[1]}}, write: true, node: t})
					}
				}
				if id.Name == "copy" && len(t.Args) == 2 && in.isSlice(t.Args[0]) && pure(t.Args[0]) && pure(t.Args[1]) {
					*acc = append(*acc, access{kind: "SC", base: t.Args[0], aux: t.Args[1], write: true, node: t})
				}
			}
		}
		// library functions that rearrange a slice in place: sort.Strings / Ints / Float64s / Slice / SliceStable / Sort / Stable, slices.Sort*, slices.Reverse
		if se, ok := t.Fun.(*ast.SelectorExpr); ok && len(t.Args) > 0 {
			if pk, ok := se.X.(*ast.Ident); ok {
				if pn, ok := in.pkg.TypesInfo.Uses[pk].(*types.PkgName); ok {
					path, name := pn.Imported().Path(), se.Sel.Name
					if (path == "sort" && (name == "Strings" || name == "Ints" || name == "Float64s" || name == "Slice" || name == "SliceStable" || name == "Sort" || name == "Stable")) ||
						(path == "slices" && (strings.HasPrefix(name, "Sort") || name == "Reverse")) {
						arg := t.Args[0]
						if conv, ok := arg.(*ast.CallExpr); ok && len(conv.Args) == 1 { // sort.Sort(sort.StringSlice(s)) and the like
							arg = conv.Args[0]
						}
						if in.isSlice(arg) && pure(arg) {
							*acc = append(*acc, access{kind: "SR", base: arg, node: t}, access{kind: "SR", base: arg, write: true, node: t})
						}
					}
				}
			}
		}
		// method call receiver x.f.M(): the field's address is taken when M has a pointer receiver (no content access)
		if se, ok := t.Fun.(*ast.SelectorExpr); ok {
			if sl, ok := in.pkg.TypesInfo.Selections[se]; ok && sl.Kind() == types.MethodVal {
				recvPtr := false
				if sig, ok := sl.Obj().Type().(*types.Signature); ok && sig.Recv() != nil {
					_, recvPtr = sig.Recv().Type().(*types.Pointer)
				}
				if inner, ok := se.X.(*ast.SelectorExpr); ok && recvPtr {
					in.collect(inner.X, false, acc)
				} else {
					in.collect(se.X, false, acc)
				}
			} else {
				in.collect(se.X, false, acc)
			}
		} else {
			in.collect(t.Fun, false, acc)
		}
		for _, a := range t.Args {
			in.collect(a, false, acc)
		}
	case *ast.CompositeLit:
		for _, el := range t.Elts {
			if kv, ok := el.(*ast.KeyValueExpr); ok {
				in.collect(kv.Value, false, acc)
				if _, isStruct := in.typeOf(t).(*types.Struct); !isStruct {
					in.collect(kv.Key, false, acc)
				}
			} else {
				in.collect(el, false, acc)
			}
		}
	case *ast.KeyValueExpr:
		in.collect(t.Value, false, acc)
	case *ast.FuncLit:
		// evaluated later (if at all)
	}
}

func (in *inst) typeOf(e ast.Expr) types.Type {
	if tv, ok := in.pkg.TypesInfo.Types[e]; ok {
		return tv.Type.Underlying()
	}
	return nil
}
